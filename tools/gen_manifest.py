#!/venv/bin/python
"""Regenerates /verif/MANIFEST.json from the table below (keeps it valid at all times)."""
import json, os, sys
sys.path.insert(0, "/opt/veriftools/pyvenv/lib/python3.11/site-packages")
V = os.path.dirname(os.path.dirname(os.path.abspath(__file__)))
BASE = json.load(open("/root/.vp/BASELINE.json"))["cmd"].replace("--junitxml=<file>", "").strip()

CHECKS = {
 "C19": dict(level="model_checking", ref="DESIGN.md §2 C19",
   technique="explicit-state BFS over B-tree shapes on the real dns.btree (history replay), reference sorted-list model",
   text="Every B-tree shape reachable with <= N keys (t=3,4; in_order on/off; dict and set) is visited by BFS whose transitions run the real insert/replace/delete code; after every transition structural invariants and agreement with a sorted-list model are checked, and at every state (up to stated sizes) clone/freeze isolation by identity-level snapshots, all cursor seek/step patterns and parked cursors across every mutation.",
   note="Keys abstracted to ranks (algorithm only compares keys); bounded key count (height <= 3); t in {3,4}; single-threaded (the B-tree is documented as not thread-safe)."),
 "C12": dict(level="model_checking", ref="DESIGN.md §2 C12",
   technique="stateless schedule exploration (DFS over choice prefixes, iterative preemption bounding) of real threads on the real versioned zone under a cooperative threading shim with line-level scheduling points",
   text="Every interleaving (up to the stated preemption bound; every line of the writer-admission/commit/reader code and every blocking lock/event operation is a scheduling point) of 2-5 writer threads (commit, rollback, exception-in-with) and 0-2 reader threads is executed on the real dns.versioned.Zone / dns.btreezone.Zone; each complete execution is judged for mutual exclusion, FIFO admission (arrival = first acquisition of the version lock), absence of deadlock/lost wake-up, final state = serial application in admission order, and readers seeing exactly one committed prefix; no blocking while holding the lock.",
   note="Bounded threads and preemptions; a source line is the atomic step (CPython bytecode-level races inside one line are not modelled); the cooperative shim replaces dns.versioned.threading (a short free-running pass with real threading runs the same bodies)."),
 "C17": dict(level="model_checking", ref="DESIGN.md §2 C17",
   technique="complete explicit-state BFS over cache operation histories against a reference model, plus preemption-bounded schedule exploration of real threads with a brute-force linearizability check",
   text="(a) The reachable state space of the real Cache and LRUCache under get/put(ttl)/flush/resize/clock-tick/statistics events on 3 keys with a virtual clock is explored to saturation; every transition is compared with a dict+recency-list reference (freshness, latest-value, LRU order and bound, hit/miss accounting, ring/dict consistency). (b) Every schedule within the preemption bound of 2-3 threads x 1-3 operations on colliding keys (lock-level for all program pairs from a 9-op menu, line-level inside every cache method for hand-picked colliding programs) is executed on the real caches; each call/return history must have a sequential explanation that also reproduces the final internal state.",
   note="dns.resolver.time / dns.resolver.threading rebound to a virtual clock and a cooperative shim; 3 keys, TTL 0-2; a source line is the atomic step; bounded threads/ops/preemptions."),
 "C10": dict(level="model_checking", ref="DESIGN.md §2 C10",
   technique="explicit-state search over committed zone contents; every transaction (1-3 operations x argument forms x name spellings x endings incl. an exception injected after every operation index) executed on the real zones and compared with a reference zone model",
   text="From 6 initial zones, BFS over committed contents; at every state every 1-op transaction of a ~60-call alphabet (add/replace/delete/delete_exact in every argument form, update_serial incl. RFC 1982 wrap) with names spelled relative and absolute, and every 2-op (thorough: also 3-op) transaction over a sub-alphabet, is run on plain/versioned/btree zones x relativize on/off and ended by commit, explicit commit, rollback or an exception after each operation; content, exceptions, reads inside the transaction, version lists, and refusal by ended/read-only transactions are compared with mc/refs/zonemodel.py.",
   note="Small universe (4 names, 10 records, TTL 3-20); BFS depth 1-2 transactions; the reference model is written from docstrings; rdata/name equality is taken from the library (C07)."),
 "C11": dict(level="model_checking", ref="DESIGN.md §2 C11",
   technique="explicit-state BFS over reader/writer/pruning-policy event histories on the real versioned and B-tree zones, with reflection-driven enumeration of the mutator surface reachable from a snapshot",
   text="BFS (depth 7 quick / 9 thorough, canonical state = retained versions with relative ids and content, pinned ids, policy, pending writer ops) over histories of reader open (latest / by id / by serial, incl. missing), reader close, writer begin/op/commit/rollback, set_max_versions and custom pruning policies; in every state every open reader's full read API is compared with the content recorded when its version was committed, ids must increase, retained versions must be a contiguous run containing the newest and all pinned versions and, at every pruning trigger, exactly the reference deque; at states up to depth 4-5 every mutator found by reflection on the version, map, nodes, rdatasets, rdatas, names and on objects handed out by the transaction API must raise and leave the snapshot unchanged.",
   note="Single-threaded histories (schedules are C12); <= 2-3 open readers and commits; for B-tree-backed maps/sets only the public mapping/set API is demanded to raise (private attributes of a frozen BTreeDict are not attribute-immutable by design)."),
 "C20": dict(level="model_checking", ref="DESIGN.md §2 C20",
   technique="explicit-state BFS over committed-transaction histories on the real B-tree zone with derived state in the canonical form, compared with a from-content reference; exhaustive load-order enumeration",
   text="BFS (depth 3 quick / 4 thorough) over histories of committed transactions adding/removing NS, A, DS rdatasets and whole nodes at apex, a, b.a, c.b.a, d, x.d (nested cuts, glue, names spelled relative and absolute) on relativized and absolute dns.btreezone.Zone; canonical form = content + flags + delegation index, so history-dependent derived state appears as extra states; in every state flags, index, iteration order and bounds() for 26 query names in both spellings equal a reference recomputed from content alone; every load order of every record set of <= 4-5 records from an 8-record pool is checked the same way.",
   note="6 names, 3 record kinds; derived-state definitions taken from the property statement and btreezone docstrings; bounded history depth."),
 "C01": dict(level="exploration", ref="DESIGN.md §2 C01",
   technique="exhaustive small-scope enumeration of labels, names, compression sequences, wire byte strings and pointer graphs against an independent RFC 1035 name codec",
   text="Every 1- and 2-octet label over all 256 values, 3/4-octet labels over per-branch class alphabets, short label sequences x relativity x origins go through to_text/from_text, the tokenizer path and to_wire/from_wire (with shared compression tables at base offsets around 0x3FFF); every byte string up to length 5-7 over a boundary alphabet at every offset and every pointer graph on K<=5-6 cells is decoded by the library and by mc/refs/name.py, which must agree on labels, consumed length or error, with pointers strictly backwards; every producing operation (constructor, concatenate, relativize, derelativize, from_wire, successor, predecessor) is checked against the 63/255 limits on boundary-length names.",
   note="Bounded label/name/byte-string sizes; IDNA paths out of scope; reference codec written from RFC 1035/4343 text."),
 "C06": dict(level="exploration", ref="DESIGN.md §2 C06",
   technique="exhaustive enumeration of all pairs and triples of names over a case-fold boundary alphabet against an independent RFC 4034 §6.1 comparator",
   text="All pairs (and triples over a core) of relative and absolute names of <= 2-3 labels over the alphabet {00,-,@,A,Z,[,`,a,z,{,FF}: fullcompare relation/order/common-label count, all rich comparisons, subdomain/superdomain/parent/split, eq <=> equal up to ASCII case => equal hash, antisymmetry, transitivity, sorted() vs reference sort, relativize/derelativize identity for several origins; successor/predecessor strictly after/before (or wrap) and within length limits for every such name plus maximal-length names.",
   note="Bounded label count/length and alphabet; minimality of successor/predecessor is not demanded (the property only requires strict order)."),
 "C16": dict(level="model_checking", ref="DESIGN.md §2 C16",
   technique="exhaustive exploration of the complete per-query outcome tree of the real sync and async resolve() loops with scripted nameservers and a virtual clock, against a reference model of the stub algorithm plus model-independent invariants",
   text="For ~20 resolver configurations (servers 1-3, search list/ndots/domain rules, retry_servfail, tcp, always-max-size server, raise_on_no_answer, Cache/LRUCache with preloaded hit/no-data/NXDOMAIN entries, lifetime and timeout variants) the explorer extends a script of per-query outcomes (answer, CNAME chains incl. 15/16/17 links, no-data, NXDOMAIN, SERVFAIL, REFUSED, NOTIMP, YXDOMAIN, malformed, truncated, timeout, OSError, EOF, answer-with-NXDOMAIN) whenever the real resolver asks for one more, until the resolver itself terminates; every complete script is run through dns.resolver.Resolver.resolve and dns.asyncresolver.Resolver.resolve (coroutine driven without an event loop), which must agree with each other and with mc's reference (query sequence with server/tcp/name/timeout, back-off sleeps, result class and payload, elapsed time, cache keys), and satisfy invariants (no broken server re-asked per candidate, one TCP retry after truncation, NXDOMAIN only if all candidates NXDOMAIN, cache serves an immediate second resolution without queries).",
   note="Scripted dns.nameserver.Nameserver subclasses (public extension point); virtual clock; rotate off; a timeout outcome consumes exactly the offered timeout; outcome alphabets are per configuration (listed in the evidence)."),
 "C02": dict(level="exploration", ref="DESIGN.md §2 C02",
   technique="k-deviation / full-product enumeration of per-type field values against an independent per-type reference wire codec, plus exhaustive short byte strings and single-fault enumeration of valid encodings",
   text="For all 69 implemented rdata type modules, 5 unknown/generic (class,type) cases and 14 EDNS option codecs (through OPT), mc/refs/rdschema.py gives a field schema with boundary-value domains and a reference encoder/decoder written from each type's RFC layout; every value within the k-deviation bound (full product where small) is encoded by the reference and decoded by the library (and vice versa), with and without origin, requiring equal records and byte-identical re-encoding; every byte string up to length 2 over all 256 values and up to n over an 8-value alphabet, and every truncation / byte substitution / trailing byte of every valid encoding, must give FormError or a record that consumed exactly rdlen and whose encoding is a decode/encode fixed point.",
   note="Bounded field domains and string lengths; reference codec written from RFC layouts (one-sided, so symmetric slips are visible); arbitrary-octet runs use origin None."),
 "C03": dict(level="exploration", ref="DESIGN.md §2 C03",
   technique="small-scope enumeration of message headers, EDNS states and up to 3 RRsets from a 22-RRset pool in all sections, judged by an independent wire parser with a compression-pointer audit",
   text="Messages over every opcode, flags/rcodes incl. extended rcodes, EDNS versions/flags/payloads/option lists, dynamic-update delete/prerequisite forms and all owner-name sharing patterns are rendered (with and without origin, plus crafted messages placing suffixes around offset 0x3FFF); mc/refs/wiremsg.py parses the bytes independently (counts vs records, all bytes consumed, every pointer strictly backwards, <= 0x3FFF and decoding to exactly the expected suffix), the library's from_wire must give the same id/flags/opcode/rcode/EDNS state and per-section multisets incl. TTLs, and re-rendering without shuffling must be byte-identical.",
   note="Bounded pool and message size; records compared by value (pointer targets may differ in ASCII case, RFC 4343); relative-name messages compared after derelativisation."),
 "C05": dict(level="exploration", ref="DESIGN.md §2 C05",
   technique="enumeration of well-formed per-type values (shared schema with C02) through to_text/from_text under origins, relativize settings and lossless style options, incl. every octet value in character-strings",
   text="Every well-formed value of the C02 schema for all implemented types is rendered to text and parsed back under origin None/example., relativize on/off, base64/hex chunkings, txt_is_utf8 and the RFC 3597 generic form (as known and unknown type), directly and inside a zone-file line; the result must equal the record and encode to the same wire; records accepted from wire (arbitrary-octet successes) must render to text, and records accepted from text must encode to wire.",
   note="Values restricted to what each type's presentation format can express (restrictions listed in the evidence); round-trip oracle cannot see slips that are symmetric in to_text and from_text."),
 "C08": dict(level="exploration", ref="DESIGN.md §2 C08",
   technique="enumeration of every size limit for a set of messages x truncation preference x EDNS/padding/TSIG variants, judged by an independent parser and TSIG verifier",
   text="Messages of 520-1600 octets (name sharing across the cut, multi-record sets, large TXT) are rendered at every max_size from 500 to len+2 and payload-derived defaults, with prefer_truncation on/off, EDNS none/plain/COOKIE, pad 0/16/128/468 and four TSIG key-name variants; results must not exceed the effective limit, parse fully with an independent parser (no pointer into removed bytes), hold a whole-RRset prefix in section order with TC set exactly when something before ADDITIONAL was dropped, keep OPT and a verifying TSIG, and be a multiple of the pad block incl. the TSIG; oversize without truncation must raise TooBig; the Renderer is also driven directly.",
   note="TooBig with prefer_truncation and padding is allowed by the property wording and only counted."),
 "C09": dict(level="exploration", ref="DESIGN.md §2 C09",
   technique="enumeration of zones (subsets of an RRset pool) x zone kinds x lossless style-option combinations for write-then-read, and of all toggle combinations of an independent zone-file writer for equivalent spellings incl. every $GENERATE modifier form",
   text="Zones built from SOA+NS plus every subset of <= k RRsets from a pool with escaped/wildcard/ENT/63-octet owners, many types and TTL extremes are written under pairs/triples/products of the lossless style options on plain/versioned/btree zones (relativized and absolute) and read back, requiring strict equality (names, types, covers, TTLs, record sets); an independent writer renders canonical record lists under every combination of spelling toggles (owner/TTL/class inheritance, TTL-class order, $ORIGIN-relative, mid-file $ORIGIN, parentheses, comments, $GENERATE vs an independent BIND-style expansion) and every spelling must load equal; out-of-zone owners vanish; no CNAME with other data for every record order.",
   note="Lossy options (omit_ttl, truncate_crypto, omit_final_dot, right justification) excluded by design; nl=CRLF read through universal newlines."),
 "C13": dict(level="fault_enumeration", ref="DESIGN.md §2 C13",
   technique="enumeration of version chains x transfer forms x every division of the record stream into messages x every single fault at every position, against an independent RFC 5936/1995 stream interpreter, on the real Inbound state machine and (subset) the real inbound_xfr over scripted sockets",
   text="For 40 scenarios (adds, deletes, in-RRset change, TTL change, serial wrap; AXFR, IXFR with 1-3 deltas, condensed IXFR, AXFR-style IXFR, up-to-date, UDP IXFR incl. the use-TCP form; with/without question) every split of the stream into messages and every single fault (drop, duplicate, swap, truncate, surplus record after the final SOA in the same/next message, corrupt serial/owner/type/rcode) is rendered, parsed as dns.query does and fed to dns.xfr.Inbound in a with-block on plain/versioned/btree zones x relativize; mc/refs/xfr.py says valid(Z)/invalid/either: valid => zone == Z with its serial; invalid => error or unfinished and zone (content and version list) untouched; always: exception => zone unchanged.",
   note="Streams the RFCs leave ambiguous are judged 'either' (only the universal clause applies); bounded record universe; faults x divisions product reduced for long streams (bounds in evidence)."),
 "C14": dict(level="fault_enumeration", ref="DESIGN.md §2 C14",
   technique="full-product enumeration of signing parameters compared MAC-by-MAC with an independent RFC 8945 implementation, plus every single-bit alteration and every structural tampering of signed messages and multi-message sequences",
   text="All 9 HMAC algorithms x message kinds x key names x secret lengths x fudge x signing times (incl. > 32 bits) x error/other-data x original-id x request/response roles are signed via Message.use_tsig/to_wire and Renderer.add_tsig and compared with mc/refs/tsig.py (hmac/hashlib only); each is validated with five keyring forms at signed time and at signed +- fudge +- 1 under a controlled clock; every single bit of selected signed messages and of every envelope of 2-5 envelope sequences is flipped, plus wrong key/name/algorithm/secret, altered request MAC (every bit), every TSIG error code, misplaced/duplicated TSIG, dropped/swapped/replayed envelopes; all 15 unsigned-intermediate patterns produced by the reference signer must validate; no alteration of authenticated content may validate.",
   note="Bits RFC 8945 does not authenticate are exempt and listed (wire id, name case, TSIG TTL); time via dns.message.time / dns.renderer.time seams; GSS-TSIG out of scope."),
 "C15": dict(level="exploration", ref="DESIGN.md §2 C15",
   technique="small-scope enumeration of records, RRsets, keys, names/salts/iterations and whole zones against an independent implementation of RFC 4034/4035/4509/5155/6840/8976",
   text="Canonical RDATA of every type with mixed-case embedded names; RRSIG signing input over RRsets x owners x every labels value x signer relativity x unsorted/duplicate rdatas x original TTL; DS/CDS digests and key tags over key lengths and algorithms; NSEC3 hashes over names x salts x iterations; ZONEMD digests over small zones; and the NSEC chain produced by sign_zone(rrset_signer=recorder) on every zone over a 10-group name universe (delegations, glue at and below cuts, nested NS, wildcard, ENT, case variants) on plain/versioned/btree zones, relativized and absolute; each compared with mc/refs/dnssec.py, which is self-tested against the RFC example vectors.",
   note="No private keys (cryptography absent): only the key-free computations, as the property says; unimplemented obsolete types are opaque."),
}
ALL = ["C%02d" % i for i in range(1, 21)]
m = {
 "version": 1,
 "setup_cmd": "/venv/bin/python -c \"import sys; sys.path.insert(0,'/repo'); import dns, mc.core; print('ok')\"",
 "hooks": {"guard": "DNSPYTHON_VERIF", "enable": "none needed: every seam is a module global, a public parameter or sys.settrace; checks import dns from /repo's working tree",
           "baseline_off_cmd": BASE, "source_commits": [], "add_only": True},
 "engines": [
   {"name": "mc", "path": "mc/", "serves_properties": sorted(CHECKS), "kind_free_text": "home-grown bounded exhaustive explorers for Python (E1 small-scope enumeration, E2 explicit-state BFS over real transition functions, E3 thread-schedule exploration with preemption bounding, E4 fault/environment script enumeration)"}],
 "checks": [],
 "not_applicable": [],
 "notes": "All checks: python -m mc.run <id> --tier quick|thorough; replays under replays/<id>/; known findings in known_findings.json.",
}
for pid in ALL:
    if pid in CHECKS:
        c = CHECKS[pid]
        m["checks"].append({
            "property_id": pid,
            "quick_cmd": "/venv/bin/python -m mc.run %s --tier quick" % pid,
            "thorough_cmd": "/venv/bin/python -m mc.run %s --tier thorough" % pid,
            "evidence_file": "evidence/%s.json" % pid,
            "replay_cmd_template": "/venv/bin/python -m mc.run %s --replay {path}" % pid,
            "engine": "mc",
            "level_claimed": {"category": c["level"], "text": c["text"], "design_ref": c["ref"]},
            "level_note": c["note"],
            "technique": c["technique"],
        })
    else:
        m["not_applicable"].append({"property_id": pid, "reason": "check not built yet in this round (planned, see DESIGN.md section 2); no claim is made until it runs silently on the unchanged tree"})
json.dump(m, open(os.path.join(V, "MANIFEST.json"), "w"), indent=1)
try:
    import jsonschema
    jsonschema.validate(m, json.load(open("/root/.vp/MANIFEST.schema.json")))
    print("MANIFEST valid;", len(m["checks"]), "checks")
except ImportError:
    print("jsonschema missing; not validated")
