#!/venv/bin/python
"""Regenerates /verif/MANIFEST.json from the table below (keeps it valid at all times)."""
import json, os, sys
sys.path.insert(0, "/opt/veriftools/pyvenv/lib/python3.11/site-packages")
V = os.path.dirname(os.path.dirname(os.path.abspath(__file__)))
BASE = json.load(open("/root/.vp/BASELINE.json"))["cmd"].replace("--junitxml=<file>", "").strip()

CHECKS = {
 "C19": dict(level="model_checking", ref="DESIGN.md §2 C19",
   technique="explicit-state BFS over B-tree shapes on the real dns.btree (history replay), reference sorted-list model",
   text="Every B-tree shape reachable with <= N keys (t=3,4; in_order on/off; dict and set) is visited by BFS whose transitions run the real insert/replace/delete code; after every transition structural invariants and agreement with a sorted-list model are checked, and at every state (up to stated sizes) clone/freeze isolation by identity-level snapshots, all cursor seek/step patterns and parked cursors across every mutation.",
   note="Keys abstracted to ranks (algorithm only compares keys); bounded key count (height <= 3); t in {3,4}; single-threaded (the B-tree is documented as not thread-safe)."),
 "C12": dict(level="model_checking", ref="DESIGN.md §2 C12",
   technique="stateless schedule exploration (DFS over choice prefixes, iterative preemption bounding) of real threads on the real versioned zone under a cooperative threading shim with line-level scheduling points",
   text="Every interleaving (up to the stated preemption bound; every line of the writer-admission/commit/reader code and every blocking lock/event operation is a scheduling point) of 2-5 writer threads (commit, rollback, exception-in-with) and 0-2 reader threads is executed on the real dns.versioned.Zone / dns.btreezone.Zone; each complete execution is judged for mutual exclusion, FIFO admission (arrival = first acquisition of the version lock), absence of deadlock/lost wake-up, final state = serial application in admission order, and readers seeing exactly one committed prefix; no blocking while holding the lock.",
   note="Bounded threads and preemptions; a source line is the atomic step (CPython bytecode-level races inside one line are not modelled); the cooperative shim replaces dns.versioned.threading (a short free-running pass with real threading runs the same bodies)."),
 "C17": dict(level="model_checking", ref="DESIGN.md §2 C17",
   technique="complete explicit-state BFS over cache operation histories against a reference model, plus preemption-bounded schedule exploration of real threads with a brute-force linearizability check",
   text="(a) The reachable state space of the real Cache and LRUCache under get/put(ttl)/flush/resize/clock-tick/statistics events on 3 keys with a virtual clock is explored to saturation; every transition is compared with a dict+recency-list reference (freshness, latest-value, LRU order and bound, hit/miss accounting, ring/dict consistency). (b) Every schedule within the preemption bound of 2-3 threads x 1-3 operations on colliding keys (lock-level for all program pairs from a 9-op menu, line-level inside every cache method for hand-picked colliding programs) is executed on the real caches; each call/return history must have a sequential explanation that also reproduces the final internal state.",
   note="dns.resolver.time / dns.resolver.threading rebound to a virtual clock and a cooperative shim; 3 keys, TTL 0-2; a source line is the atomic step; bounded threads/ops/preemptions."),
 "C10": dict(level="model_checking", ref="DESIGN.md §2 C10",
   technique="explicit-state search over committed zone contents; every transaction (1-3 operations x argument forms x name spellings x endings incl. an exception injected after every operation index) executed on the real zones and compared with a reference zone model",
   text="From 6 initial zones, BFS over committed contents; at every state every 1-op transaction of a ~60-call alphabet (add/replace/delete/delete_exact in every argument form, update_serial incl. RFC 1982 wrap) with names spelled relative and absolute, and every 2-op (thorough: also 3-op) transaction over a sub-alphabet, is run on plain/versioned/btree zones x relativize on/off and ended by commit, explicit commit, rollback or an exception after each operation; content, exceptions, reads inside the transaction, version lists, and refusal by ended/read-only transactions are compared with mc/refs/zonemodel.py.",
   note="Small universe (4 names, 10 records, TTL 3-20); BFS depth 1-2 transactions; the reference model is written from docstrings; rdata/name equality is taken from the library (C07)."),
 "C11": dict(level="model_checking", ref="DESIGN.md §2 C11",
   technique="explicit-state BFS over reader/writer/pruning-policy event histories on the real versioned and B-tree zones, with reflection-driven enumeration of the mutator surface reachable from a snapshot",
   text="BFS (depth 7 quick / 9 thorough, canonical state = retained versions with relative ids and content, pinned ids, policy, pending writer ops) over histories of reader open (latest / by id / by serial, incl. missing), reader close, writer begin/op/commit/rollback, set_max_versions and custom pruning policies; in every state every open reader's full read API is compared with the content recorded when its version was committed, ids must increase, retained versions must be a contiguous run containing the newest and all pinned versions and, at every pruning trigger, exactly the reference deque; at states up to depth 4-5 every mutator found by reflection on the version, map, nodes, rdatasets, rdatas, names and on objects handed out by the transaction API must raise and leave the snapshot unchanged.",
   note="Single-threaded histories (schedules are C12); <= 2-3 open readers and commits; for B-tree-backed maps/sets only the public mapping/set API is demanded to raise (private attributes of a frozen BTreeDict are not attribute-immutable by design)."),
 "C20": dict(level="model_checking", ref="DESIGN.md §2 C20",
   technique="explicit-state BFS over committed-transaction histories on the real B-tree zone with derived state in the canonical form, compared with a from-content reference; exhaustive load-order enumeration",
   text="BFS (depth 3 quick / 4 thorough) over histories of committed transactions adding/removing NS, A, DS rdatasets and whole nodes at apex, a, b.a, c.b.a, d, x.d (nested cuts, glue, names spelled relative and absolute) on relativized and absolute dns.btreezone.Zone; canonical form = content + flags + delegation index, so history-dependent derived state appears as extra states; in every state flags, index, iteration order and bounds() for 26 query names in both spellings equal a reference recomputed from content alone; every load order of every record set of <= 4-5 records from an 8-record pool is checked the same way.",
   note="6 names, 3 record kinds; derived-state definitions taken from the property statement and btreezone docstrings; bounded history depth."),
 "C01": dict(level="exploration", ref="DESIGN.md §2 C01",
   technique="exhaustive small-scope enumeration of labels, names, compression sequences, wire byte strings and pointer graphs against an independent RFC 1035 name codec",
   text="Every 1- and 2-octet label over all 256 values, 3/4-octet labels over per-branch class alphabets, short label sequences x relativity x origins go through to_text/from_text, the tokenizer path and to_wire/from_wire (with shared compression tables at base offsets around 0x3FFF); every byte string up to length 5-7 over a boundary alphabet at every offset and every pointer graph on K<=5-6 cells is decoded by the library and by mc/refs/name.py, which must agree on labels, consumed length or error, with pointers strictly backwards; every producing operation (constructor, concatenate, relativize, derelativize, from_wire, successor, predecessor) is checked against the 63/255 limits on boundary-length names.",
   note="Bounded label/name/byte-string sizes; IDNA paths out of scope; reference codec written from RFC 1035/4343 text."),
 "C06": dict(level="exploration", ref="DESIGN.md §2 C06",
   technique="exhaustive enumeration of all pairs and triples of names over a case-fold boundary alphabet against an independent RFC 4034 §6.1 comparator",
   text="All pairs (and triples over a core) of relative and absolute names of <= 2-3 labels over the alphabet {00,-,@,A,Z,[,`,a,z,{,FF}: fullcompare relation/order/common-label count, all rich comparisons, subdomain/superdomain/parent/split, eq <=> equal up to ASCII case => equal hash, antisymmetry, transitivity, sorted() vs reference sort, relativize/derelativize identity for several origins; successor/predecessor strictly after/before (or wrap) and within length limits for every such name plus maximal-length names.",
   note="Bounded label count/length and alphabet; minimality of successor/predecessor is not demanded (the property only requires strict order)."),
 "C16": dict(level="model_checking", ref="DESIGN.md §2 C16",
   technique="exhaustive exploration of the complete per-query outcome tree of the real sync and async resolve() loops with scripted nameservers and a virtual clock, against a reference model of the stub algorithm plus model-independent invariants",
   text="For ~20 resolver configurations (servers 1-3, search list/ndots/domain rules, retry_servfail, tcp, always-max-size server, raise_on_no_answer, Cache/LRUCache with preloaded hit/no-data/NXDOMAIN entries, lifetime and timeout variants) the explorer extends a script of per-query outcomes (answer, CNAME chains incl. 15/16/17 links, no-data, NXDOMAIN, SERVFAIL, REFUSED, NOTIMP, YXDOMAIN, malformed, truncated, timeout, OSError, EOF, answer-with-NXDOMAIN) whenever the real resolver asks for one more, until the resolver itself terminates; every complete script is run through dns.resolver.Resolver.resolve and dns.asyncresolver.Resolver.resolve (coroutine driven without an event loop), which must agree with each other and with mc's reference (query sequence with server/tcp/name/timeout, back-off sleeps, result class and payload, elapsed time, cache keys), and satisfy invariants (no broken server re-asked per candidate, one TCP retry after truncation, NXDOMAIN only if all candidates NXDOMAIN, cache serves an immediate second resolution without queries).",
   note="Scripted dns.nameserver.Nameserver subclasses (public extension point); virtual clock; rotate off; a timeout outcome consumes exactly the offered timeout; outcome alphabets are per configuration (listed in the evidence)."),
}
ALL = ["C%02d" % i for i in range(1, 21)]
m = {
 "version": 1,
 "setup_cmd": "/venv/bin/python -c \"import sys; sys.path.insert(0,'/repo'); import dns, mc.core; print('ok')\"",
 "hooks": {"guard": "DNSPYTHON_VERIF", "enable": "none needed: every seam is a module global, a public parameter or sys.settrace; checks import dns from /repo's working tree",
           "baseline_off_cmd": BASE, "source_commits": [], "add_only": True},
 "engines": [
   {"name": "mc", "path": "mc/", "serves_properties": sorted(CHECKS), "kind_free_text": "home-grown bounded exhaustive explorers for Python (E1 small-scope enumeration, E2 explicit-state BFS over real transition functions, E3 thread-schedule exploration with preemption bounding, E4 fault/environment script enumeration)"}],
 "checks": [],
 "not_applicable": [],
 "notes": "All checks: python -m mc.run <id> --tier quick|thorough; replays under replays/<id>/; known findings in known_findings.json.",
}
for pid in ALL:
    if pid in CHECKS:
        c = CHECKS[pid]
        m["checks"].append({
            "property_id": pid,
            "quick_cmd": "/venv/bin/python -m mc.run %s --tier quick" % pid,
            "thorough_cmd": "/venv/bin/python -m mc.run %s --tier thorough" % pid,
            "evidence_file": "evidence/%s.json" % pid,
            "replay_cmd_template": "/venv/bin/python -m mc.run %s --replay {path}" % pid,
            "engine": "mc",
            "level_claimed": {"category": c["level"], "text": c["text"], "design_ref": c["ref"]},
            "level_note": c["note"],
            "technique": c["technique"],
        })
    else:
        m["not_applicable"].append({"property_id": pid, "reason": "check not built yet in this round (planned, see DESIGN.md section 2); no claim is made until it runs silently on the unchanged tree"})
json.dump(m, open(os.path.join(V, "MANIFEST.json"), "w"), indent=1)
try:
    import jsonschema
    jsonschema.validate(m, json.load(open("/root/.vp/MANIFEST.schema.json")))
    print("MANIFEST valid;", len(m["checks"]), "checks")
except ImportError:
    print("jsonschema missing; not validated")
