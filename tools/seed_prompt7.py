#!/venv/bin/python
"""Prints the prompt for a seeding sub-agent (property text only, no /verif knowledge)."""
import json, sys
pid = sys.argv[1]
for l in open("/verif/properties.jsonl"):
    p = json.loads(l)
    if p["id"] == pid:
        break
wt = "/tmp/seed7-%s" % pid
out = "/tmp/seed7-%s-out" % pid
print(f"""You are helping evaluate a verification effort for the Python library dnspython. You have your own scratch git worktree of the library at {wt} (a checkout of the current HEAD; work ONLY there and in {out}; never touch /repo, never look at or use anything under /verif). Run Python as /venv/bin/python with PYTHONPATH={wt} so that `import dns` resolves to your worktree (check `dns.__file__`).

The following semantic property of dnspython is supposed to hold (it holds on the unchanged tree as far as we know):

Title: {p['title']}
Statement: {p['statement']}
Quantified over: {p['quantifier']['text']}
Why the existing tests cannot settle it: {p['why_tests_cant']}
Code it is anchored in: files {', '.join(p['anchors']['files'])}; mechanisms: {'; '.join(m['name'] + ' (' + m['where'] + ')' for m in p['anchors']['mechanism'])}

Your task: produce TWO independent, realistic changes to the library source (each a small edit a developer could plausibly make by mistake or as a misguided refactor/optimisation – the kind of slip code review lets through: an off-by-one or wrong comparison operator, a wrong variable or swapped argument, a missing or merged case, a condition simplified too far, a stale or wrongly keyed cache, a changed default, an early return, a lost copy – in two different functions and two different clauses of the property; change 1 must consist of TWO cooperating edits at different sites (different functions, possibly different files) that each look harmless alone and only break the property together; change 2 must be a single edit whose effect is history-dependent - it only shows after a specific multi-step sequence of operations, a specific earlier call in the same process, a specific interleaving or fault position, or an input at an unusual size or boundary) that BREAK this property while the code still imports and the repository's existing test-suite still passes exactly as before. Prefer changes that need something specific to manifest — a particular interleaving, a fault at a particular point, a multi-step sequence of operations, an unusual input, or two cooperating sites that each look fine alone — NOT ones that ordinary use would expose at once. Do not add dead/debug code, environment checks, randomness or special-casing of magic values; the edit must look like an honest bug.

For each change i in 1,2 deliver in {out}/:
  - change<i>.diff : unified diff (git diff in your worktree, relative to HEAD, applies with `git apply` / `patch -p1`)
  - demo<i>.py : a small standalone program (or pytest-free script) that exits 0 / prints PASS on the unchanged tree and exits non-zero / prints FAIL with the change applied; it must demonstrate a violation of the property as stated (not merely a behaviour difference)
  - notes<i>.md : which clause of the property it breaks, what is needed for it to manifest, and the exact commands you ran
You must verify yourself: (a) baseline: `cd {wt} && PYTHONPATH={wt} /venv/bin/python -m pytest -q -p no:cacheprovider --timeout=900 --deselect tests/test_name.py::NameTestCase::testFromUnicodeIDNA2008 --deselect tests/test_name.py::NameTestCase::testToUnicode5` on the unchanged worktree (those two IDNA tests fail on the unchanged tree too, hence deselected; expect about 1234 passed, ~200 skipped); (b) with each change applied alone, the same test run gives the same result; (c) demo passes without and fails with the change. Do not use `git stash` (it is shared between worktrees). Reset the worktree with `git -C {wt} checkout -- .` between changes and leave it clean at the end. Keep CPU use modest (the machine is shared): run the full test-suite at most 4-5 times in total, use targeted test files while iterating.

Final message (short): for each change, the file/function edited, one sentence on what breaks, and confirmation of (a)(b)(c) with the observed test counts.""")
