#!/venv/bin/python
"""Mutant driver (development aid, not a registered check).

  tools/mutant.py C19 --file dns/btree.py --old 'left = parent.maybe_cow_child(index - 1)\n                elt' --new '...'
  tools/mutant.py C19 --patch /verif/seeded/x/patch.diff [--tests]

Copies /repo to a scratch dir outside /repo and /verif, applies the change there, runs the
check(s) against the copy (DNSPYTHON_REPO) with evidence/replays diverted, removes the copy.
"""
import argparse, os, shutil, subprocess, sys, tempfile

ap = argparse.ArgumentParser()
ap.add_argument("props", nargs="+")
ap.add_argument("--file")
ap.add_argument("--old")
ap.add_argument("--new")
ap.add_argument("--patch")
ap.add_argument("--tier", default="quick")
ap.add_argument("--tests", action="store_true", help="also run the repo test-suite on the mutant")
ap.add_argument("--testsel", default="")
a = ap.parse_args()
d = tempfile.mkdtemp(prefix="mut-", dir="/tmp")
try:
    subprocess.check_call(["rsync", "-a", "--exclude", ".git", "/repo/", d + "/repo/"])
    repo = d + "/repo"
    if a.patch:
        subprocess.check_call(["patch", "-p1", "-s", "-d", repo, "-i", os.path.abspath(a.patch)])
    else:
        p = os.path.join(repo, a.file)
        s = open(p).read()
        old = a.old.encode().decode("unicode_escape")
        new = a.new.encode().decode("unicode_escape")
        assert s.count(old) == 1, "old string occurs %d times" % s.count(old)
        open(p, "w").write(s.replace(old, new))
    env = dict(os.environ, DNSPYTHON_REPO=repo, VERIF_OUT=d + "/out")
    if a.tests:
        r = subprocess.run("cd %s && /venv/bin/python -m pytest -q -x -p no:cacheprovider --timeout=900 %s 2>&1 | tail -5" % (repo, a.testsel),
                           shell=True, env=dict(os.environ, PYTHONPATH=repo))
    for prop in a.props:
        r = subprocess.run(["/venv/bin/python", "-m", "mc.run", prop, "--tier", a.tier], cwd="/verif", env=env,
                           capture_output=True, text=True)
        lines = [l for l in r.stdout.splitlines() if l.startswith(("VIOLATION", "KNOWN", "  what", "  sig", prop))]
        print("== %s rc=%d" % (prop, r.returncode))
        print("\n".join(lines[:14]))
        if r.returncode not in (0, 1):
            print(r.stderr[-3000:])
finally:
    shutil.rmtree(d, ignore_errors=True)
