#!/venv/bin/python
"""Regenerates the seeded-changes table in MUTANTS.md (between the two marker lines) from
seeded/<ID>-<n>/meta.json."""
import glob, json, os, re
ROOT = os.path.dirname(os.path.dirname(os.path.abspath(__file__)))
rows = []
def key(p):
    m = re.search(r"(C\d+)-(\d+)", p)
    return (m.group(1), int(m.group(2)))
first = caught = total = 0
for d in sorted(glob.glob(ROOT + "/seeded/C*-*"), key=key):
    m = json.load(open(d + "/meta.json"))
    total += 1
    chk = m.get("check", {})
    sigs = []
    for t in chk.values():
        sigs += t.get("signatures", [])
    missed_first = "first_run_missed" in m
    if m.get("caught"):
        caught += 1
        c = "yes" + (" (after strengthening; first run missed it)" if missed_first else "")
        if not missed_first:
            first += 1
    else:
        c = "no"
    other = m.get("other_properties_checks") or {}
    oth = ", ".join("%s rc=%s%s" % (k, v["rc"], (" " + v["signatures"][0]) if v.get("signatures") else "") for k, v in sorted(other.items()))
    if m.get("also_run"):
        oth = (oth + "; " if oth else "") + str(m["also_run"])
    rows.append("| %s | %s | %s | %s | %s | %s |" % (
        os.path.basename(d), ", ".join(m.get("files_changed", [])), "yes" if m.get("confirmed") else "NO", c,
        ", ".join(sigs[:2]), oth))
table = ["| seed | files | confirmed | caught by the property's check | first signatures | other properties' checks on the same change |",
         "|---|---|---|---|---|---|"] + rows
table.append("")
table.append("Totals: %d seeded changes; %d reported by their property's check on the first run; %d reported by it now." % (total, first, caught))
p = ROOT + "/MUTANTS.md"
s = open(p).read()
b, e = "<!-- seeded-table-begin -->", "<!-- seeded-table-end -->"
i, j = s.index(b), s.index(e)
s = s[:i + len(b)] + "\n" + "\n".join(table) + "\n" + s[j:]
open(p, "w").write(s)
print(table[-1])
