#!/venv/bin/python
"""Confirm a seeded (sub-agent written) property-breaking change and run our check on it.

  tools/seedcheck.py C17 1 [--tier quick] [--skip-tests]

Reads /tmp/seed-<ID>-out/{change<i>.diff,demo<i>.py,notes<i>.md}.  In a scratch copy of
/repo (outside /repo and /verif; removed afterwards):
  1. demo on the unchanged copy must pass (exit 0);
  2. apply the diff; the repository test-suite must give the baseline result;
  3. demo must now fail;
  4. run our check (quick, optionally thorough) against the changed copy.
Writes /verif/seeded/<ID>-<i>/{patch.diff,demo.py,notes.md,meta.json}.
"""
import argparse, json, os, re, shutil, subprocess, sys, tempfile, time

ap = argparse.ArgumentParser()
ap.add_argument("prop"); ap.add_argument("i")
ap.add_argument("--tier", default="quick")
ap.add_argument("--skip-tests", action="store_true")
ap.add_argument("--src", default=None)
ap.add_argument("--as", dest="as_index", default=None, help="index to store the seed under")
ap.add_argument("--also", default="", help="comma list of other properties' quick checks to run on the changed copy")
a = ap.parse_args()
src = a.src or "/tmp/seed-%s-out" % a.prop
diff = os.path.join(src, "change%s.diff" % a.i)
demo = os.path.join(src, "demo%s.py" % a.i)
notes = os.path.join(src, "notes%s.md" % a.i)
DESEL = ["--deselect", "tests/test_name.py::NameTestCase::testFromUnicodeIDNA2008",
         "--deselect", "tests/test_name.py::NameTestCase::testToUnicode5"]
BASEFILE = "/tmp/seed-baseline.json"


def tests(repo):
    r = subprocess.run(["/venv/bin/python", "-m", "pytest", "-q", "-p", "no:cacheprovider", "--timeout=900"] + DESEL,
                       cwd=repo, env=dict(os.environ, PYTHONPATH=repo), capture_output=True, text=True)
    tail = r.stdout.strip().splitlines()[-1] if r.stdout.strip() else ""
    m = re.search(r"(\d+) passed", tail)
    f = re.search(r"(\d+) failed", tail)
    return {"passed": int(m.group(1)) if m else 0, "failed": int(f.group(1)) if f else 0, "tail": tail,
            "failed_names": sorted(set(re.findall(r"^FAILED (\S+)", r.stdout, re.M)))}


def rundemo(repo):
    r = subprocess.run(["/venv/bin/python", demo], cwd=repo, env=dict(os.environ, PYTHONPATH=repo),
                       capture_output=True, text=True, timeout=600)
    return r.returncode, (r.stdout + r.stderr)[-600:]


d = tempfile.mkdtemp(prefix="sc-", dir="/tmp")
meta = {"property": a.prop, "index": a.as_index or a.i, "when": time.strftime("%Y-%m-%d %H:%M:%S")}
try:
    repo = d + "/repo"
    subprocess.check_call(["rsync", "-a", "--exclude", ".git", "/repo/", repo + "/"])
    if not a.skip_tests:
        if os.path.exists(BASEFILE):
            base = json.load(open(BASEFILE))
        else:
            base = tests(repo)
            json.dump(base, open(BASEFILE, "w"))
        meta["baseline_tests"] = base
    rc0, out0 = rundemo(repo)
    meta["demo_unchanged"] = {"rc": rc0, "tail": out0[-200:]}
    subprocess.check_call(["patch", "-p1", "-s", "-d", repo, "-i", diff])
    meta["files_changed"] = sorted(set(re.findall(r"^\+\+\+ b/(\S+)", open(diff).read(), re.M)))
    rc1, out1 = rundemo(repo)
    meta["demo_changed"] = {"rc": rc1, "tail": out1[-300:]}
    if not a.skip_tests:
        t = tests(repo)
        meta["changed_tests"] = t
        meta["tests_same_as_baseline"] = (t["passed"], t["failed_names"]) == (base["passed"], base["failed_names"])
    env = dict(os.environ, DNSPYTHON_REPO=repo, VERIF_OUT=d + "/out")
    res = {}
    for tier in a.tier.split(","):
        t0 = time.time()
        r = subprocess.run(["/venv/bin/python", "-m", "mc.run", a.prop, "--tier", tier], cwd="/verif", env=env,
                           capture_output=True, text=True)
        sigs = re.findall(r"signature: (\S+)", r.stdout)
        res[tier] = {"rc": r.returncode, "signatures": sigs[:12], "wall_s": round(time.time() - t0, 1),
                     "first_what": (re.findall(r"what: (.*)", r.stdout) or [""])[0][:300]}
        if r.returncode not in (0, 1):
            res[tier]["stderr"] = r.stderr[-800:]
        if r.returncode == 1:
            break
    meta["check"] = res
    also = {}
    for other in [x for x in a.also.split(",") if x]:
        t0 = time.time()
        r = subprocess.run(["/venv/bin/python", "-m", "mc.run", other, "--tier", "quick"], cwd="/verif", env=env,
                           capture_output=True, text=True)
        also[other] = {"rc": r.returncode, "signatures": re.findall(r"signature: (\S+)", r.stdout)[:6],
                       "wall_s": round(time.time() - t0, 1)}
    if also:
        meta["other_properties_checks"] = also
    prev_path = "/verif/seeded/%s-%s/meta.json" % (a.prop, a.as_index or a.i)
    if a.skip_tests and os.path.exists(prev_path):
        prev = json.load(open(prev_path))
        for k in ("baseline_tests", "changed_tests", "tests_same_as_baseline"):
            if k in prev:
                meta[k] = prev[k]
        if not prev.get("caught") :
            meta["first_run_missed"] = prev.get("check")
    meta["caught"] = any(v["rc"] == 1 for v in res.values())
    meta["confirmed"] = bool(rc0 == 0 and rc1 != 0 and meta.get("tests_same_as_baseline"))
    out = "/verif/seeded/%s-%s" % (a.prop, a.as_index or a.i)
    os.makedirs(out, exist_ok=True)
    shutil.copy(diff, out + "/patch.diff")
    shutil.copy(demo, out + "/demo.py")
    if os.path.exists(notes):
        shutil.copy(notes, out + "/notes.md")
    meta["what_it_needs"] = "see notes.md"
    meta["ran"] = ["demo on unchanged copy", "patch -p1", "demo on changed copy",
                   "pytest -q --timeout=900 (2 IDNA tests deselected) on changed copy" if not a.skip_tests else "tests skipped",
                   "mc.run %s --tier %s with DNSPYTHON_REPO=<changed copy>" % (a.prop, a.tier)]
    json.dump(meta, open(out + "/meta.json", "w"), indent=1)
    print(json.dumps({k: meta[k] for k in ("property", "index", "confirmed", "caught")}), "also:", {k: (v["rc"], v["signatures"][:1]) for k, v in also.items()},
          "demo:", rc0, rc1, "tests:", meta.get("changed_tests", {}).get("tail", "-"), "check:", {k: (v["rc"], v["signatures"][:2]) for k, v in res.items()})
finally:
    shutil.rmtree(d, ignore_errors=True)
