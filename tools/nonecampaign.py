#!/venv/bin/python
"""Systematic mutant campaign (development aid, not a registered check): the "None test
becomes a truth test" operator at every `if/elif/while ... is [not] None` line of the files
the properties are anchored in.

  tools/nonecampaign.py plan                      -> writes campaigns/none/sites.json
  tools/nonecampaign.py run [--lanes 4] [--only dns/zone.py]
  tools/nonecampaign.py tests [--lanes 4]         -> repository test-suite on the survivors
  tools/nonecampaign.py report

For each site a scratch copy of /repo (outside /repo and /verif, removed afterwards) gets the
one-line edit; the quick checks of the properties whose anchors name the file run against
the copy until one exits 1.  Results accumulate in campaigns/none/results.json.
"""
import argparse, json, os, re, shutil, subprocess, sys, tempfile, time
from concurrent.futures import ThreadPoolExecutor

ROOT = os.path.dirname(os.path.dirname(os.path.abspath(__file__)))
CAMPAIGN = os.environ.get("NC_CAMPAIGN", "none")     # "none": None test -> truth test; "boundary": < <-> <=, > <-> >=
OUT = os.path.join(ROOT, "campaigns", CAMPAIGN)
SITES = os.path.join(OUT, "sites.json")
RESULTS = os.environ.get("NC_RESULTS") or os.path.join(OUT, "results.json")
PRIMARY = {'dns/message.py': ['C03', 'C14', 'C16', 'C08'], 'dns/zone.py': ['C10', 'C09', 'C11', 'C15'],
           'dns/versioned.py': ['C12', 'C11', 'C10'], 'dns/query.py': ['C18', 'C13'], 'dns/resolver.py': ['C16', 'C17'],
           'dns/name.py': ['C01', 'C06', 'C15', 'C04'], 'dns/rdata.py': ['C02', 'C05', 'C07', 'C04'],
           'dns/rdataset.py': ['C07', 'C10', 'C09'], 'dns/rrset.py': ['C07', 'C03', 'C09'],
           'dns/tokenizer.py': ['C04', 'C09', 'C05', 'C01'], 'dns/transaction.py': ['C10', 'C13'],
           'dns/node.py': ['C10', 'C09', 'C11'], 'dns/rdtypes/svcbbase.py': ['C02', 'C05', 'C04'],
           'dns/edns.py': ['C02', 'C03', 'C04'], 'dns/wirebase.py': ['C02', 'C01', 'C04'],
           'dns/rdtypes/util.py': ['C02', 'C05', 'C15'], 'dns/btreezone.py': ['C20', 'C11', 'C10']}
PAT_NOT = re.compile(r"([A-Za-z_][\w\.]*(?:\[[^\]]*\])?(?:\([^()]*\))?) is not None")
PAT_IS = re.compile(r"([A-Za-z_][\w\.]*(?:\[[^\]]*\])?(?:\([^()]*\))?) is None")
DESEL = ["--deselect", "tests/test_name.py::NameTestCase::testFromUnicodeIDNA2008",
         "--deselect", "tests/test_name.py::NameTestCase::testToUnicode5"]


def anchors():
    import glob
    files = {}
    for l in open(os.path.join(ROOT, "properties.jsonl")):
        p = json.loads(l)
        for f in p["anchors"]["files"]:
            for g in (glob.glob("/repo/" + f, recursive=True) if "*" in f else ["/repo/" + f]):
                if os.path.isfile(g) and g.endswith(".py"):
                    files.setdefault(os.path.relpath(g, "/repo"), set()).add(p["id"])
    return files


def plan_boundary():
    import ast
    swap = {ast.Lt: ("<", "<="), ast.LtE: ("<=", "<"), ast.Gt: (">", ">="), ast.GtE: (">=", ">")}
    sites = []
    for f, props in sorted(anchors().items()):
        if f.startswith("dns/rdtypes/") and f.count("/") >= 3:
            continue
        text = open("/repo/" + f).read()
        src = text.splitlines()
        seen = set()
        for node in ast.walk(ast.parse(text)):
            if not (isinstance(node, ast.Compare) and len(node.ops) == 1 and type(node.ops[0]) in swap):
                continue
            l, r = node.left, node.comparators[0]
            if l.end_lineno != r.lineno:
                continue
            line = src[l.end_lineno - 1]
            seg = line[l.end_col_offset:r.col_offset]
            a, b = swap[type(node.ops[0])]
            if seg.strip() != a:
                continue
            new = line[:l.end_col_offset] + seg.replace(a, b, 1) + line[r.col_offset:]
            key = (l.end_lineno, l.end_col_offset)
            if key in seen:
                continue
            seen.add(key)
            pp = [q for q in PRIMARY.get(f, sorted(props)) if q in props] or sorted(props)
            sites.append({"id": "%s:%d:%d" % (f, l.end_lineno, l.end_col_offset), "file": f, "line": l.end_lineno,
                          "old": line, "new": new, "props": pp})
    os.makedirs(OUT, exist_ok=True)
    json.dump(sites, open(SITES, "w"), indent=1)
    print(len(sites), "sites")


def plan():
    if CAMPAIGN == "boundary":
        return plan_boundary()
    sites = []
    for f, props in sorted(anchors().items()):
        if f.startswith("dns/rdtypes/") and f.count("/") >= 3:
            continue    # the per-type modules: hundreds of files, almost no None tests
        src = open("/repo/" + f).read().splitlines()
        for i, line in enumerate(src):
            if not re.match(r"^\s*(if|elif|while)\b.*\bis (not )?None\b", line):
                continue
            m = PAT_NOT.search(line)
            new = None
            if m:
                new = line[:m.start()] + m.group(1) + line[m.end():]
            else:
                m = PAT_IS.search(line)
                if m:
                    new = line[:m.start()] + "not " + m.group(1) + line[m.end():]
            if new is None or new == line:
                continue
            sites.append({"id": "%s:%d" % (f, i + 1), "file": f, "line": i + 1, "old": line, "new": new,
                          "props": sorted(props)})
    os.makedirs(OUT, exist_ok=True)
    json.dump(sites, open(SITES, "w"), indent=1)
    print(len(sites), "sites")


def load_results():
    return json.load(open(RESULTS)) if os.path.exists(RESULTS) else {}


def save_results(res):
    tmp = RESULTS + ".tmp"
    json.dump(res, open(tmp, "w"), indent=1, sort_keys=True)
    os.replace(tmp, RESULTS)


def make_copy(site):
    d = tempfile.mkdtemp(prefix="nc-", dir="/tmp")
    repo = d + "/repo"
    subprocess.check_call(["rsync", "-a", "--exclude", ".git", "/repo/", repo + "/"])
    p = os.path.join(repo, site["file"])
    src = open(p).read().split("\n")
    assert src[site["line"] - 1] == site["old"], "tree changed since plan: " + site["id"]
    src[site["line"] - 1] = site["new"]
    open(p, "w").write("\n".join(src))
    r = subprocess.run(["/venv/bin/python", "-m", "py_compile", p], capture_output=True, text=True)
    return d, repo, r.returncode == 0


def run_site(site):
    d, repo, ok = make_copy(site)
    out = {"props": {}}
    try:
        if not ok:
            out["status"] = "does-not-compile"
            return out
        env = dict(os.environ, DNSPYTHON_REPO=repo, VERIF_OUT=d + "/out")
        for prop in site["props"]:
            t0 = time.time()
            try:
                r = subprocess.run(["/venv/bin/python", "-m", "mc.run", prop, "--tier", "quick"], cwd=ROOT, env=env,
                                   capture_output=True, text=True, timeout=3600)
                rc, sigs = r.returncode, re.findall(r"signature: (\S+)", r.stdout)[:3]
                err = r.stderr[-400:] if rc not in (0, 1) else ""
            except subprocess.TimeoutExpired:
                rc, sigs, err = 124, [], "timeout"
            out["props"][prop] = {"rc": rc, "signatures": sigs, "wall_s": round(time.time() - t0, 1)}
            if err:
                out["props"][prop]["stderr"] = err
            if rc == 1:
                break
        rcs = [v["rc"] for v in out["props"].values()]
        out["status"] = "killed-by-check" if 1 in rcs else ("harness-error" if any(x not in (0, 1) for x in rcs) else "survived-checks")
        return out
    finally:
        shutil.rmtree(d, ignore_errors=True)


def test_site(site):
    d, repo, ok = make_copy(site)
    try:
        r = subprocess.run(["/venv/bin/python", "-m", "pytest", "-q", "-x", "-p", "no:cacheprovider", "--timeout=900"] + DESEL,
                           cwd=repo, env=dict(os.environ, PYTHONPATH=repo), capture_output=True, text=True)
        tail = r.stdout.strip().splitlines()[-1] if r.stdout.strip() else ""
        failed = sorted(set(re.findall(r"^FAILED (\S+)", r.stdout, re.M)))
        return {"rc": r.returncode, "tail": tail, "failed": failed[:3]}
    finally:
        shutil.rmtree(d, ignore_errors=True)


def main():
    ap = argparse.ArgumentParser()
    ap.add_argument("cmd", choices=["plan", "run", "tests", "report"])
    ap.add_argument("--lanes", type=int, default=4)
    ap.add_argument("--only", default=None)
    ap.add_argument("--redo", action="store_true")
    a = ap.parse_args()
    if a.cmd == "plan":
        return plan()
    sites = json.load(open(SITES))
    res = load_results()
    if a.cmd == "run":
        todo = [s for s in sites if (a.redo or s["id"] not in res) and (a.only is None or s["file"] == a.only)]
        print(len(todo), "sites to run", flush=True)
        with ThreadPoolExecutor(a.lanes) as ex:
            for s, out in zip(todo, ex.map(run_site, todo)):
                out.update({"old": s["old"].strip(), "new": s["new"].strip()})
                res[s["id"]] = out
                save_results(res)
                print(s["id"], out["status"], {k: v["rc"] for k, v in out["props"].items()}, flush=True)
    elif a.cmd == "tests":
        todo = [s for s in sites if res.get(s["id"], {}).get("status") == "survived-checks" and (a.redo or "tests" not in res[s["id"]])]
        print(len(todo), "survivors to test", flush=True)
        with ThreadPoolExecutor(a.lanes) as ex:
            for s, out in zip(todo, ex.map(test_site, todo)):
                res[s["id"]]["tests"] = out
                save_results(res)
                print(s["id"], out["tail"], out["failed"], flush=True)
    else:
        import collections
        c = collections.Counter()
        for s in sites:
            r = res.get(s["id"])
            if not r:
                c["not-run"] += 1
                continue
            st = r["status"]
            if st == "survived-checks" and "tests" in r:
                st = "survived-checks/" + ("tests-pass" if r["tests"]["rc"] == 0 else "tests-fail")
            c[st] += 1
        for k, v in sorted(c.items()):
            print("%5d %s" % (v, k))
        for s in sites:
            r = res.get(s["id"], {})
            if r.get("status") == "survived-checks" and r.get("tests", {}).get("rc") == 0:
                print("SURVIVOR %-28s %s  ->  %s   %s" % (s["id"], s["old"].strip()[:70], s["new"].strip()[:60], s["props"]))


if __name__ == "__main__":
    main()
