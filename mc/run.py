"""Entry point:  python -m mc.run C19 [--tier quick|thorough] [--replay FILE]"""
import argparse
import importlib
import json
import os
import sys


def prime_process_state():
    """Build up the process-global state a long-running program would have before the
    checks start: every record type is first looked up in the *other* classes (CH, HS, an
    unknown class, and the meta classes ANY and NONE that dynamic updates put on the wire) and
    only then in IN, so that lookups memoised under the wrong class
    (dns.rdata.get_rdata_class keeps a process-wide cache) show up in every check instead of
    depending on which class a process happens to see first."""
    import dns.rdata
    import dns.rdataclass
    import dns.rdatatype
    types = [t for t in dns.rdatatype.RdataType]
    for cls in (dns.rdataclass.ANY, dns.rdataclass.NONE, dns.rdataclass.CH, dns.rdataclass.HS,
                dns.rdataclass.RdataClass.make(17)):
        for t in types:
            try:
                dns.rdata.get_rdata_class(cls, t)
            except Exception:
                pass


def main():
    ap = argparse.ArgumentParser()
    ap.add_argument("prop")
    ap.add_argument("--tier", default=os.environ.get("VERIF_TIER", "quick"),
                    choices=["quick", "thorough"])
    ap.add_argument("--replay")
    args = ap.parse_args()
    if os.environ.get("PYTHONHASHSEED") != "0":
        env = dict(os.environ, PYTHONHASHSEED="0", DNSPYTHON_VERIF="1")
        os.execve(sys.executable, [sys.executable, "-m", "mc.run"] + sys.argv[1:], env)
    from mc import core
    # always import dns from the current working tree of the repository
    sys.path.insert(0, core.REPO)
    import dns
    assert os.path.dirname(os.path.dirname(os.path.abspath(dns.__file__))) == \
        os.path.abspath(core.REPO), dns.__file__
    sys.setrecursionlimit(3000)
    prime_process_state()
    seed = int(os.environ.get("VERIF_SEED", "0") or 0)
    mod = importlib.import_module("mc.checks." + args.prop.lower())
    if args.replay:
        with open(args.replay) as f:
            data = json.load(f)
        if isinstance(data.get("case"), dict) and data["case"].get("mode") == "runaway":
            # a task that ran away cannot be replayed in isolation more cheaply than the check itself
            print("runaway task: re-running the %s tier of %s" % (args.tier, args.prop))
            os.environ["VERIF_TIER_ACTIVE"] = args.tier
            ctx = core.Context(mod.PROPERTY, mod.LEVEL, args.tier, seed)
            mod.run(ctx)
            sys.exit(1 if "__runaway__" in ctx.violations or ctx.violations else 0)
        res = mod.recheck(core.unjson(data["case"]))
        for sig, what in res:
            print("REPRODUCED %s: %s" % (sig, what))
        if not res:
            print("case does not violate the property on this tree")
        sys.exit(1 if res else 0)
    os.environ["VERIF_TIER_ACTIVE"] = args.tier
    ctx = core.Context(mod.PROPERTY, mod.LEVEL, args.tier, seed)
    mod.run(ctx)
    rc = core.finish(ctx, mod)
    print("%s %s: evaluations=%d states=%d transitions=%d distinct=%d outcomes=%d "
          "violations_rc=%d wall=%.1fs" % (
              ctx.prop, args.tier, ctx.counts.get("evaluations", 0),
              ctx.counts.get("states", 0), ctx.counts.get("transitions", 0),
              len(ctx.distinct), len(ctx.outcomes), rc,
              __import__("time").time() - ctx.t0))
    sys.exit(rc)


if __name__ == "__main__":
    main()
