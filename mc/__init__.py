"""Bounded exhaustive exploration ("model checking") of dnspython properties C01-C20."""
