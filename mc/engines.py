"""Exploration engines.

E2 bfs:   level-synchronous explicit-state search; transitions are executed on the real
          implementation by `expand(state, col)` (state = the history that rebuilds it).
E1 helpers: k-deviation enumeration over a product of small domains.
"""
from __future__ import annotations

import itertools
import multiprocessing
import traceback

from . import core


def _bfs_worker(args):
    expand, chunk = args
    col = core.Collector()
    out = {}
    ntrans = 0
    def body():
        nonlocal ntrans
        for state in chunk:
            for canon, nxt in expand(state, col):
                ntrans += 1
                if canon not in out:
                    out[canon] = nxt

    try:
        core.guarded(body, col, chunk[:1])
    except BaseException as e:
        core.record_escape(col, e, chunk[:1])
    col.count("transitions", ntrans)
    return col, out


def bfs(ctx, init, expand, max_depth=None, max_states=None, procs=None, label=""):
    """init: list of (canon, state).  expand(state, col) yields (canon, next_state) for
    every enabled transition, performing all checks on the way.  Returns seen dict."""
    seen = {}
    frontier = []
    for canon, st in init:
        if canon not in seen:
            seen[canon] = st
            frontier.append(st)
    depth = 0
    found_here = set()
    open_sigs = {e["signature"] for e in core.load_known().get("open", []) if e.get("property") == ctx.prop}
    procs = procs or core.NPROC
    mp = multiprocessing.get_context("fork")
    pool = mp.Pool(procs) if procs > 1 else None
    try:
        while frontier:
            if max_depth is not None and depth >= max_depth:
                ctx.cap("%sbfs depth cap %d reached with %d frontier states"
                        % (label, max_depth, len(frontier)))
                break
            if ctx.seed:
                r = ctx.seed % len(frontier)
                frontier = frontier[r:] + frontier[:r]
            nchunks = max(1, min(len(frontier), procs * 4))
            chunks = [frontier[i::nchunks] for i in range(nchunks)]
            jobs = [(expand, c) for c in chunks]
            if pool is not None and len(frontier) > 1:
                results = pool.imap_unordered(_bfs_worker, jobs)
            else:
                results = map(_bfs_worker, jobs)
            new = {}
            for col, out in results:
                found_here.update(k for k in col.violations if k not in open_sigs)
                ctx.merge(col)
                for canon, st in out.items():
                    if canon not in seen and canon not in new:
                        new[canon] = st
            # deterministic order of the next frontier
            frontier = []
            for canon in sorted(new, key=repr):
                seen[canon] = new[canon]
                frontier.append(new[canon])
            depth += 1
            if frontier:
                ctx.max("max_depth", depth)
            if found_here and frontier:
                # successors of a violating transition mean nothing (on broken code the real
                # objects drift away from the model and the state space explodes): the verdict
                # is settled, the level that exposed it is complete, stop here
                ctx.cap("%sbfs stopped after depth %d: %d violation signature(s) found up to this level"
                        % (label, depth, len(found_here)))
                break
            if max_states is not None and len(seen) >= max_states:
                ctx.cap("%sbfs state cap %d reached" % (label, max_states))
                break
    finally:
        if pool is not None:
            pool.terminate()
            pool.join()
    ctx.count("states", len(seen))
    return seen


def k_deviation(domains, k):
    """All points of the product of `domains` (list of lists; element 0 is the default)
    that differ from the all-default point in at most k dimensions."""
    n = len(domains)
    base = [d[0] for d in domains]
    yield tuple(base)
    for kk in range(1, k + 1):
        for dims in itertools.combinations(range(n), kk):
            alts = [domains[d][1:] for d in dims]
            for vals in itertools.product(*alts):
                p = list(base)
                for d, v in zip(dims, vals):
                    p[d] = v
                yield tuple(p)


def product_or_kdev(domains, k, limit):
    """Full product if it is below `limit`, else k-deviation."""
    size = 1
    for d in domains:
        size *= len(d)
    if size <= limit:
        return itertools.product(*domains), True
    return k_deviation(domains, k), False
