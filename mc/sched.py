"""E3: stateless exploration of thread schedules with iterative preemption bounding.

The library's `threading` name is replaced by `Shim(sched)` whose Lock/Event are
cooperative.  Every logical thread is a real threading.Thread parked on a private
semaphore; only the baton holder runs.  Scheduling points: shim operations and (via
sys.settrace) every line of selected code objects, plus explicit `sched.point()` calls in
harness bodies.  An execution is identified by its list of choices (index into the
canonically ordered enabled set at each point with >= 2 enabled threads).
"""
from __future__ import annotations

import sys
import threading as _real


class Abort(BaseException):
    """Unwinds a logical thread when the execution is torn down (deadlock/divergence)."""


class Divergence(Exception):
    """Replaying a recorded prefix met a different enabled set: harness nondeterminism."""


class _Worker:
    """Persistent OS thread reused across executions (thread creation is expensive)."""

    def __init__(self):
        import queue
        self.q = queue.SimpleQueue()
        self.thread = _real.Thread(target=self._loop, daemon=True)
        self.thread.start()

    def _loop(self):
        while True:
            sched, lt = self.q.get()
            sched._wrapper(lt)


_WORKERS = []
_WORKERS_PID = [0]


def _worker(i):
    import os
    if _WORKERS_PID[0] != os.getpid():  # threads do not survive fork()
        del _WORKERS[:]
        _WORKERS_PID[0] = os.getpid()
    while len(_WORKERS) <= i:
        _WORKERS.append(_Worker())
    return _WORKERS[i]


class LThread:
    __slots__ = ("tid", "fn", "sem", "done", "pending", "real", "error", "held", "name")

    def __init__(self, tid, fn, name):
        self.tid = tid
        self.fn = fn
        self.name = name
        self.sem = _real.Semaphore(0)
        self.done = False
        self.pending = None  # (op, obj) the thread will perform when resumed
        self.real = None
        self.error = None
        self.held = 0  # number of shim locks held

    def enabled(self):
        if self.done:
            return False
        p = self.pending
        if p is None:
            return True
        op, obj = p
        if op == "acquire":
            return obj.owner is None
        if op == "wait":
            return obj.flag
        return True


class Sched:
    def __init__(self, prefix=(), trace_codes=(), sync_points=True, on_point=None):
        self.prefix = list(prefix)
        self.trace_codes = set(trace_codes)
        self.sync_points = sync_points
        self.on_point = on_point
        self.threads = []
        self.current = None
        self.choices = []          # choice index taken at each branching point
        self.points = []           # (n_enabled, running_enabled) per branching point
        self.npoints = 0           # all scheduling points, branching or not
        self.aborted = False
        self.deadlock = False
        self.deadlock_info = []
        self.divergence = None
        self.oplog = []            # (tid, op, obj-id) for shim operations
        self.problems = []         # (signature, what) raised by monitors
        self._all_done = _real.Event()
        self._ids = {}

    # ------------------------------------------------------------ setup
    def spawn(self, fn, name=None):
        t = LThread(len(self.threads), fn, name or "T%d" % len(self.threads))
        self.threads.append(t)
        return t

    def oid(self, obj):
        return self._ids.setdefault(id(obj), len(self._ids))

    def tid(self):
        return self.current.tid if self.current is not None else -1

    def problem(self, sig, what):
        self.problems.append((sig, what))

    # ------------------------------------------------------------ running
    def run(self, timeout=30.0):
        for i, t in enumerate(self.threads):
            w = _worker(i)
            t.real = w.thread
            w.q.put((self, t))
        first = self._choose(None)
        if first is None:
            self._all_done.set()
        else:
            self.current = first
            first.sem.release()
        if not self._all_done.wait(timeout):
            self.aborted = True
            self.problems.append(("harness/timeout", "execution did not finish in %ss" % timeout))
            for t in self.threads:
                t.sem.release()
            raise RuntimeError("scheduler wedged: choices=%r" % (self.choices,))
        if self.divergence:
            raise Divergence(self.divergence)
        return self

    def _wrapper(self, t):
        t.sem.acquire()
        if self.aborted:
            t.done = True
            self._maybe_finish()
            return
        if self.trace_codes:
            sys.settrace(self._tracer)
        try:
            t.fn()
        except Abort:
            pass
        except BaseException as e:  # exception escaping a thread body is an observation
            t.error = e
        finally:
            sys.settrace(None)
            t.done = True
            t.pending = None
        if self.aborted:
            self._maybe_finish()
            return
        nxt = self._choose(t)
        if nxt is None:
            self._maybe_finish()
        else:
            self.current = nxt
            nxt.sem.release()

    def _maybe_finish(self):
        if all(t.done for t in self.threads):
            self._all_done.set()

    def _tracer(self, frame, event, arg):
        if frame.f_code in self.trace_codes:
            return self._local
        return None

    def _local(self, frame, event, arg):
        if event == "line":
            self.point("line", None)
        return self._local

    # ------------------------------------------------------------ scheduling
    def _choose(self, cur):
        """Pick the next thread to run.  `cur` is the thread making the decision (may be
        finished or about to block).  Returns None when nothing can run."""
        if self.aborted:
            return None
        en = []
        cur_enabled = cur is not None and cur.enabled()
        if cur_enabled:
            en.append(cur)
        for t in self.threads:
            if t is not cur and t.enabled():
                en.append(t)
        if not en:
            if any(not t.done for t in self.threads):
                self.deadlock = True
                self.deadlock_info = [(t.name, t.pending[0] if t.pending else "?")
                                      for t in self.threads if not t.done]
                self._abort()
            return None
        if len(en) == 1:
            return en[0]
        i = len(self.choices)
        if i < len(self.prefix):
            c = self.prefix[i]
            if c >= len(en):
                self.divergence = "prefix choice %d at point %d but only %d enabled" % (c, i, len(en))
                self._abort()
                return None
        else:
            c = 0
        self.choices.append(c)
        self.points.append((len(en), cur_enabled))
        return en[c]

    def _abort(self):
        self.aborted = True
        for t in self.threads:
            if not t.done and t is not self.current:
                t.sem.release()

    def point(self, op="user", obj=None):
        """A scheduling point of the running logical thread; `op,obj` is what it does next."""
        cur = self.current
        if cur is None or _real.current_thread() is not cur.real:
            return  # set-up / tear-down code outside the scheduled threads
        if self.aborted:
            raise Abort()
        self.npoints += 1
        cur.pending = (op, obj)
        if self.on_point is not None:
            self.on_point(self, cur)
        if (op in ("acquire", "wait")) and not cur.enabled() and cur.held:
            self.problems.append(("blocks-while-holding-lock",
                                  "thread %s blocks in %s while holding a lock" % (cur.name, op)))
        nxt = self._choose(cur)
        if nxt is None:
            # deadlock or divergence detected while this thread was deciding
            cur.pending = None
            raise Abort()
        if nxt is not cur:
            self.current = nxt
            nxt.sem.release()
            cur.sem.acquire()
            if self.aborted:
                cur.pending = None
                raise Abort()
        cur.pending = None


class Shim:
    """Stand-in for the `threading` module inside a library module."""

    def __init__(self, sched):
        self._sched = sched
        shim = self

        class Lock:
            def __init__(self):
                self.owner = None

            def acquire(self, blocking=True, timeout=-1):
                s = shim._sched
                cur = s.current
                if cur is None or _real.current_thread() is not cur.real:
                    assert self.owner is None, "set-up code would block"
                    self.owner = -1
                    return True
                if s.sync_points or self.owner is not None:
                    s.point("acquire", self)
                assert self.owner is None
                self.owner = cur.tid
                cur.held += 1
                s.oplog.append((cur.tid, "acq", s.oid(self)))
                return True

            def release(self):
                s = shim._sched
                cur = s.current
                if self.owner == -1 or s.aborted:
                    self.owner = None
                    return
                assert cur is not None and self.owner == cur.tid, "release by non-owner"
                self.owner = None
                cur.held -= 1
                s.oplog.append((cur.tid, "rel", s.oid(self)))
                if s.sync_points and not s.aborted:
                    s.point("release", self)

            def locked(self):
                return self.owner is not None

            def __enter__(self):
                self.acquire()
                return self

            def __exit__(self, *a):
                self.release()
                return False

        class Event:
            def __init__(self):
                self.flag = False

            def is_set(self):
                return self.flag

            def set(self):
                s = shim._sched
                self.flag = True
                s.oplog.append((s.tid(), "set", s.oid(self)))
                if s.sync_points and not s.aborted:
                    s.point("set", self)

            def clear(self):
                self.flag = False

            def wait(self, timeout=None):
                s = shim._sched
                if s.sync_points or not self.flag:
                    s.point("wait", self)
                assert self.flag
                s.oplog.append((s.tid(), "woke", s.oid(self)))
                return True

        self.Lock = Lock
        self.RLock = Lock
        self.Event = Event

    def __getattr__(self, name):
        return getattr(_real, name)


def explore(make, bound, prefix=(), used=0, on_exec=None, stats=None, max_exec=None):
    """Depth-first exploration of all schedules below `prefix` with at most `bound`
    preemptions.  `make(prefix)` builds a fresh harness, runs it and returns the Sched
    (after checking the oracle).  Returns number of executions."""
    stack = [(list(prefix), used)]
    n = 0
    while stack:
        pfx, _ = stack.pop()
        s = make(pfx)
        n += 1
        if stats is not None:
            stats(s)
        if max_exec is not None and n >= max_exec:
            return n, False
        # expand alternatives at points beyond the prefix
        cost = 0
        costs = []
        for i, (c, (nen, cur_en)) in enumerate(zip(s.choices, s.points)):
            costs.append(cost)
            if cur_en and c != 0:
                cost += 1
        for i in range(len(pfx), len(s.choices)):
            nen, cur_en = s.points[i]
            base = costs[i]
            for alt in range(1, nen):
                if base + (1 if cur_en else 0) > bound:
                    continue
                stack.append((s.choices[:i] + [alt], 0))
    return n, True


def children(s, pfx, bound):
    """Child prefixes of one execution (used to shard the DFS across workers)."""
    out = []
    cost = 0
    costs = []
    for c, (nen, cur_en) in zip(s.choices, s.points):
        costs.append(cost)
        if cur_en and c != 0:
            cost += 1
    for i in range(len(pfx), len(s.choices)):
        nen, cur_en = s.points[i]
        for alt in range(1, nen):
            if costs[i] + (1 if cur_en else 0) > bound:
                continue
            out.append(s.choices[:i] + [alt])
    return out
