"""C08: rendered messages respect the size limit; truncation and padding are exact.

E1 over *every* size limit: a handful of 520-1600 octet messages (names shared across every
possible truncation point, multi-record sets, big TXT, an UPDATE, a relative-name message) are
rendered by the real Message.to_wire() at every max_size from 500 to (largest complete size + 2),
for every combination of prefer_truncation x EDNS {off, plain, COOKIE} x pad {0,16,128,468} x
TSIG {none, `key.`, key under the question name, key under the owner of a droppable RRset},
plus the payload-derived default limit, plus the public dns.renderer.Renderer driven directly
with a "skip what does not fit" strategy.

Oracle: refs/wiremsg.py (independent parser + pointer audit + RFC 8945 HMAC) and arithmetic on
RFC-defined sizes.  The only facts taken from the library are the offsets at which each record
set ends in the *unlimited* rendering (itself checked against the spec by the reference
parser): rendering is prefix-deterministic, so they give the exact size of every prefix.
"""
from __future__ import annotations

import struct

import dns.exception
import dns.flags
import dns.message
import dns.name
import dns.renderer
import dns.tsig
import dns.edns

from ..refs import wiremsg as W
from . import c03

PROPERTY = "C08"
LEVEL = "exploration"

NOW = 1700000000


class _FixedTime:
    @staticmethod
    def time():
        return float(NOW)


dns.message.time = _FixedTime
dns.renderer.time = _FixedTime

SECRET = b"0123456789abcdef0123456789abcdef"
ALG = ("hmac-sha256",)
TSIG_RDATA_LEN = len(W.encode_name(tuple(x.encode() for x in ALG))) + 6 + 2 + 2 + 32 + 2 + 2 + 2
COOKIE = (10, b"\x0a\x0b\x0c\x0d\x0e\x0f\x10\x11")
PADS = [0, 16, 128, 468]


def txt(owner, sec, size):
    return ["txt", owner, sec, size]


def ns(owner, sec, target):
    return ["ns", owner, sec, target]


def mx(owner, sec, target):
    return ["mx", owner, sec, target]


def a(owner, sec):
    return ["a", owner, sec]


def P(name, owner, sec):
    return [c03.POOL_INDEX[name], owner, sec]


def _msg(items=(), big=(), q=2, origin=False, latekey="key.other.", kind="q", opcode=0):
    spec = c03.default_spec()
    spec.update(kind=kind, opcode=opcode, origin=origin)
    spec["hflags"] = 0x8400 if opcode == 0 else 0
    spec["questions"] = [] if q is None else [[q, 1, 1]]
    if opcode == 5:
        spec["questions"] = [[1, 6, 1]]
    spec["items"] = [list(x) for x in items]
    spec["big"] = [list(x) for x in big]
    spec["latekey"] = latekey
    return spec


def messages():
    ms = []
    # 0: mixed response, names shared between sections
    ms.append(_msg(
        items=[P("CNAME", 2, 1), P("A", 4, 1), P("NS2", 1, 2), P("AAAA2", 4, 3)],
        big=[txt("t.www.example.", 1, 350), txt("ns1.example.", 2, 250), a("ns1.example.", 3),
             a("NS2.WWW.example.", 3), txt("tail.example.", 3, 100)],
        latekey="k.ns1.example."))
    # 1: truncation amid name sharing, first occurrences inside RDATA, multi-record NS set
    ms.append(_msg(
        items=[P("MX3", 1, 1)],
        big=[txt("mail.example.", 1, 350), a("mail.example.", 1),
             ns("sub.example.", 2, "ns.sub.example."), ns("sub.example.", 2, "ns2.sub.example."),
             txt("sub.example.", 2, 300), a("ns.sub.example.", 3), a("ns2.sub.example.", 3),
             mx("x.sub.example.", 3, "ns.sub.example.")],
        latekey="k.sub.example."))
    # 2: one big RRset first, small ones after it
    ms.append(_msg(
        items=[P("SOA", 1, 2)],
        big=[txt("big.www.example.", 1, 900), a("www.example.", 1), a("late.example.", 3)],
        latekey="k.big.www.example."))
    # 3: everything in ADDITIONAL (TC must stay clear)
    ms.append(_msg(
        items=[P("NS2", 5, 3), P("MX3", 0, 3)],
        big=[txt("a1.example.", 3, 250), txt("a2.example.", 3, 250), txt("a3.a2.example.", 3, 250),
             a("x.a3.a2.example.", 3)],
        latekey="k.a3.a2.example."))
    # 4: many record types, multi-record sets, never-compressed names
    ms.append(_msg(
        items=[P("AAAA2", 2, 1), P("MX3", 2, 1), P("NS2", 2, 1), P("TXT2", 2, 1), P("OPAQUE2", 2, 1),
               P("RRSIG-NS", 1, 2), P("RRSIG-MX", 1, 2), P("NSEC", 1, 2),
               P("SVCB", 2, 3), P("SRV", 2, 3), P("NAPTR", 2, 3), P("LP", 2, 3)],
        big=[txt("a.www.example.", 1, 300), txt("b.example.", 2, 150)],
        latekey="k.b.example."))
    # 5: dynamic update with prerequisite / delete forms
    nsi, mxi = c03.POOL_INDEX["NS2"], c03.POOL_INDEX["MX3"]
    ms.append(_msg(
        kind="u", opcode=5,
        items=[["pre-name", 2, None], ["pre-rrset", 4, nsi], ["pre-value", 2, mxi], ["abs-rrset", 5, mxi],
               ["add", 2, nsi], ["del-rrset", 4, mxi], ["del-rr", 2, mxi], ["del-name", 4, None],
               ["add", 4, mxi], ["additional", 2, nsi]],
        big=[txt("up.example.", 2, 400), a("up.example.", 2), txt("more.up.example.", 3, 200)],
        latekey="k.up.example."))
    # 6: message 1 with relative names + origin
    m6 = _msg(items=ms[1]["items"], big=ms[1]["big"], origin=True, latekey="k.sub.example.")
    ms.append(m6)
    # 7: no question, no shared names at all
    ms.append(_msg(
        q=None,
        big=[txt("aaa.", 1, 300), ns("bbb.", 1, "ccc."), txt("ddd.", 2, 300), mx("eee.", 2, "fff."),
             a("ggg.", 3), txt("hhh.", 3, 100)],
        latekey="k.ddd."))
    # 8: a long run of small RRsets
    ms.append(_msg(
        big=[a("h%02d.example." % i, 1) for i in range(15)]
            + [ns("d%02d.example." % i, 2, "ns.d%02d.example." % i) for i in range(15)]
            + [a("ns.d%02d.example." % i, 3) for i in range(15)],
        latekey="k.d05.example."))
    # 9: ~1500 octets, big sets in every section
    ms.append(_msg(
        items=[P("MX3", 2, 1), P("NS2", 1, 2)],
        big=[txt("www.example.", 1, 400), txt("example.", 2, 400), txt("mail.example.", 3, 400),
             a("mail.example.", 3), a("ns1.example.", 3)],
        latekey="k.mail.example."))
    # 10: owner names differing in ASCII case only
    ms.append(_msg(
        items=[P("CNAME", 3, 1), P("A", 2, 1), P("MX3", 3, 2), P("NS2", 2, 2), P("AAAA2", 3, 3)],
        big=[txt("X.WWW.example.", 1, 400), txt("x.www.EXAMPLE.", 2, 250), a("X.www.example.", 3)],
        latekey="K.x.WWW.example."))
    # 11: a delegation whose names first occur in RDATA right at the truncation point
    ms.append(_msg(
        big=[txt("www.example.", 1, 500), ns("example.", 2, "ns.deleg.example."),
             txt("deleg.example.", 2, 250), a("ns.deleg.example.", 3),
             mx("deleg.example.", 3, "ns.deleg.example.")],
        latekey="k.deleg.example."))
    return ms


MESSAGES = messages()
QUICK_MSGS = [1, 2, 3, 5, 8, 11]


def tsig_keys(spec):
    return [None, "key.", "key.example.", spec["latekey"]]


def configs():
    out = []
    for pt in (False, True):
        for tsig in range(4):
            out.append({"pt": pt, "edns": "none", "pad": 0, "tsig": tsig})
            for edns in ("plain", "cookie"):
                for pad in PADS:
                    out.append({"pt": pt, "edns": edns, "pad": pad, "tsig": tsig})
    return out


CONFIGS = configs()


# ------------------------------------------------------------------ expectation from the spec
def groups_of(spec):
    """Ordered list of record sets as (section, [rr tuple, ...]) in rendering order; an RR tuple is
    (owner key, type, class, ttl, canonical rdata)."""
    ex = c03.expected(spec)
    # c03.expected() lists RRs per section in creation order; regroup into RRsets.  In UPDATE
    # messages built through the update API every RR is its own RRset, except the records placed
    # with find_rrset(create=True) ("additional" form and the sized filler records).
    out = []
    nitems = {1: 0, 2: 0, 3: 0}
    if spec["kind"] == "u":
        for form, o, entry in spec["items"]:
            if form in c03.UPDATE_FORMS_N:
                nitems[2 if form == "del-name" else 1] += 1
            elif form in ("add", "del-rr", "pre-value"):
                sec = 1 if form == "pre-value" else 2
                nitems[sec] += len(c03.POOL[entry][4])
            elif form in ("del-rrset",):
                nitems[2] += 1
            elif form in ("pre-rrset", "abs-rrset"):
                nitems[1] += 1
    for sec in (1, 2, 3):
        rrs = ex.sections[sec]
        index = {}
        order = []
        for i, rr in enumerate(rrs):
            if spec["kind"] == "u" and i < nitems[sec]:
                order.append([rr])
                continue
            covers = struct.unpack("!H", rr[4][:2])[0] if rr[1] in (W.RRSIG, W.SIG) and rr[4] else 0
            key = (rr[0], rr[1], rr[2], covers)
            g = index.get(key)
            if g is None:
                g = index[key] = []
                order.append(g)
            g.append(rr)
        out += [(sec, g) for g in order]
    return out, ex


def opt_size(cfg):
    """RFC 6891 s6.1.2: root name 1 + type 2 + class 2 + ttl 4 + rdlen 2 + options; the PADDING
    option header (4) is part of the unpadded size."""
    if cfg["edns"] == "none":
        return 0
    n = 11
    if cfg["edns"] == "cookie":
        n += 4 + len(COOKIE[1])
    if cfg["pad"]:
        n += 4
    return n


def tsig_size_uncompressed(keytext):
    if keytext is None:
        return 0
    return len(W.encode_name(W.name_from_text(keytext))) + 10 + TSIG_RDATA_LEN


def effective_limit(L, request_payload):
    if L == 0:
        L = request_payload if request_payload else 65535
    return max(512, min(65535, L))


def roundup(n, pad):
    return n if not pad else ((n + pad - 1) // pad) * pad


# ------------------------------------------------------------------ building
def configure(spec, cfg, request_payload=None):
    m = c03.build(spec)
    if cfg["edns"] != "none":
        opts = []
        if cfg["edns"] == "cookie":
            opts.append(dns.edns.option_from_wire(COOKIE[0], COOKIE[1], 0, len(COOKIE[1])))
        m.use_edns(0, 0, 1232, request_payload=request_payload, options=opts, pad=cfg["pad"])
    elif request_payload is not None:
        m.request_payload = request_payload
    key = None
    keytext = tsig_keys(spec)[cfg["tsig"]]
    if keytext is not None:
        key = dns.tsig.Key(c03.mkname(W.name_from_text(keytext), False), SECRET, "hmac-sha256.")
        m.use_tsig(key)
    return m, key, keytext


_BASE = {}


def base_facts(mi):
    """Offsets at which each record set ends in the unlimited, unadorned rendering."""
    f = _BASE.get(mi)
    if f is not None:
        return f
    spec = MESSAGES[mi]
    groups, ex = groups_of(spec)
    m = c03.build(spec)
    origin = c03._ORIGIN_NAME if spec["origin"] and spec["opcode"] != 5 else None
    wire = m.to_wire(origin=origin, want_shuffle=False)
    pm = W.parse(wire)
    rrs = pm.rrs()
    probs = match_prefix(groups, rrs)
    if probs[0] != len(groups) or probs[1]:
        raise AssertionError("harness: unlimited rendering of message %d does not match its spec: %r" % (mi, probs))
    pos = 0
    # ends[0]: end of header + question section (the first RR starts there)
    ends = [rrs[0].offset if rrs else len(wire)]
    for sec, g in groups:
        pos += len(g)
        ends.append(rrs[pos - 1].end)
    f = {"groups": groups, "ex": ex, "ends": ends, "full": len(wire), "flags": pm.flags}
    _BASE[mi] = f
    return f


def match_prefix(groups, rrs):
    """Largest k such that rrs == first k groups (each group compared as a multiset, sections
    must agree).  Returns (k, problem or None)."""
    pos = 0
    k = 0
    for sec, g in groups:
        if pos == len(rrs):
            break
        chunk = rrs[pos:pos + len(g)]
        got = sorted((W.name_key(r.owner), r.rtype, r.rclass, r.ttl, r.canon_rdata()) for r in chunk)
        if len(chunk) < len(g):
            return k, ("partial-rrset", "record set %d (section %d) has %d of %d records" % (k, sec, len(chunk), len(g)))
        if got != sorted(g):
            return k, ("set-differs", "record set %d (section %d) differs from the original" % (k, sec))
        if any(r.section != sec for r in chunk):
            return k, ("wrong-section", "record set %d is in section %r, expected %d" % (k, [r.section for r in chunk], sec))
        pos += len(g)
        k += 1
    if pos != len(rrs):
        return k, ("extra-records", "%d unexpected records after the prefix" % (len(rrs) - pos))
    return k, None


# ------------------------------------------------------------------ the oracle
def judge_wire(spec, base, cfg, keytext, Leff, wire, probs, info):
    """Checks on a returned message."""
    if len(wire) > Leff:
        probs.append(("size/exceeds-limit", "len %d > effective limit %d" % (len(wire), Leff)))
    try:
        pm = W.parse(wire)
    except W.WireError as e:
        probs.append(("refparse/" + e.kind, str(e)))
        return
    info["ptrs"] = len(pm.pointers)
    if pm.id != spec["id"]:
        probs.append(("header/id", "id %d" % pm.id))
    rrs = pm.rrs()
    tsig_rr = None
    opt_rr = None
    if keytext is not None:
        if not rrs or rrs[-1].rtype != W.TSIG or rrs[-1].section != 3:
            probs.append(("tsig/missing", "TSIG configured but the last record is not a TSIG in ADDITIONAL"))
        else:
            tsig_rr = rrs.pop()
    if cfg["edns"] != "none":
        if not rrs or rrs[-1].rtype != W.OPT or rrs[-1].section != 3:
            probs.append(("opt/missing", "EDNS configured but no OPT after the records"))
        else:
            opt_rr = rrs.pop()
    if any(r.rtype in (W.OPT, W.TSIG) for r in rrs):
        probs.append(("opt-tsig/unexpected", "OPT or TSIG among the ordinary records"))
        return
    groups = base["groups"]
    k, prob = match_prefix(groups, rrs)
    info["k"] = k
    if prob:
        probs.append(("prefix/" + prob[0], prob[1]))
        return
    # question
    gotq = [(W.name_key(n), t, c) for n, t, c, _ in pm.questions]
    if gotq != base["ex"].questions:
        probs.append(("prefix/question", "question %r" % (gotq,)))
    omitted = groups[k:]
    want_tc = any(sec < 3 for sec, _ in omitted)
    want_flags = base["flags"] | (0x0200 if want_tc else 0)
    if pm.flags != want_flags:
        if (pm.flags ^ want_flags) == 0x0200:
            cls = "tc-set-but-only-additional-omitted" if not want_tc and omitted else \
                "tc-set-on-complete-message" if not want_tc else "tc-missing"
            probs.append(("tc/" + cls, "flags 0x%04x, omitted sections %r" % (pm.flags, sorted({s for s, _ in omitted}))))
        else:
            probs.append(("header/flags", "flags 0x%04x expected 0x%04x" % (pm.flags, want_flags)))
    if not cfg["pt"] and omitted:
        probs.append(("no-truncation-requested/returned-truncated",
                      "prefer_truncation=False returned %d of %d record sets" % (k, len(groups))))
    # nothing that fits under the documented (conservative) reservation may be dropped
    reserve = opt_size(cfg) + tsig_size_uncompressed(keytext)
    kcons = max(i for i, e in enumerate(base["ends"]) if e + reserve <= Leff or i == 0)
    if k < kcons:
        probs.append(("truncation/dropped-a-set-that-fits",
                      "limit %d: %d record sets kept, but %d sets end at %d and %d + OPT/TSIG reserve %d <= limit" % (
                          Leff, k, kcons, base["ends"][kcons], base["ends"][kcons], reserve)))
    # OPT
    if opt_rr is not None:
        payload, ext, ver, fl, opts = W.opt_info(opt_rr)
        want_opts = [COOKIE] if cfg["edns"] == "cookie" else []
        padopt = None
        if cfg["pad"]:
            if not opts or opts[-1][0] != 12:
                probs.append(("padding/no-padding-option", "pad=%d but the OPT has no trailing PADDING option" % cfg["pad"]))
            else:
                padopt = opts[-1]
                opts = opts[:-1]
                if padopt[1].strip(b"\x00"):
                    probs.append(("padding/nonzero-octets", "PADDING option is not all zero"))
        if opt_rr.owner != () or (payload, ext, ver, fl) != (1232, 0, 0, 0) or opts != want_opts:
            probs.append(("opt/fields", "OPT owner %r payload %d ext %d ver %d flags %d options %r" % (
                opt_rr.owner, payload, ext, ver, fl, opts)))
    # TSIG
    if tsig_rr is not None:
        try:
            t = W.tsig_info(tsig_rr)
            if W.name_key(t.keyname) != W.name_key(W.name_from_text(keytext)):
                probs.append(("tsig/keyname", "TSIG owner %s" % W.name_to_text(t.keyname)))
            elif (t.time_signed, t.original_id, t.error, t.other) != (NOW, spec["id"], 0, b""):
                probs.append(("tsig/fields", "time %d id %d error %d" % (t.time_signed, t.original_id, t.error)))
            elif not W.tsig_verify(wire, pm, SECRET):
                probs.append(("tsig/bad-mac", "RFC 8945 HMAC over the returned bytes does not match the MAC"))
        except W.WireError as e:
            probs.append(("tsig/" + e.kind, str(e)))
    # padding
    if cfg["pad"] and len(wire) % cfg["pad"]:
        pad = cfg["pad"]
        cls = "other"
        if tsig_rr is not None and tsig_rr.owner_ptr:
            unc = len(W.encode_name(tsig_rr.owner))
            actual = (tsig_rr.rdata_off - 10) - tsig_rr.offset
            if (len(wire) + (unc - actual)) % pad == 0:
                cls = "tsig-keyname-compressed"
        probs.append(("padding/len-not-multiple/" + cls,
                      "pad=%d len=%d (len %% pad = %d), TSIG %s" % (
                          pad, len(wire), len(wire) % pad,
                          "absent" if tsig_rr is None else "owner compressed" if tsig_rr.owner_ptr else "owner literal")))
    info["tsig_compressed"] = bool(tsig_rr is not None and tsig_rr.owner_ptr)


def judge(case):
    mode = case["mode"]
    if mode == "renderer":
        return judge_renderer(case)
    mi, cfg, L = case["msg"], case["cfg"], case["L"]
    rp = case.get("request_payload")
    spec = MESSAGES[mi]
    base = base_facts(mi)
    m, key, keytext = case.get("_built") or configure(spec, cfg, rp)
    probs = []
    info = {}
    if rp is None:
        rp_eff = 1232 if cfg["edns"] != "none" else 0
    else:
        rp_eff = rp
    Leff = effective_limit(L, rp_eff)
    origin = c03._ORIGIN_NAME if spec["origin"] and spec["opcode"] != 5 else None
    reserve = opt_size(cfg) + tsig_size_uncompressed(keytext)
    complete = roundup(base["ends"][-1] + reserve, cfg["pad"])
    minimal = roundup(base["ends"][0] + reserve, cfg["pad"])
    try:
        wire = m.to_wire(origin=origin, max_size=L, prefer_truncation=cfg["pt"], want_shuffle=False)
    except dns.exception.TooBig:
        info["outcome"] = "toobig"
        if complete <= Leff:
            probs.append(("toobig/complete-message-fits",
                          "TooBig although the complete message needs at most %d <= limit %d" % (complete, Leff)))
        elif cfg["pt"] and not cfg["pad"]:
            probs.append(("toobig/truncation-preferred-no-padding",
                          "TooBig with prefer_truncation=True and no padding (limit %d, header+question+OPT+TSIG = %d)" % (
                              Leff, minimal)))
        elif cfg["pt"]:
            info["outcome"] = "toobig-pt-padding"
        return probs, info
    except Exception as e:
        probs.append(("render/crash/" + c03.crash_sig(e), "%s: %s" % (type(e).__name__, e)))
        return probs, info
    info["outcome"] = "returned"
    info["len"] = len(wire)
    judge_wire(spec, base, cfg, keytext, Leff, wire, probs, info)
    if not probs or all(s.startswith("padding/len-not-multiple") for s, _ in probs):
        # the library must be able to parse (and authenticate) what it rendered
        try:
            m2 = dns.message.from_wire(wire, keyring=key)
            if keytext is not None and not m2.had_tsig:
                probs.append(("libparse/tsig-lost", "from_wire did not see the TSIG"))
        except Exception as e:
            probs.append(("libparse/" + c03.crash_sig(e), "%s: %s" % (type(e).__name__, e)))
    return probs, info


def judge_renderer(case):
    """dns.renderer.Renderer driven directly: add every record set in order, skipping those
    that raise TooBig; optionally sign."""
    mi, L, tsig = case["msg"], case["L"], case["tsig"]
    spec = MESSAGES[mi]
    base = base_facts(mi)
    probs = []
    info = {}
    m = c03.build(spec)
    origin = c03._ORIGIN_NAME if spec["origin"] else None
    if spec["opcode"] == 5:
        origin = m.origin
    keytext = tsig_keys(spec)[tsig]
    tsz = tsig_size_uncompressed(keytext)
    try:
        r = dns.renderer.Renderer(spec["id"], int(m.flags), L, origin)
        if tsz:
            r.reserve(tsz)
        for q in m.sections[0]:
            r.add_question(q.name, q.rdtype, q.rdclass)
        kept = []
        i = 0
        for s in (1, 2, 3):
            for rrset in m.sections[s]:
                try:
                    r.add_rrset(s, rrset, want_shuffle=False)
                    kept.append(i)
                except dns.exception.TooBig:
                    pass
                i += 1
        r.release_reserved()
        r.write_header()
        if keytext is not None:
            kn = c03.mkname(W.name_from_text(keytext), False)
            r.add_tsig(kn, SECRET, 300, spec["id"], 0, b"", b"", dns.name.from_text("hmac-sha256."))
        wire = r.get_wire()
    except Exception as e:
        probs.append(("renderer/crash/" + c03.crash_sig(e), "%s: %s" % (type(e).__name__, e)))
        return probs, info
    info["outcome"] = "renderer-kept-%s" % ("all" if len(kept) == i else "some" if kept else "none")
    info["len"] = len(wire)
    if len(wire) > L:
        probs.append(("renderer/size/exceeds-limit", "len %d > %d" % (len(wire), L)))
    try:
        pm = W.parse(wire)
    except W.WireError as e:
        probs.append(("renderer/refparse/" + e.kind, str(e)))
        return probs, info
    rrs = pm.rrs()
    if keytext is not None:
        if not rrs or rrs[-1].rtype != W.TSIG:
            probs.append(("renderer/tsig/missing", "no TSIG"))
        else:
            try:
                if not W.tsig_verify(wire, pm, SECRET):
                    probs.append(("renderer/tsig/bad-mac", "HMAC mismatch"))
            except W.WireError as e:
                probs.append(("renderer/tsig/" + e.kind, str(e)))
            rrs.pop()
    groups = [base["groups"][j] for j in kept]
    k, prob = match_prefix(groups, rrs)
    if prob or k != len(groups):
        probs.append(("renderer/kept-sets-differ", prob[1] if prob else "only %d of %d kept sets present" % (k, len(groups))))
    # a set is skipped only if it really does not fit: check the first skipped one
    ends = base["ends"]
    if len(kept) < i:
        first = next(j for j in range(i) if j not in kept)
        if all(j in kept for j in range(first)) and ends[first + 1] + tsz <= L:
            probs.append(("renderer/skipped-a-set-that-fits",
                          "set %d ends at %d (+%d reserved) <= limit %d but raised TooBig" % (first, ends[first + 1], tsz, L)))
    return probs, info


def recheck(case):
    if case.get("mode") == "padalg":
        return [("C08/" + s, w) for s, w in judge_padalg(case)]
    if case.get("mode") == "giant":
        return [("C08/" + s, w) for s, w in judge_giant(case)]
    case = dict(case)
    case.pop("_built", None)
    probs, _ = judge(case)
    return [("C08/" + s, w) for s, w in probs]


# ------------------------------------------------------------------ enumeration
def record(col, case, probs, info, family):
    col.count("evaluations")
    col.count("evaluations_" + family)
    oc = info.get("outcome", "crash")
    if probs:
        col.outcome("%s:%s" % (family, probs[0][0]))
        for s, w in probs:
            col.violation("C08/" + s, w, case)
    else:
        col.outcome("%s:%s" % (family, oc))
    if oc == "toobig-pt-padding":
        col.count("toobig_with_truncation_preferred_due_to_padding")
    if info.get("tsig_compressed"):
        col.count("tsig_owner_compressed")


def work_msg(task, col):
    mi, ci, lo, hi = task
    spec = MESSAGES[mi]
    cfg = CONFIGS[ci]
    base = base_facts(mi)
    built = configure(spec, cfg)
    nsets = len(base["groups"])
    for L in range(lo, hi):
        case = {"mode": "msg", "msg": mi, "cfg": cfg, "L": L}
        c = dict(case)
        c["_built"] = built
        probs, info = judge(c)
        record(col, case, probs, info, "msg")
        k = info.get("k")
        if k is not None and 0 < k < nsets or info.get("outcome", "").startswith("toobig"):
            col.nontrivial(("msg", mi, ci, L))
        if k is not None and 0 < k < nsets and L % 97 == 0:
            col.sample({"msg": mi, "cfg": cfg, "L": L, "kept_sets": k, "of": nsets, "len": info.get("len")}, limit=1)


def work_default_limit(task, col):
    mi, = task
    for ci, cfg in enumerate(CONFIGS):
        for rp in (0, 300, 512, 513, 700, 1232, 4096, 65535, 70000):
            case = {"mode": "msg", "msg": mi, "cfg": cfg, "L": 0, "request_payload": rp}
            probs, info = judge(case)
            record(col, case, probs, info, "default-limit")
            col.nontrivial(("dl", mi, ci, rp))
        for L in (1, 511, 65535, 65536, 100000):
            case = {"mode": "msg", "msg": mi, "cfg": cfg, "L": L}
            probs, info = judge(case)
            record(col, case, probs, info, "clamp")


def judge_giant(case):
    """Messages beyond 16 KiB (names around offset 0x3FFF, where compression stops being
    allowed): at a generous limit, at limits that cut inside the tail and with truncation
    preferred, rendering must still either raise TooBig or return a parseable message."""
    spec = c03.large_spec(case["target"], case["late"], case["where"], False)
    m = c03.build(spec)
    probs = []
    try:
        full = m.to_wire(max_size=65535)
    except dns.exception.TooBig:
        full = None
    except Exception as e:
        return [("giant/render-crash/" + c03.crash_sig(e), "to_wire(max_size=65535): %s: %s" % (type(e).__name__, e))]
    limits = [65535]
    if full is not None:
        limits += [len(full) - 1, len(full) - 20, case["target"] + 3, case["target"] - 3]
    for L in limits:
        for pt in (False, True):
            try:
                w = m.to_wire(max_size=L, prefer_truncation=pt)
            except dns.exception.TooBig:
                if full is not None and len(full) <= L:
                    probs.append(("giant/toobig-but-fits", "limit %d, message has %d octets" % (L, len(full))))
                continue
            except Exception as e:
                probs.append(("giant/render-crash/" + c03.crash_sig(e), "to_wire(max_size=%d, prefer_truncation=%s): %s: %s" % (
                    L, pt, type(e).__name__, e)))
                continue
            if len(w) > L:
                probs.append(("giant/size/exceeds-limit", "len %d > %d" % (len(w), L)))
            try:
                W.parse(w)
            except W.WireError as e:
                probs.append(("giant/refparse/" + e.kind, "limit %d prefer_truncation=%s: %s" % (L, pt, e)))
    return probs


ALL_TSIG_ALGORITHMS = ["hmac-md5.sig-alg.reg.int.", "hmac-sha1.", "hmac-sha224.", "hmac-sha256.", "hmac-sha256-128.",
                       "hmac-sha384.", "hmac-sha384-192.", "hmac-sha512.", "hmac-sha512-256."]


def judge_padalg(case):
    """Padding with a TSIG of every HMAC algorithm (the MAC sizes differ, the truncated
    variants most of all): the first and every later rendering is a multiple of the block."""
    spec = MESSAGES[case["msg"]]
    probs = []
    m = c03.build(spec)
    # prepad: the OPT already carries a PADDING option (what a forwarder holds after parsing a
    # padded message) of that many octets
    opts = [] if case.get("prepad") is None else [dns.edns.GenericOption(dns.edns.OptionType.PADDING, b"\x00" * case["prepad"])]
    m.use_edns(0, 0, 1232, pad=case["pad"], options=opts)
    key = dns.tsig.Key(c03.mkname(W.name_from_text(case["key"]), False), SECRET, case["alg"])
    m.use_tsig(key)
    origin = c03._ORIGIN_NAME if spec["origin"] else None
    for nth in (1, 2):
        try:
            wire = m.to_wire(origin=origin, max_size=65535, want_shuffle=False)
        except Exception as e:
            probs.append(("padalg/render-crash/" + c03.crash_sig(e), "rendering %d: %s: %s" % (nth, type(e).__name__, e)))
            break
        if len(wire) % case["pad"]:
            probs.append(("padalg/len-not-multiple/%s-rendering" % ("first" if nth == 1 else "later"),
                          "rendering %d with %s: length %d is not a multiple of %d" % (nth, case["alg"], len(wire), case["pad"])))
        try:
            pm = W.parse(wire)
            rrs = pm.rrs()
            if not rrs or rrs[-1].rtype != W.TSIG:
                probs.append(("padalg/tsig-missing", "no TSIG at the end"))
        except W.WireError as e:
            probs.append(("padalg/refparse/" + e.kind, str(e)))
    if case.get("prepad") is not None:
        probs = [(s_ + "/opt-already-padded", w_) for s_, w_ in probs]
    return probs


def work_padalg(task, col):
    mi = task
    for alg in ALL_TSIG_ALGORITHMS:
        for pad in (16, 128, 468):
            for key in ("key.", "key.example."):
                for prepad in (None, 0, 5):
                    case = {"mode": "padalg", "msg": mi, "alg": alg, "pad": pad, "key": key, "prepad": prepad}
                    probs = judge_padalg(case)
                    col.count("evaluations")
                    col.count("padalg_cases")
                    col.nontrivial(("padalg", mi, alg, pad, key, prepad))
                    col.outcome("padalg:" + (probs[0][0] if probs else "ok"))
                    for s_, w_ in probs:
                        col.violation("C08/" + s_,
                                      w_ + " [message %d, key %s, pad %d, existing PADDING option %s]" % (mi, key, pad, prepad), case)


def work_giant(task, col):
    lo, hi = task
    for target in range(lo, hi):
        for late in c03.LATE_NAMES[:2]:
            for where in ("owner", "ns"):
                case = {"mode": "giant", "target": target, "late": late, "where": where}
                probs = judge_giant(case)
                col.count("evaluations")
                col.count("giant_messages")
                col.nontrivial(("giant", target, late, where))
                col.outcome("giant:" + (probs[0][0] if probs else "ok"))
                for s_, w_ in probs:
                    col.violation("C08/" + s_, w_ + " [first occurrence of %s as %s at offset 0x%X]" % (late, where, target), case)


def work_renderer(task, col):
    mi, lo, hi = task
    nsets = len(base_facts(mi)["groups"])
    for L in range(lo, hi):
        for tsig in (0, 1, 2, 3):
            case = {"mode": "renderer", "msg": mi, "L": L, "tsig": tsig}
            probs, info = judge_renderer(case)
            record(col, case, probs, info, "renderer")
            if info.get("outcome") == "renderer-kept-some":
                col.nontrivial(("r", mi, L, tsig))


def upper_limit(mi, cfg):
    """One past the last limit worth trying: the padded complete size + 2."""
    base = base_facts(mi)
    keytext = tsig_keys(MESSAGES[mi])[cfg["tsig"]]
    return roundup(base["ends"][-1] + opt_size(cfg) + tsig_size_uncompressed(keytext), cfg["pad"]) + 3


def run(ctx):
    ctx.rule = (
        "every (message, prefer_truncation, EDNS, pad, TSIG key) configuration is rendered by "
        "Message.to_wire at EVERY max_size from 500 up to beyond the largest padded complete size; plus "
        "max_size=0 with 9 request_payload values and 5 clamp values; plus dns.renderer.Renderer driven "
        "directly (skip-what-does-not-fit, 4 TSIG variants) at every limit.  A case is distinct "
        "non-trivial when the outcome is a proper truncation (0 < kept record sets < all), a TooBig, or a "
        "partially kept Renderer message (key = message, configuration, limit).")
    ctx.assume("TooBig with prefer_truncation=True is accepted when padding is requested (property: 'either "
               "raises ... or returns'); such cases are counted, not flagged")
    ctx.assume("a record set may be dropped only if it does not fit under the documented reservation "
               "(OPT without padding octets + TSIG with uncompressed owner); prefix sizes are taken from "
               "the unlimited rendering, which the reference parser checks against the spec")
    ctx.assume("TSIG: hmac-sha256, fixed clock (dns.message.time / dns.renderer.time rebound)")
    msgs = QUICK_MSGS if ctx.quick else list(range(len(MESSAGES)))
    sizes = {}
    tasks = []
    for mi in msgs:
        base = base_facts(mi)
        if not 520 <= base["full"] <= 1700:
            raise AssertionError("message %d has %d octets" % (mi, base["full"]))
        sizes[mi] = {"octets": base["full"], "record_sets": len(base["groups"]),
                     "limits": [500, max(upper_limit(mi, c) for c in CONFIGS) - 1]}
        step = 200
        for ci in range(len(CONFIGS)):
            hi = upper_limit(mi, CONFIGS[ci])
            for lo in range(500, hi, step):
                tasks.append((work_msg, (mi, ci, lo, min(hi, lo + step))))
        tasks.append((work_default_limit, (mi,)))
        for lo in range(500, base["full"] + 80, 100):
            tasks.append((work_renderer, (mi, lo, min(base["full"] + 80, lo + 100))))
    ctx.extra.update({
        "messages": sizes, "configurations": len(CONFIGS), "pads": PADS,
        "tsig_keys": {mi: tsig_keys(MESSAGES[mi])[1:] for mi in msgs},
        "edns": ["none", "plain", "cookie"], "tasks": len(tasks),
    })
    tasks += [(work_padalg, mi) for mi in range(0, len(MESSAGES), ctx.pick(4, 1))]
    ctx.extra["padding_tsig_algorithms"] = ALL_TSIG_ALGORITHMS
    glo, ghi = ctx.pick((0x3FFA, 0x4004), (0x3FE8, 0x4018))
    tasks += [(work_giant, (t, t + 1)) for t in range(glo, ghi)]
    ctx.extra["giant_message_offsets"] = [hex(glo), hex(ghi - 1)]
    ctx.pmap(c03._dispatch, tasks)
