"""C05: every record type's master-file text parses back to an equal record.

Exhaustive small-scope enumeration (E1) over the field schema in refs/rdschema.py
restricted to values the presentation format can express (Spec.text_issues).  The real
Rdata.to_text / dns.rdata.from_text / to_generic / zone-line reader run on every case.
Oracle: the parsed-back record encodes to the same wire octets as the original (and is
== when both have the same relativity); to_text never fails for a record accepted from
wire or text; a record accepted from text encodes with to_wire.
"""
from __future__ import annotations

import re
import traceback

import dns.exception
import dns.name
import dns.rdata
import dns.rdatatype
import dns.rdataclass
import dns.zone

from ..refs import rdschema as R
from . import c02

PROPERTY = "C05"
LEVEL = "exploration"

# lossless RdataStyle variants (index 0 = plain origin/relativize keywords)
STYLES = [None,
          {"base64_chunk_size": 0, "hex_chunk_size": 0},
          {"base64_chunk_size": 1, "hex_chunk_size": 1},
          {"base64_chunk_size": 4, "hex_chunk_size": 4},
          {"txt_is_utf8": True},
          {"base64_chunk_size": 32, "hex_chunk_size": 128}]
ALPHA20 = (0x00, 0x09, 0x0A, 0x20, 0x22, 0x24, 0x28, 0x29, 0x2E, 0x3B, 0x40, 0x5C, 0x30, 0x39, 0x41, 0x61, 0x7E, 0x7F, 0x80, 0xFF)
META = {"OPT", "TSIG", "TKEY"}
EXAMPLE = dns.name.Name(R.ORIGIN)
SUB_EXAMPLE = dns.name.Name((b"sub",) + tuple(R.ORIGIN))


def crash_sig(e):
    tb = traceback.extract_tb(e.__traceback__)
    return "%s@%s" % (type(e).__name__, tb[-1].name if tb else "?")


def _lo(flag):
    return EXAMPLE if flag else None


def _to_text(r, o, rel, style):
    if STYLES[style] is None:
        return r.to_text(origin=_lo(o), relativize=bool(rel))
    return r.to_text(style=dns.rdata.RdataStyle(origin=_lo(o), relativize=bool(rel), **STYLES[style]))


def _high(v):
    if isinstance(v, bytes):
        return any(c >= 0x80 for c in v)
    if isinstance(v, tuple):
        return any(_high(x) for x in v)
    return False


def _utf8ified(v):
    if isinstance(v, bytes):
        return v.decode("latin-1").encode("utf-8")
    if isinstance(v, tuple):
        return tuple(_utf8ified(x) for x in v)
    return v


def _diagnose(spec, values, r2, origin):
    """Which field differs, and is it the 'high octet re-encoded as UTF-8' pattern."""
    out = []
    for attr, kind, v in spec.attr_checks(values):
        try:
            got = getattr(r2, attr)
            if kind.same(got, v, origin):
                continue
        except Exception:
            got = None
        cls = "differs"
        if _high(v) and got is not None and kind.same(got, _utf8ified(v), origin):
            cls = "high-octet-became-utf8"
        out.append((attr, cls, got, v))
    return out or [("?", "differs", None, None)]


def _culprit(spec, values, fails):
    """Name the field (dimension) whose value makes the case fail: resetting it to its
    default makes the failure disappear.  Keeps signatures narrow."""
    if values is None:
        return "unjudged-value"
    dflt = R.default_values(spec)
    if fails(dflt):
        return "default-value"
    for idxs, _ in spec.dims("quick"):
        v = list(values)
        for i in idxs:
            v[i] = dflt[i]
        if tuple(v) != tuple(values) and not spec.issues(tuple(v)) and not fails(tuple(v)):
            i = idxs[-1]
            empty = hasattr(values[i], "__len__") and len(values[i]) == 0
            return spec.fields[i].name + ("=empty" if empty else "")
    return "combination"


def judge_roundtrip(spec, rdclass, wire, rorigin, o, rel, style, probs, path="", diag=True):
    """wire -> record (names relativised to example. when rorigin) -> text -> record."""
    T = spec.name
    ref = R.ref_decode(spec, wire, 0, len(wire))
    values = ref[1] if ref[0] == "ok" else None
    r = dns.rdata.from_wire(rdclass, spec.rdtype, wire, 0, len(wire), _lo(rorigin))   # FormError: see run_case
    oo = EXAMPLE
    try:
        text = _to_text(r, o, rel, style)
    except Exception as e:
        probs.append(("%s/to_text/crash/%s" % (T, crash_sig(e)), "to_text of the record decoded from %s raised %s: %s" % (
            wire.hex(), type(e).__name__, e)))
        return "to_text-crash"
    try:
        r2 = dns.rdata.from_text(rdclass, spec.rdtype, text, origin=_lo(o), relativize=bool(rel))
    except dns.exception.SyntaxError as e:
        which = ""
        if diag:
            which = "/" + _culprit(spec, values, lambda v: judge_roundtrip(
                spec, rdclass, R.ref_encode(spec, v), rorigin, o, rel, style, [], path, False) == "own-text-rejected")
        probs.append(("%s/roundtrip%s/own-text-rejected%s" % (T, path, which),
                      "to_text gives %r (wire %s); from_text raises %s" % (text, wire.hex(), e)))
        return "own-text-rejected"
    except Exception as e:
        probs.append(("%s/from_text/crash/%s" % (T, crash_sig(e)), "from_text(%r) raised %s: %s" % (text, type(e).__name__, e)))
        return "from_text-crash"
    try:
        w1 = r.to_wire(origin=oo)
        w2 = r2.to_wire(origin=oo)
    except Exception as e:
        probs.append(("%s/roundtrip%s/to_wire-crash/%s" % (T, path, crash_sig(e)), "text %r parsed, but to_wire raised %s: %s" % (text, type(e).__name__, e)))
        return "to_wire-crash"
    if w1 != w2:
        for attr, cls, got, v in (_diagnose(spec, values, r2, R.ORIGIN) if values is not None else [("?", "differs", None, None)]):
            probs.append(("%s/roundtrip%s/%s/%s" % (T, path, attr, cls),
                          "wire %s -> text %r -> wire %s (field %s: %r became %r)" % (w1.hex(), text, w2.hex(), attr, v, got)))
        return "not-equal"
    if diag and spec.name in ("SVCB", "HTTPS") and not style:
        # equivalent spelling: SvcParams may be written in any order (RFC 9460 2.1)
        toks = TOKEN_RE.findall(text)
        if len(toks) > 3:
            text2 = " ".join(toks[:2] + toks[:1:-1])
            try:
                r3 = dns.rdata.from_text(rdclass, spec.rdtype, text2, origin=_lo(o), relativize=bool(rel))
                if r3.to_wire(origin=oo) != w1:
                    probs.append((T + "/roundtrip/params-reordered/differs", "text %r gives wire %s, same params in the order %r give %s" % (
                        text, w1.hex(), text2, r3.to_wire(origin=oo).hex())))
            except Exception as e:
                probs.append(("%s/roundtrip/params-reordered/rejected/%s" % (T, type(e).__name__), "text %r is accepted, %r raises %s" % (text, text2, e)))
    same_relativity = (not o) or (bool(rorigin) == bool(rel)) or not spec.has_names()
    if same_relativity and (not (r2 == r) or r2 != r):
        probs.append(("%s/roundtrip%s/equal-wire-but-not-eq" % (T, path), "text %r parses to a record with equal wire form that is != the original" % text))
        return "not-eq"
    return "ok"


def judge_generic(spec, rdclass, wire, probs):
    """to_generic().to_text() parsed as the known type and as an unknown type."""
    T = spec.name
    r = dns.rdata.from_wire(rdclass, spec.rdtype, wire, 0, len(wire))
    try:
        g = r.to_generic()
        gt = g.to_text()
    except Exception as e:
        probs.append(("%s/to_generic/crash/%s" % (T, crash_sig(e)), "%s: %s" % (type(e).__name__, e)))
        return "generic-crash"
    if g.to_wire() != wire or not isinstance(g, dns.rdata.GenericRdata):
        probs.append((T + "/to_generic/wire-differs", "to_generic() of %s holds %s" % (wire.hex(), g.to_wire().hex())))
    try:
        r3 = dns.rdata.from_text(rdclass, spec.rdtype, gt)
        if r3.to_wire() != wire or not (r3 == r):
            probs.append((T + "/generic-as-known/not-equal", "generic text %r parsed as %s gives wire %s" % (gt, T, r3.to_wire().hex())))
        if type(r3) is not type(r):
            probs.append((T + "/generic-as-known/wrong-class", "generic text parsed as %s gives a %s" % (T, type(r3).__name__)))
    except dns.exception.SyntaxError as e:
        probs.append((T + "/generic-as-known/rejected", "generic text %r rejected when parsed as %s: %s" % (gt, T, e)))
    except Exception as e:
        probs.append(("%s/generic-as-known/crash/%s" % (T, crash_sig(e)), "%s: %s" % (type(e).__name__, e)))
    if spec.has_names():
        # a record holding relative names: the generic form needs the origin
        rr = dns.rdata.from_wire(rdclass, spec.rdtype, wire, 0, len(wire), EXAMPLE)
        try:
            if rr.to_generic(EXAMPLE).to_wire() != wire:
                probs.append((T + "/to_generic/relative-with-origin/wire-differs", "to_generic(origin) of the relativised %s holds %s" % (
                    wire.hex(), rr.to_generic(EXAMPLE).to_wire().hex())))
        except Exception as e:
            probs.append(("%s/to_generic/relative-with-origin/crash/%s" % (T, crash_sig(e)), "%s: %s" % (type(e).__name__, e)))
        # the generic form read under every origin / relativize / relativize_to choice gives what
        # the ordinary text gives under the same choice (a zone reader passes the current $ORIGIN as
        # origin and the zone origin as relativize_to)
        try:
            plain = r.to_text()
            for o_, rel_, to_ in ((EXAMPLE, True, None), (SUB_EXAMPLE, True, EXAMPLE), (EXAMPLE, True, SUB_EXAMPLE),
                                  (SUB_EXAMPLE, False, EXAMPLE), (None, True, EXAMPLE)):
                a_ = dns.rdata.from_text(rdclass, spec.rdtype, plain, o_, rel_, to_)
                b_ = dns.rdata.from_text(rdclass, spec.rdtype, gt, o_, rel_, to_)
                if not (a_ == b_) or a_.to_text() != b_.to_text():
                    probs.append((T + "/generic-as-known/differs-from-plain-text-under-origin-choice",
                                  "origin=%s relativize=%s relativize_to=%s: plain text gives %s, generic text gives %s" % (
                                      o_, rel_, to_, a_.to_text(), b_.to_text())))
                    break
        except Exception as e:
            probs.append(("%s/generic-as-known/origin-choice-crash/%s" % (T, crash_sig(e)), "%s: %s" % (type(e).__name__, e)))
        try:
            g0 = rr.to_generic()
            if g0.to_wire() != wire:
                probs.append((T + "/to_generic/relative-without-origin/wrong-wire", "to_generic() of a record with relative names silently holds %s (absolute form %s)" % (
                    g0.to_wire().hex(), wire.hex())))
        except dns.name.NeedAbsoluteNameOrOrigin:
            pass
        except Exception as e:
            probs.append(("%s/to_generic/relative-without-origin/crash/%s" % (T, crash_sig(e)), "%s: %s" % (type(e).__name__, e)))
    try:
        r4 = dns.rdata.from_text(rdclass, 65281, gt)
        if r4.to_wire() != wire or not isinstance(r4, dns.rdata.GenericRdata) or r4.to_text() != gt:
            probs.append((T + "/generic-as-unknown/not-equal", "generic text %r parsed as TYPE65281 gives %s" % (gt, r4.to_wire().hex())))
    except Exception as e:
        probs.append(("%s/generic-as-unknown/rejected/%s" % (T, type(e).__name__), "generic text %r: %s" % (gt, e)))
    return "ok"


def judge_zone_line(spec, rdclass, wire, probs, diag=True):
    """The same text inside a zone-file line (tokenizer + $ORIGIN relativisation + comment)."""
    T = spec.name
    r = dns.rdata.from_wire(rdclass, spec.rdtype, wire, 0, len(wire), EXAMPLE)
    try:
        text = r.to_text(origin=EXAMPLE, relativize=True)
    except Exception:
        return "skip"      # reported by judge_roundtrip
    owner = "@" if T == "SOA" else "x"          # the zone reader only takes SOA at the origin
    line = "%s 300 %s %s %s ; c\n" % (owner, dns.rdataclass.to_text(rdclass), dns.rdatatype.to_text(spec.rdtype), text)
    try:
        z = dns.zone.from_text(line, origin=EXAMPLE, rdclass=rdclass, relativize=True, check_origin=False)
        rds = z[dns.name.Name((b"x",) if owner == "x" else ())].rdatasets
        r2 = rds[0][0]
    except dns.exception.DNSException as e:
        ref = R.ref_decode(spec, wire, 0, len(wire))
        which = "undiagnosed" if not diag else _culprit(
            spec, ref[1] if ref[0] == "ok" else None,
            lambda v: judge_zone_line(spec, rdclass, R.ref_encode(spec, v), [], False) == "rejected")
        probs.append((T + "/zone-line/own-text-rejected/" + which, "zone line %r rejected: %s: %s" % (line, type(e).__name__, e)))
        return "rejected"
    except Exception as e:
        probs.append(("%s/zone-line/crash/%s" % (T, crash_sig(e)), "zone line %r: %s: %s" % (line, type(e).__name__, e)))
        return "crash"
    try:
        if r2.to_wire(origin=EXAMPLE) != wire:
            ref = R.ref_decode(spec, wire, 0, len(wire))
            for attr, cls, got, v in _diagnose(spec, ref[1], r2, R.ORIGIN):
                probs.append(("%s/zone-line/%s/%s" % (T, attr, cls), "zone line %r parses to wire %s, expected %s" % (
                    line, r2.to_wire(origin=EXAMPLE).hex(), wire.hex())))
            return "not-equal"
    except Exception as e:
        probs.append(("%s/zone-line/to_wire-crash/%s" % (T, crash_sig(e)), "%s: %s" % (type(e).__name__, e)))
    return "ok"


def judge_accepted(spec, rdclass, buf, off, rdlen, probs):
    """Arbitrary octets: whatever from_wire accepts must render as text; reference-well-formed
    and expressible values must also round-trip."""
    T = spec.name
    try:
        r = dns.rdata.from_wire(rdclass, spec.rdtype, buf, off, rdlen)
    except Exception:
        return "rejected"
    try:
        text = r.to_text()
    except Exception as e:
        probs.append(("%s/to_text/crash/%s" % (T, crash_sig(e)), "to_text of the record decoded from %s raised %s: %s" % (
            bytes(buf[off:off + rdlen]).hex(), type(e).__name__, e)))
        return "to_text-crash"
    ref = R.ref_decode(spec, buf, off, rdlen)
    if ref[0] == "ok" and not ref[2] and not spec.text_issues(ref[1]) and spec.text:
        w = R.ref_encode(spec, ref[1])
        return "wf-" + judge_roundtrip(spec, rdclass, w, 0, 0, 0, 0, probs)
    return "accepted-text-ok"


TOKEN_RE = re.compile(r'(?:"(?:[^"\\]|\\.)*"|\\.|[^\s"\\])+', re.S)
REPL = ["0", "1", "255", "256", "65535", "65536", "4294967295", "4294967296", "281474976710656", "-1", "1.5", "nan", "inf",
        "-inf", "1e400", "1e10", "-1e10", "a", "A", "@", ".", "-", '""', "\\000", "\\255", "\\256", "nanm", "infm", "-100001m",
        "-100000.00m", "42849672.95m", "42849672.96m", "1e10m", "90000000.00m", "0.00m", "00", "aa", "AAAA", "=", "\\#", "TYPE1",
        "N", "W", "( )", "1.2.3.4", "::", "1:1.2.3.4/33", "key1=", "alpn=", "-.-", "20000101000000", "99999999999999",
        # one octet more than a character-string can hold, quoted and bare (seed C05-14)
        '"' + "x" * 256 + '"', "y" * 256]


def judge_token_text(spec, rdclass, text, probs):
    """A record accepted from (mutated) text must encode with to_wire and render with to_text."""
    T = spec.name
    try:
        r = dns.rdata.from_text(rdclass, spec.rdtype, text, origin=EXAMPLE, relativize=False)
    except dns.exception.SyntaxError:
        return "rejected"
    except Exception as e:
        probs.append(("%s/from_text/crash/%s" % (T, crash_sig(e)), "from_text(%r) raised %s: %s" % (text, type(e).__name__, e)))
        return "from_text-crash"
    res = "accepted-ok"
    try:
        w = r.to_wire(origin=EXAMPLE)
    except Exception as e:
        probs.append(("%s/accepted-from-text/to_wire-crash/%s" % (T, crash_sig(e)), "from_text(%r) is accepted but to_wire raises %s: %s" % (
            text, type(e).__name__, e)))
        w = None
        res = "accepted-to_wire-crash"
    try:
        r.to_text()
    except Exception as e:
        probs.append(("%s/accepted-from-text/to_text-crash/%s" % (T, crash_sig(e)), "from_text(%r) is accepted but to_text raises %s: %s" % (
            text, type(e).__name__, e)))
        res = "accepted-to_text-crash"
    if w is not None:
        try:
            # informational only (outcome label, no violation): C05 demands that the record encodes,
            # not that an ill-formed-but-accepted text value (e.g. LOC latitude 90 1 0 N) decodes again
            r2 = dns.rdata.from_wire(rdclass, spec.rdtype, w, 0, len(w))
            if r2.to_wire() != w:
                res = "accepted-own-wire-not-fixed-point"
        except Exception:
            res = "accepted-own-wire-rejected"
    return res


# ------------------------------------------------------------------ case execution
def run_case(case):
    spec = R.BY_NAME[case["spec"]]
    mode = case["mode"]
    probs = []
    try:
        return _run_case(spec, mode, case, probs), probs
    except dns.exception.FormError:
        # the reference-well-formed base record was rejected by from_wire: C02's business, nothing to round-trip
        return "base-rejected-by-from_wire", probs


def _run_case(spec, mode, case, probs):
    if mode == "rt":
        label = judge_roundtrip(spec, case["rdclass"], bytes(case["wire"]), case["rorigin"], case["o"], case["rel"], case["style"], probs)
    elif mode == "gen":
        label = judge_generic(spec, case["rdclass"], bytes(case["wire"]), probs)
    elif mode == "zone":
        label = judge_zone_line(spec, case["rdclass"], bytes(case["wire"]), probs)
    elif mode == "acc":
        label = judge_accepted(spec, case["rdclass"], bytes(case["buf"]), case["off"], case["rdlen"], probs)
    elif mode == "tok":
        label = judge_token_text(spec, case["rdclass"], case["text"], probs)
    else:
        raise AssertionError(mode)
    return label


def recheck(case):
    _, probs = run_case(case)
    return [("C05/" + s, w) for s, w in probs]


def _do(col, case):
    label, probs = run_case(case)
    col.count("evaluations")
    col.outcome(case["mode"] + ":" + label)
    if label not in ("rejected", "skip"):
        if case["mode"] == "acc":
            col.count("nontrivial_octet_strings_accepted")      # distinct by construction
        else:
            col.nontrivial(tuple(sorted((k, v) for k, v in case.items())))
    for s, w in probs:
        col.violation("C05/" + s, w, case)
    return label


def _value_cases(col, spec, rdclass, values, styles=True, zone=True):
    w = R.ref_encode(spec, values)
    base = {"spec": spec.name, "rdclass": rdclass, "wire": w}
    names = spec.has_names()
    under = names and any(lab == R.ORIGIN[0] for lab in c02._labels_in(spec, values))
    cfgs = [(0, 0, 1, 0)]                        # (rorigin, o, rel, style)
    if names:
        cfgs += [(0, 0, 0, 0), (0, 1, 1, 0), (0, 1, 0, 0)]
        if under:
            cfgs += [(1, 1, 1, 0), (1, 1, 0, 0), (1, 0, 1, 0)]
    if styles:
        cfgs += [(0, 0, 1, s) for s in range(1, len(STYLES))]
    for ro, o, rel, st in cfgs:
        _do(col, dict(base, mode="rt", rorigin=ro, o=o, rel=rel, style=st))
    _do(col, dict(base, mode="gen"))
    if zone and spec.name not in META and spec.impl is not None and rdclass in (R.IN, R.CH):
        _do(col, dict(base, mode="zone"))


def task_values(task, col):
    name, rdclass, tier, k, cap = task
    spec = R.BY_NAME[name]
    first = True
    for values in c02.capped_values(spec, tier, k, cap):
        issues = spec.text_issues(values)
        if issues:
            col.count("values_not_expressible_in_text")
            for i in issues:
                col.outcome("restricted:" + i)
            if spec.text:
                continue
            # types without a text parser (OPT): to_text must still work
            w = R.ref_encode(spec, values)
            _do(col, {"spec": name, "rdclass": rdclass, "mode": "acc", "buf": w, "off": 0, "rdlen": len(w)})
            continue
        _value_cases(col, spec, rdclass, values)
        if first:
            w = R.ref_encode(spec, values)
            try:
                r = dns.rdata.from_wire(rdclass, spec.rdtype, w, 0, len(w))
                col.sample({"type": name, "rdclass": rdclass, "text": r.to_text()[:200]}, limit=1)
            except Exception:
                pass
            first = False


def charstr_values(spec, tier, pairs):
    """Every single octet (and every pair over the 20-class alphabet) in each
    character-string field, other fields at their defaults."""
    dflt = R.default_values(spec, tier)
    for i, f in enumerate(spec.fields):
        if not f.kind.charstr:
            continue
        strs = [bytes([a]) for a in range(256)]
        # valid UTF-8 sequences of every length whose characters are printable / not
        # printable / above U+FFFF (exercise the txt_is_utf8 style beyond single octets)
        strs += [b"\xc3\xa9", b"\xc2\x85", b"\xc2\xa0", b"\xc2\xad", b"\xe2\x80\x8b", b"\xe2\x80\xa8",
                 b"\xef\xbb\xbf", b"\xee\x80\x80", b"\xf0\x9f\x98\x80", b"a\xc2\x85b", b"\xc2\x85\\\""]
        if pairs:
            strs += [bytes([a, b]) for a in ALPHA20 for b in ALPHA20]
            strs += [bytes([a, b, c]) for a in (0x5C, 0x22, 0x80) for b in ALPHA20 for c in (0x30, 0x5C, 0x22, 0xFF)]
        for s in strs:
            v = list(dflt)
            v[i] = (s,) if getattr(f.kind, "multi", False) else s
            yield tuple(v)
            if getattr(f.kind, "multi", False) and len(s) == 1:
                v[i] = (b"a", s, b"")
                yield tuple(v)


def task_charstr(task, col):
    name, rdclass, tier, pairs = task
    spec = R.BY_NAME[name]
    for values in charstr_values(spec, tier, pairs):
        if spec.issues(values) or spec.text_issues(values):
            continue
        w = R.ref_encode(spec, values)
        base = {"spec": name, "rdclass": rdclass, "wire": w}
        _do(col, dict(base, mode="rt", rorigin=0, o=0, rel=1, style=0))
        _do(col, dict(base, mode="rt", rorigin=0, o=0, rel=1, style=4))
        if name not in META and rdclass == R.IN and len(w) and spec.impl:
            _do(col, dict(base, mode="zone"))


def task_accepted(task, col):
    name, rdclass, part, n8, full2 = task
    base = {"spec": name, "rdclass": rdclass, "mode": "acc", "off": len(c02.PREFIX)}
    for s in c02.octet_strings(part, n8, full2):
        _do(col, dict(base, buf=c02.PREFIX + s + c02.SUFFIX, rdlen=len(s)))


def task_tokens(task, col):
    name, rdclass, tier, cap = task
    spec = R.BY_NAME[name]
    seen = set()
    for values in c02.capped_values(spec, tier, 1, cap, cap):
        if spec.text_issues(values):
            continue
        w = R.ref_encode(spec, values)
        try:
            r = dns.rdata.from_wire(rdclass, spec.rdtype, w, 0, len(w))
            text = r.to_text()
        except Exception:
            continue
        toks = TOKEN_RE.findall(text)
        if len(toks) > 24:
            col.count("token_bases_skipped_more_than_24_tokens")
            continue
        col.count("token_bases")
        muts = [" ".join(toks[:-1]), " ".join(toks + ["0"]), " ".join(toks + ["a"]), "( " + " ".join(toks) + " )"]
        for i in range(len(toks)):
            for rep in REPL:
                if name == "WKS" and rep.isdigit() and int(rep) > 65536:
                    continue        # a WKS port number allocates port/8 octets (resource use is C04's business)
                muts.append(" ".join(toks[:i] + [rep] + toks[i + 1:]))
            if toks[i].endswith("m"):
                for rep in ("nan", "inf", "-100000.01", "42849672.96", "1e3", "-0.001", "0.29", "0.57", "1.1"):
                    muts.append(" ".join(toks[:i] + [rep + "m"] + toks[i + 1:]))
        for t in muts:
            if t in seen:
                continue
            seen.add(t)
            _do(col, {"spec": name, "rdclass": rdclass, "mode": "tok", "text": t})


def _dispatch(task, col):
    fn, args = task
    fn(args, col)


def run(ctx):
    q = ctx.quick
    tier = ctx.tier
    k = ctx.pick(2, 3)
    cap = ctx.pick(5, 10)
    n8 = ctx.pick(4, 6)
    ctx.rule = (
        "per (class,type) with a presentation format: the C02 value generator (k-deviation over per-field boundary "
        "domains) restricted to values expressible in text, each through to_text->from_text under origin {None,example.} "
        "x relativize {T,F} x record names {absolute, relative}, 5 lossless RdataStyle variants, RFC 3597 generic text "
        "parsed as the known and as an unknown type, and a zone-file line; every single octet 0-255 and every pair over "
        "a 20-class alphabet in every character-string field; every from_wire-accepted octet string (C02 arbitrary-octet "
        "space) must render with to_text (and round-trip when reference-well-formed); every single-token substitution "
        "(fixed replacement list) of valid texts that from_text accepts must encode with to_wire and render with to_text. "
        "A case is distinct by its full description; non-trivial = not rejected at the first step (accepted arbitrary-octet "
        "strings are distinct by construction and reported as the counter nontrivial_octet_strings_accepted).")
    ctx.assume("round trip equality = identical to_wire octets under origin example. (and == when original and parsed "
               "record have the same relativity)")
    ctx.assume("values not expressible in the presentation format are excluded; reasons and counts are in outcomes 'restricted:*'")
    ctx.assume("generic (\\# n hex) text is parsed without origin (C09 owns the relativised generic form)")
    cov = R.coverage()
    ctx.extra["types_implemented"] = cov["implemented"]
    ctx.extra["types_covered"] = cov["covered"]
    ctx.extra["types_not_covered"] = cov["not_covered"]
    ctx.extra["types_without_text_parser"] = [s.name for s in R.SPECS if not s.text]
    ctx.extra["generic_unknown_cases"] = cov["generic_unknown"]
    ctx.extra["bounds"] = {"k": k, "pair_cap": cap, "alphabet8_max_len": n8, "all_2_octet_strings": not q,
                           "styles": [s or "default" for s in STYLES], "charstr_pairs_alphabet": len(ALPHA20), "token_base_max_tokens": 24, "token_bases_per_dim": ctx.pick(3, 8),
                           "token_replacements": len(REPL)}
    ctx.extra["charstr_fields"] = {s.name: [f.name for f in s.fields if f.kind.charstr] for s in R.SPECS
                                   if any(f.kind.charstr for f in s.fields)}
    tasks = []
    for s in R.SPECS:
        for c in s.classes:
            tasks.append((task_values, (s.name, c, tier, k, cap)))
        c0 = s.classes[0]
        if any(f.kind.charstr for f in s.fields):
            tasks.append((task_charstr, (s.name, c0, tier, True)))
        generic = s.impl is None
        tasks.append((task_accepted, (s.name, c0, 0, n8 if not generic else 3, (not q) and not generic)))
        if (not q) and not generic:
            for part in range(1, 9):
                tasks.append((task_accepted, (s.name, c0, part, n8, True)))
        if s.text:
            tasks.append((task_tokens, (s.name, c0, tier, ctx.pick(3, 8))))
    ctx.pmap(_dispatch, tasks)
