"""C06: name comparison is the DNSSEC canonical order, coherent with equality and hash.

Small-scope exhaustive enumeration (E1) over names built from the case-fold boundary
alphabet {00 - @ A Z [ ` a z { FF}: all ordered pairs, all triples over a core, every
origin x name for relativize/derelativize, and the RFC 4471 successor/predecessor of every
such name plus maximal names (63-octet labels, 255-octet names) x prefix_ok x relativity.
Judge: mc/refs/name.py (RFC 4034 6.1 comparator, relation/common-label count, RFC 4471).
"""
from __future__ import annotations

import traceback

import dns.exception
import dns.name

from ..refs import name as R

PROPERTY = "C06"
LEVEL = "exploration"

ALPHA = [0x00, 0x2D, 0x40, 0x41, 0x5A, 0x5B, 0x60, 0x61, 0x7A, 0x7B, 0xFF]
CORE_Q = [0x41, 0x61, 0x5A, 0x5B, 0x00, 0x7A]
CORE_T = list(ALPHA)
ORIGINS = [R.ROOT, (b"example", b""), (b"a", b""), (b"A", b"a", b"")]


def crash_sig(e):
    tb = traceback.extract_tb(e.__traceback__)
    t = type(e)
    tn = t.__name__ if t.__module__ == "builtins" else "%s.%s" % (t.__module__, t.__name__)
    return "crash:%s@%s" % (tn, tb[-1].name if tb else "?")


def sign(x):
    return -1 if x < 0 else (1 if x > 0 else 0)


def show(labels):
    return R.text_encode(tuple(labels), "min")


def short(labels):
    t = show(labels)
    return t if len(t) <= 90 else "%s...(%d labels, %d octets, least label %d octets ending %r)" % (
        t[:40], len(labels), R.wire_length(labels), len(labels[0]), labels[0][-3:])


# ---------------------------------------------------------------- name universe
def universe(core):
    l1 = [bytes([c]) for c in ALPHA]
    l2 = [bytes([a, b]) for a in ALPHA for b in ALPHA]
    c1 = [bytes([c]) for c in core]
    c2 = [bytes([a, b]) for a in core for b in core]
    rel = [()]
    rel += [(l,) for l in l1 + l2]
    rel += [(a, b) for a in l1 for b in l1]
    rel += [(a, b) for a in c2 for b in c1]
    rel += [(a, b) for a in c1 for b in c2]
    seen = set()
    out = []
    for r in rel:
        for n in (r, r + (b"",)):
            if n not in seen:
                seen.add(n)
                out.append(n)
    return out


def core_names(size_hint):
    """Core for the triple laws: every 1-octet label, case/boundary 2-octet labels, a few
    2-label names; relative and absolute; plus the empty name and the root."""
    tw = [0x41, 0x61, 0x5A, 0x7A, 0x5B, 0x40] if size_hint <= 80 else [0x41, 0x61, 0x5A, 0x7A, 0x5B, 0x40, 0x60, 0x7B, 0x00]
    rel = [()] + [(bytes([c]),) for c in ALPHA]
    out = []
    for r in rel:
        out += [r, r + (b"",)]
    for a in tw:
        for b in tw:
            out.append((bytes([a, b]), b""))
    for a, b in ((b"a", b"A"), (b"A", b"a"), (b"Z", b"a"), (b"[", b"A"), (b"a", b"Z"), (b"\x00", b"a"), (b"a", b"\x00"),
                 (b"A", b"["), (b"z", b"A"), (b"a", b"a")):
        out.append((a, b, b""))
        if size_hint > 80:
            out.append((a, b))
    return out


_U = {}


def get_universe(core):
    key = tuple(core)
    if key not in _U:
        labels = universe(core)
        _U[key] = (labels, [dns.name.Name(l) for l in labels])
    return _U[key]


# ---------------------------------------------------------------- pair laws
def check_pair(a, b, A=None, B=None):
    a, b = tuple(a), tuple(b)
    A = A or dns.name.Name(a)
    B = B or dns.name.Name(b)
    probs = []
    what = "%s vs %s" % (show(a), show(b))
    try:
        rel, order, nl = A.fullcompare(B)
        s = R.cmp(a, b)
        rrel, rn = R.relation(a, b)
        if sign(order) != s:
            probs.append(("C06/fullcompare/order", "%s: order %r, canonical order says %d" % (what, order, s)))
        if int(rel) != rrel:
            probs.append(("C06/fullcompare/relation", "%s: relation %r, expected %d" % (what, rel, rrel)))
        if nl != rn:
            probs.append(("C06/fullcompare/nlabels", "%s: %d common labels, expected %d" % (what, nl, rn)))
        got = (A < B, A <= B, A == B, A != B, A >= B, A > B)
        exp = (s < 0, s <= 0, s == 0, s != 0, s >= 0, s > 0)
        if got != exp:
            probs.append(("C06/rich-comparison", "%s: (<,<=,==,!=,>=,>) = %r expected %r" % (what, got, exp)))
        same = R.same_name(a, b)
        if (A == B) != same:
            probs.append(("C06/eq-vs-casefold", "%s: == is %r, equal up to ASCII case is %r" % (what, A == B, same)))
        if same and hash(A) != hash(B):
            probs.append(("C06/hash-differs-for-equal", "%s: equal names, hashes %d and %d" % (what, hash(A), hash(B))))
        sub = rrel in (R.SUBDOMAIN, R.EQUAL)
        sup = rrel in (R.SUPERDOMAIN, R.EQUAL)
        if A.is_subdomain(B) != sub:
            probs.append(("C06/is_subdomain", "%s: is_subdomain %r expected %r" % (what, A.is_subdomain(B), sub)))
        if A.is_superdomain(B) != sup:
            probs.append(("C06/is_superdomain", "%s: is_superdomain %r expected %r" % (what, A.is_superdomain(B), sup)))
    except Exception as e:
        probs.append(("C06/pair/" + crash_sig(e), "%s: %s: %s" % (what, type(e).__name__, e)))
        s, rrel = 0, -1
    return probs, "%d/%d" % (s, rrel)


# ---------------------------------------------------------------- unary laws
def check_unary(a):
    a = tuple(a)
    A = dns.name.Name(a)
    probs = []
    what = show(a)
    try:
        # parent
        if a in (R.ROOT, R.EMPTY):
            try:
                p = A.parent()
                probs.append(("C06/parent/no-NoParent", "%s.parent() gave %s" % (what, p)))
            except dns.name.NoParent:
                pass
        else:
            p = A.parent()
            if p.labels != a[1:]:
                probs.append(("C06/parent/labels", "%s.parent() gave %r" % (what, p.labels)))
            rel, _, nl = A.fullcompare(p)
            if int(rel) != R.SUBDOMAIN or nl != len(a) - 1:
                probs.append(("C06/parent/relation", "%s vs its parent: relation %r, %d common labels" % (what, rel, nl)))
            if not (A.is_subdomain(p) and p.is_superdomain(A)) or A.is_superdomain(p):
                probs.append(("C06/parent/predicates", "%s vs its parent: sub/superdomain predicates" % what))
            if not (p < A):
                probs.append(("C06/parent/order", "%s: parent does not sort before its child" % what))
        # split
        for depth in range(0, len(a) + 1):
            pre, suf = A.split(depth)
            if pre.labels != a[:len(a) - depth] or suf.labels != a[len(a) - depth:]:
                probs.append(("C06/split/labels", "%s.split(%d) gave %r / %r" % (what, depth, pre.labels, suf.labels)))
            rel, _, nl = A.fullcompare(suf)
            erel, en = R.relation(a, a[len(a) - depth:])
            if int(rel) != erel or nl != en:
                probs.append(("C06/split/relation", "%s vs its suffix of %d labels: %r/%d expected %d/%d" % (
                    what, depth, rel, nl, erel, en)))
        for depth in (-1, len(a) + 1):
            try:
                A.split(depth)
                probs.append(("C06/split/bad-depth-accepted", "%s.split(%d) did not raise" % (what, depth)))
            except ValueError:
                pass
        # canonical form
        c = A.canonicalize()
        if c.labels != R.fold_name(a) or not (c == A) or hash(c) != hash(A):
            probs.append(("C06/canonicalize", "%s.canonicalize() gave %r" % (what, c.labels)))
        # other types
        if A == what or not (A != what) or A == a or A == None:  # noqa: E711
            probs.append(("C06/eq-other-type", "%s compares equal to a non-Name" % what))
        try:
            A < what
            probs.append(("C06/lt-other-type", "%s < str did not raise TypeError" % what))
        except TypeError:
            pass
    except Exception as e:
        probs.append(("C06/unary/" + crash_sig(e), "%s: %s: %s" % (what, type(e).__name__, e)))
    return probs


def check_relativity(a, o):
    """relativize / derelativize / choose_relativity of name a against absolute origin o
    (o == () is the degenerate empty origin: both operations must be the identity)."""
    a, o = tuple(a), tuple(o)
    if o == ():
        A, E = dns.name.Name(a), dns.name.empty
        probs = []
        try:
            r = A.relativize(E)
            if r.labels != a:
                probs.append(("C06/relativize/empty-origin-changed-name", "%s.relativize(empty) gave %r" % (show(a), r.labels)))
            if r.derelativize(E).labels != a:
                probs.append(("C06/derelativize-after-relativize/empty-origin", "%s not restored" % show(a)))
        except Exception as e:
            probs.append(("C06/relativity/" + crash_sig(e), "%s empty origin: %s: %s" % (show(a), type(e).__name__, e)))
        return probs, "empty-origin"
    if o[-1] != b"":
        # a relative, non-empty origin: only relative names can lie beneath it
        A, O = dns.name.Name(a), dns.name.Name(o)
        probs = []
        what = "%s relative origin %s" % (show(a), show(o))
        try:
            under = (not R.is_absolute(a)) and len(a) >= len(o) and all(
                x.lower() == y.lower() for x, y in zip(a[len(a) - len(o):], o))
            r = A.relativize(O)
            if under:
                exp = a[:len(a) - len(o)]
                if r.labels != exp:
                    probs.append(("C06/relativize/relative-origin/labels", "%s: relativize gave %r expected %r" % (what, r.labels, exp)))
                d = r.derelativize(O)
                if not R.same_name(d.labels, a):
                    probs.append(("C06/derelativize-after-relativize/relative-origin", "%s: back to %r" % (what, d.labels)))
            elif r.labels != a:
                probs.append(("C06/relativize/relative-origin/not-under-changed", "%s: gave %r" % (what, r.labels)))
        except Exception as e:
            probs.append(("C06/relativity/" + crash_sig(e), "%s: %s: %s" % (what, type(e).__name__, e)))
        return probs, "relative-origin"
    A, O = dns.name.Name(a), dns.name.Name(o)
    probs = []
    what = "%s origin %s" % (show(a), show(o))
    out = "?"
    try:
        if not R.is_absolute(a):
            out = "relative"
            d = A.derelativize(O)
            if d.labels != a + o:
                probs.append(("C06/derelativize/labels", "%s: derelativize gave %r" % (what, d.labels)))
            r = d.relativize(O)
            if r.labels != a:
                probs.append(("C06/relativize-after-derelativize", "%s: back to %r" % (what, r.labels)))
            if A.relativize(O).labels != a:
                probs.append(("C06/relativize/relative-name-changed", what))
            if A.choose_relativity(O, False).labels != a + o or A.choose_relativity(O, True).labels != a:
                probs.append(("C06/choose_relativity", what))
        elif R.is_subdomain(a, o):
            out = "in-zone"
            r = A.relativize(O)
            exp = a[:len(a) - len(o)]
            if r.labels != exp:
                probs.append(("C06/relativize/labels", "%s: relativize gave %r expected %r" % (what, r.labels, exp)))
            d = r.derelativize(O)
            if d.labels != exp + o or not R.same_name(d.labels, a) or not (d == A) or hash(d) != hash(A):
                probs.append(("C06/derelativize-after-relativize", "%s: back to %r" % (what, d.labels)))
            if (A - O).labels != exp or (r + O).labels != exp + o:
                probs.append(("C06/sub-add", what))
            if A.choose_relativity(O, True).labels != exp or A.choose_relativity(O, False).labels != a:
                probs.append(("C06/choose_relativity", what))
        else:
            out = "out-of-zone"
            r = A.relativize(O)
            if r.labels != a or r.derelativize(O).labels != a:
                probs.append(("C06/relativize/out-of-zone-changed", "%s: gave %r" % (what, r.labels)))
        if A.choose_relativity(None, True).labels != a or A.choose_relativity(None, False).labels != a:
            probs.append(("C06/choose_relativity/no-origin", what))
    except Exception as e:
        probs.append(("C06/relativity/" + crash_sig(e), "%s: %s: %s" % (what, type(e).__name__, e)))
    return probs, out


# ---------------------------------------------------------------- triples / sorting
def check_triples(names, i):
    """Order laws on the library's own operators for every (i, j, k)."""
    N = [dns.name.Name(n) for n in names]
    n = len(N)
    probs = []
    lt = [[N[x] < N[y] for y in range(n)] for x in range(n)]
    eq = [[N[x] == N[y] for y in range(n)] for x in range(n)]
    le = [[N[x] <= N[y] for y in range(n)] for x in range(n)]
    cnt = 0
    a = i
    for j in range(n):
        # totality / antisymmetry
        if (lt[a][j] + lt[j][a] + eq[a][j]) != 1 or eq[a][j] != eq[j][a] or le[a][j] != (lt[a][j] or eq[a][j]):
            probs.append(("C06/order-law/trichotomy", "%s vs %s: lt=%r gt=%r eq=%r le=%r" % (
                show(names[a]), show(names[j]), lt[a][j], lt[j][a], eq[a][j], le[a][j])))
        for k in range(n):
            cnt += 1
            if le[a][j] and le[j][k]:
                if not le[a][k] or ((lt[a][j] or lt[j][k]) and not lt[a][k]):
                    probs.append(("C06/order-law/transitivity", "%s <= %s <= %s but not first <= third" % (
                        show(names[a]), show(names[j]), show(names[k]))))
            if eq[a][j] and eq[j][k] and not eq[a][k]:
                probs.append(("C06/order-law/eq-transitivity", "%s == %s == %s" % (show(names[a]), show(names[j]), show(names[k]))))
            if eq[a][j] and (lt[a][k] != lt[j][k] or lt[k][a] != lt[k][j]):
                probs.append(("C06/order-law/eq-congruence", "%s == %s but they compare differently with %s" % (
                    show(names[a]), show(names[j]), show(names[k]))))
        if len(probs) > 6:
            break
    return probs, cnt


def permutation(n, stride, offset):
    return [(offset + i * stride) % n for i in range(n)]


def check_sorted(names, stride, offset):
    n = len(names)
    order = permutation(n, stride, offset)
    assert len(set(order)) == n
    inp = [names[i] for i in order]
    probs = []
    try:
        got = [x.labels for x in sorted(dns.name.Name(l) for l in inp)]
        exp = sorted(inp, key=R.sort_key)
        if got != exp:
            k = next(i for i in range(n) if got[i] != exp[i])
            probs.append(("C06/sorted", "sorted() of %d names (stride %d offset %d) differs from the canonical order at "
                          "position %d: %s instead of %s" % (n, stride, offset, k, show(got[k]), show(exp[k]))))
        gotr = [x.labels for x in sorted((dns.name.Name(l) for l in inp), reverse=True)]
        expr = sorted(inp, key=R.sort_key, reverse=True)
        if gotr != expr:
            probs.append(("C06/sorted-reverse", "sorted(reverse=True) of %d names (stride %d offset %d)" % (n, stride, offset)))
        L = [dns.name.Name(l) for l in inp]
        if not R.same_name(min(L).labels, exp[0]) or not R.same_name(max(L).labels, exp[-1]):
            probs.append(("C06/min-max", "min/max of %d names" % n))
    except Exception as e:
        probs.append(("C06/sorted/" + crash_sig(e), "%s: %s" % (type(e).__name__, e)))
    return probs


# ---------------------------------------------------------------- RFC 4471
def check_neighbour(op, a, o, prefix_ok):
    """successor / predecessor of name a (relative or absolute) in the zone o."""
    a, o = tuple(a), tuple(o)
    probs = []
    rel = not R.is_absolute(a)
    full = a + o if rel else a
    what = "%s(%s, origin=%s, prefix_ok=%s)" % (op, short(a), show(o), prefix_ok)
    if R.limits_problem(full):
        return probs, "name+origin-too-long"
    in_zone = R.is_subdomain(full, o)
    try:
        A, O = dns.name.Name(a), dns.name.Name(o)
        r = getattr(A, op)(O, prefix_ok)
    except dns.name.NeedSubdomainOfOrigin:
        if in_zone:
            probs.append(("C06/%s/rejected-in-zone-name" % op, what + " raised NeedSubdomainOfOrigin"))
        return probs, "not-in-zone"
    except Exception as e:
        probs.append(("C06/%s/%s" % (op, crash_sig(e)), "%s: %s: %s" % (what, type(e).__name__, e)))
        return probs, "crash"
    if not in_zone:
        return probs, "out-of-zone-accepted"       # not judged: the property speaks about names of the zone
    rl = tuple(r.labels)
    if rel and R.is_absolute(rl):
        probs.append(("C06/%s/relativity-changed" % op, "%s returned the absolute name %s" % (what, short(rl))))
        return probs, "bad"
    rfull = rl + o if rel else rl
    lp = R.limits_problem(rfull)
    if lp:
        probs.append(("C06/%s/limit-exceeded" % op, "%s returned a name with %s" % (what, lp)))
        return probs, "bad"
    if not R.is_subdomain(rfull, o):
        probs.append(("C06/%s/left-zone" % op, "%s returned %s" % (what, short(rl))))
    c = R.cmp(rfull, full)
    # the library's own operators must tell the same story about the result
    F = dns.name.Name(full)
    RF = dns.name.Name(rfull)
    if sign(RF.fullcompare(F)[1]) != c or (RF > F) != (c > 0) or (RF < F) != (c < 0):
        probs.append(("C06/%s/library-order-disagrees" % op, "%s: library compares result and name differently from the "
                      "canonical order (%d)" % (what, c)))
    wrapped = R.same_name(rfull, o)
    if op == "successor":
        exp = R.successor(full, o, prefix_ok)
        if c > 0:
            out = "greater-minimal" if exp is not None and R.same_name(exp, rfull) else "greater-not-minimal"
        elif wrapped and exp is None:
            out = "wrap-to-origin"
        elif wrapped:
            probs.append(("C06/successor-wrapped-early", "%s returned the origin although a greater name of the zone exists, "
                          "e.g. %s" % (what, short(exp))))
            out = "bad"
        else:
            octet = R.successor_increment_octet(full, o, prefix_ok)
            cls = "increment-of-Z" if octet == 0x5A else "other"
            probs.append(("C06/successor-not-greater/" + cls, "%s returned %s which sorts %s the name" % (
                what, short(rl), "before" if c < 0 else "equal to")))
            out = "bad"
    else:
        if R.same_name(full, o):
            out = "wrap-from-origin"
        elif c < 0:
            back = R.successor(rfull, o, True)
            out = "smaller-maximal" if back is not None and R.same_name(back, full) else "smaller-not-maximal"
            if not prefix_ok:
                out = "smaller"
        else:
            probs.append(("C06/predecessor-not-smaller", "%s returned %s which sorts %s the name" % (
                what, short(rl), "after" if c > 0 else "equal to")))
            out = "bad"
    return probs, out


def pad_labels(total, fill):
    """Labels whose encoded lengths (len+1) sum to exactly `total` (0 or >= 2)."""
    out = []
    while total > 0:
        if total >= 66 or total == 64:
            out.append(fill * 63)
            total -= 64
        elif total == 65:
            out.append(fill * 62)
            total -= 63
        else:
            out.append(fill * (total - 1))
            total = 0
    return out


EXTRA_LAST = [0x59, 0x5C, 0x79, 0xFE, 0x01, 0x30]


def maximal_names(o, thorough):
    """Relative parts of names near the limits in zone o: 63-octet least labels and names of
    253-255 octets, the least label ending in every alphabet octet."""
    wl = R.wire_length(o)
    lasts = ALPHA + EXTRA_LAST
    fills = [b"a", b"\xff", b"Z", b"\x00"] if thorough else [b"a", b"\xff", b"Z"]
    least = []
    for x in lasts:
        X = bytes([x])
        for f in fills:
            least.append(f * 62 + X)              # 63 octets ending in X
            least.append(f * 61 + X + b"\xff")    # ... X then a maximal octet
        least.append(X + b"\xff" * 62)            # X then only maximal octets
        least.append(X)                           # short least labels (matter in full names)
        least.append(b"a" + X)
        least.append(X + b"\xff")
        least.append(b"a" * 30 + X)
    least.append(b"\xff" * 63)
    least.append(b"\xff")
    seen = set()
    for l in least:
        for target in (None, 255, 254, 253):
            for padfill in (b"m", b"\xff"):
                if target is None:
                    labels = (l,)
                    if padfill != b"m":
                        continue
                else:
                    rest = target - wl - (len(l) + 1)
                    if rest < 0 or rest == 1:
                        continue
                    labels = (l,) + tuple(pad_labels(rest, padfill))
                if R.limits_problem(labels + o) or labels in seen:
                    continue
                seen.add(labels)
                yield labels


# ---------------------------------------------------------------- recheck
def recheck(case):
    m = case["mode"]
    B = lambda ls: tuple(bytes(l) for l in ls)  # noqa: E731
    if m == "pair":
        return check_pair(B(case["a"]), B(case["b"]))[0]
    if m == "unary":
        return check_unary(B(case["a"]))
    if m == "relativity":
        return check_relativity(B(case["a"]), B(case["origin"]))[0]
    if m == "triples":
        return check_triples([B(n) for n in case["names"]], case["i"])[0]
    if m == "sorted":
        return check_sorted(universe(tuple(case["core"])), case["stride"], case["offset"])
    if m == "neighbour":
        return check_neighbour(case["op"], B(case["a"]), B(case["origin"]), case["prefix_ok"])[0]
    raise AssertionError(m)


# ---------------------------------------------------------------- workers
def w_pairs(task, col):
    _, core, lo, hi = task
    labels, names = get_universe(core)
    for i in range(lo, hi):
        a, A = labels[i], names[i]
        for j in range(len(labels)):
            probs, out = check_pair(a, labels[j], A, names[j])
            col.count("evaluations")
            col.count("pairs")
            col.outcome("pair:order/relation=" + out if not probs else "pair:" + probs[0][0])
            if probs:
                for s, w in probs:
                    col.violation(s, w, {"mode": "pair", "a": list(a), "b": list(labels[j])})
        col.nontrivial(("name", a))
    col.sample({"pair": [show(labels[lo]), show(labels[(lo * 7 + 3) % len(labels)])]}, limit=1)


def w_unary(task, col):
    _, core, lo, hi = task
    labels, _ = get_universe(core)
    for i in range(lo, hi):
        a = labels[i]
        probs = check_unary(a)
        col.count("evaluations")
        col.count("unary")
        col.outcome("unary:ok" if not probs else "unary:" + probs[0][0])
        for s, w in probs:
            col.violation(s, w, {"mode": "unary", "a": list(a)})
        for o in ORIGINS + [(), (b"example",), (b"a",), (b"A", b"a")]:
            probs, out = check_relativity(a, o)
            col.count("evaluations")
            col.count("relativity")
            col.outcome("relativity:" + out if not probs else "relativity:" + probs[0][0])
            for s, w in probs:
                col.violation(s, w, {"mode": "relativity", "a": list(a), "origin": list(o)})


def w_triples(task, col):
    _, size, i = task
    names = core_names(size)
    probs, cnt = check_triples(names, i)
    col.count("evaluations", cnt)
    col.count("triples", cnt)
    col.outcome("triples:ok" if not probs else "triples:" + probs[0][0])
    col.nontrivial(("triple-first", i))
    for s, w in probs:
        col.violation(s, w, {"mode": "triples", "names": [list(n) for n in names], "i": i})


def w_sorted(task, col):
    _, core, stride, offset = task
    names, _ = get_universe(core)
    probs = check_sorted(names, stride, offset)
    col.count("evaluations")
    col.count("sorted_runs")
    col.outcome("sorted:ok" if not probs else "sorted:" + probs[0][0])
    col.nontrivial(("sorted", stride, offset))
    for s, w in probs:
        col.violation(s, w, {"mode": "sorted", "core": list(core), "stride": stride, "offset": offset})


def neighbour_cases(col, a, o):
    for op in ("successor", "predecessor"):
        for pok in (True, False):
            probs, out = check_neighbour(op, a, o, pok)
            col.count("evaluations")
            col.count("neighbour_cases")
            col.outcome("%s:%s" % (op, out))
            for s, w in probs:
                col.violation(s, w, {"mode": "neighbour", "op": op, "a": list(a), "origin": list(o), "prefix_ok": pok})


def w_neighbour_small(task, col):
    _, core, lo, hi = task
    labels, _ = get_universe(core)
    for i in range(lo, hi):
        for o in ORIGINS:
            neighbour_cases(col, labels[i], o)
        col.nontrivial(("neighbour", labels[i]))


def w_neighbour_max(task, col):
    _, o, thorough, part, nparts = task
    o = tuple(o)
    for idx, relpart in enumerate(maximal_names(o, thorough)):
        if idx % nparts != part:
            continue
        neighbour_cases(col, relpart, o)              # relative name
        neighbour_cases(col, relpart + o, o)          # the same name, absolute
        col.nontrivial(("maximal", relpart, o))
        col.sample({"maximal_name_label_lengths": [len(l) for l in relpart + o], "least_label_tail": relpart[0][-3:]}, limit=1)
    # relative origin is refused
    try:
        dns.name.Name([b"a"]).successor(dns.name.Name([b"example"]))
        col.violation("C06/successor/relative-origin-accepted", "successor with a relative origin did not raise", {
            "mode": "neighbour", "op": "successor", "a": [b"a"], "origin": [b"example"], "prefix_ok": True})
    except dns.name.NeedAbsoluteNameOrOrigin:
        col.outcome("successor:relative-origin-refused")


WORKERS = {"pairs": w_pairs, "unary": w_unary, "triples": w_triples, "sorted": w_sorted,
           "neighbour_small": w_neighbour_small, "neighbour_max": w_neighbour_max}


def work(task, col):
    WORKERS[task[0]](task, col)


def run(ctx):
    core = tuple(ctx.pick(CORE_Q, CORE_T))
    labels = universe(core)
    n = len(labels)
    tsize = ctx.pick(81, 130)
    tnames = core_names(tsize)
    tasks = []
    step = ctx.pick(8, 16)
    for lo in range(0, n, step):
        tasks.append(("pairs", core, lo, min(n, lo + step)))
    for lo in range(0, n, 64):
        tasks.append(("unary", core, lo, min(n, lo + 64)))
        tasks.append(("neighbour_small", core, lo, min(n, lo + 64)))
    for i in range(len(tnames)):
        tasks.append(("triples", tsize, i))
    strides = [s for s in (1, n - 1, 7, 101, 389, 997, 1543) if s % n and __import__("math").gcd(s, n) == 1]
    for s in strides:
        for off in (0, 5):
            tasks.append(("sorted", core, s, off))
    nparts = 6
    for o in ORIGINS:
        for part in range(nparts):
            tasks.append(("neighbour_max", o, not ctx.quick, part, nparts))
    nmax = sum(1 for o in ORIGINS for _ in maximal_names(o, not ctx.quick))
    ctx.rule = (
        "all ordered pairs (incl. a name with itself) of the name universe; all triples (i,j,k) over the core; every name x "
        "origin for relativize/derelativize; successor and predecessor of every universe name and every maximal name x "
        "origin x prefix_ok x {relative, absolute}.  One evaluation = one pair / triple / name-origin / neighbour call "
        "judged by the reference.  Distinct non-trivial = distinct name of the universe used as left operand, distinct "
        "first element of the triples, distinct maximal name x origin, distinct sort permutation.")
    ctx.assume("labels are built from the 11-octet case-fold boundary alphabet; other octets behave like their neighbours "
               "because comparison only folds A-Z")
    ctx.assume("successor minimality / predecessor maximality (RFC 4471) is recorded as an outcome (greater-not-minimal, "
               "smaller-not-maximal) but not judged: the property only requires strictly after / strictly before")
    ctx.assume("successor/predecessor of an absolute name outside the zone is not judged")
    ctx.extra.update({
        "alphabet": ["%02x" % c for c in ALPHA], "core_alphabet": ["%02x" % c for c in core],
        "universe_names": n, "ordered_pairs": n * n, "triple_core_names": len(tnames), "triples_expected": len(tnames) ** 3,
        "origins": [show(o) for o in ORIGINS], "maximal_names": nmax, "sort_permutations": len(strides) * 2,
    })
    ctx.pmap(work, tasks)
