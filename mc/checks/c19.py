"""C19: the copy-on-write B-tree is a correct sorted map with isolated clones.

Explicit-state BFS over *tree shapes* of the real dns.btree.BTreeDict/BTreeSet.
A state is the operation history that builds it (replayed on a fresh real tree); the
canonical form is the nested tuple of node sizes.  Keys are abstracted to ranks: the
algorithm only compares keys, so two trees of one shape have the same futures.
"""
from __future__ import annotations

import bisect
import copy
import itertools

import dns.btree as bt

from .. import engines

PROPERTY = "C19"
LEVEL = "model_checking"

TOP = 1 << 400


# ---------------------------------------------------------------- reference model
class FK(int):
    """Keys are falsy (like dns.name.empty, the apex of a relativized zone, or 0): code that
    tests a key's truth value where it means 'is not None' goes wrong for every key."""
    __slots__ = ()

    def __bool__(self):
        return False


class FV(tuple):
    """Values are falsy as well (an empty node, 0, b'' are all legitimate values)."""
    __slots__ = ()

    def __bool__(self):
        return False


class Model:
    """Sorted list + dict: the boring reference."""

    __slots__ = ("ks", "vals", "ver")

    def __init__(self):
        self.ks = []
        self.vals = {}
        self.ver = 0

    def gapkey(self, g):
        lo = self.ks[g - 1] if g > 0 else -TOP   # the key domain is symmetric about 0, so that the falsy key 0 is the first key of every history
        hi = self.ks[g] if g < len(self.ks) else TOP
        k = FK((lo + hi) // 2)
        assert lo < k < hi
        return k

    def copy(self):
        m = Model()
        m.ks = list(self.ks)
        m.vals = dict(self.vals)
        m.ver = self.ver
        return m


def new_tree(kind, t, in_order, original=None):
    cls = bt.BTreeDict if kind in ("dict", "dictchain") else bt.BTreeSet
    if original is not None:
        return cls(original=original, in_order=in_order)
    return cls(t=t, in_order=in_order)


def apply_op(kind, tree, model, op, via=0):
    """Apply op to the real tree and to the model; return list of problems."""
    probs = []
    o, r = op
    if o == "i":
        k = model.gapkey(r)
        model.ver += 1
        v = FV(("v", model.ver))
        if kind == "dict":
            if via == 0:
                tree[k] = v
            else:
                old = tree.insert_element(bt.KV(k, v), tree.in_order)
                if old is not None:
                    probs.append(("ret/insert-new", "insert_element of a new key returned %r" % (old,)))
        else:
            tree.add(k)
        model.ks.insert(r, k)
        model.vals[k] = v
    elif o == "r":
        k = model.ks[r]
        model.ver += 1
        v = FV(("v", model.ver))
        if kind == "dict":
            if via == 0:
                tree[k] = v
            else:
                old = tree.insert_element(bt.KV(k, v), tree.in_order)
                if old is None or old.key() != k or old.value() != model.vals[k]:
                    probs.append(("ret/replace", "insert_element(replace) returned %r" % (old,)))
        else:
            tree.add(k)
        model.vals[k] = v
    elif o == "d":
        k = model.ks[r]
        if kind == "dict":
            if via == 0:
                del tree[k]
            elif via == 1:
                old = tree.delete_key(k)
                if old is None or old.key() != k or old.value() != model.vals[k]:
                    probs.append(("ret/delete", "delete_key returned %r" % (old,)))
            else:
                elt = tree.get_element(k)
                old = tree.delete_exact(elt)
                if old is not elt:
                    probs.append(("ret/delete-exact", "delete_exact returned another element"))
        else:
            if via == 0:
                tree.discard(k)
            else:
                tree.remove(k)
        del model.ks[r]
        del model.vals[k]
    elif o == "m":
        k = model.gapkey(r)
        if kind == "dict":
            if via == 0:
                try:
                    del tree[k]
                    probs.append(("ret/delete-missing", "del of a missing key did not raise KeyError"))
                except KeyError:
                    pass
            elif via == 1:
                old = tree.delete_key(k)
                if old is not None:
                    probs.append(("ret/delete-missing", "delete_key(missing) returned %r" % (old,)))
            else:
                try:
                    tree.delete_exact(bt.KV(k, None))
                    probs.append(("ret/delete-exact-missing", "delete_exact(missing) did not raise"))
                except ValueError:
                    pass
        else:
            if via == 0:
                tree.discard(k)
            else:
                try:
                    tree.remove(k)
                    probs.append(("ret/remove-missing", "remove(missing) did not raise KeyError"))
                except KeyError:
                    pass
    elif o == "x":
        # delete_exact with an equal-keyed but different element object: must refuse
        k = model.ks[r]
        try:
            tree.delete_exact(bt.KV(k, None) if kind == "dict" else bt.Member(k))
            probs.append(("ret/delete-exact-other", "delete_exact(other object) did not raise"))
        except ValueError:
            pass
    else:
        raise AssertionError(op)
    return probs


def ops_for(n, N, with_replace=True, with_x=False):
    ops = []
    if n < N:
        ops += [("i", g) for g in range(n + 1)]
    ops += [("d", r) for r in range(n)]
    ops += [("m", g) for g in range(n + 1)]
    if with_replace:
        ops += [("r", r) for r in range(n)]
    if with_x:
        ops += [("x", r) for r in range(n)]
    return ops


def build(kind, t, in_order, history):
    """`dictchain`: after every operation the tree is frozen and replaced by a clone of
    itself, i.e. every operation runs on a tree that shares *all* its nodes with a frozen
    predecessor (the way the versions of a B-tree zone share structure)."""
    tree = new_tree(kind, t, in_order)
    model = Model()
    k = "dict" if kind == "dictchain" else kind
    for op in history:
        apply_op(k, tree, model, tuple(op))
        if kind == "dictchain":
            tree.make_immutable()
            prev, tree = tree, copy.copy(tree)
            tree._verif_pred = prev      # harness-only reference to the frozen predecessor
    return tree, model


def shape(node):
    if node.is_leaf:
        return len(node.elts)
    return tuple(shape(c) for c in node.children)


def check_tree(kind, tree, model, t, probs, tag=""):
    """Structural invariants + agreement with the model."""
    ks = model.ks
    # structure
    depths = set()
    inorder = []
    count = [0]

    if tree.t != t:
        probs.append((tag + "invariant/branching-factor", "tree.t is %r, the tree was created with t=%d" % (tree.t, t)))

    def walk(node, depth, is_root):
        ne = len(node.elts)
        count[0] += ne
        if node.t != t:
            probs.append((tag + "invariant/node-branching-factor", "a node has t=%r in a tree created with t=%d" % (node.t, t)))
        if ne > 2 * t - 1:
            probs.append((tag + "invariant/overfull", "node with %d keys (max %d)" % (ne, 2 * t - 1)))
        if not is_root and ne < t - 1:
            probs.append((tag + "invariant/underfull", "non-root node with %d keys (min %d)" % (ne, t - 1)))
        if node.is_leaf:
            depths.add(depth)
            if node.children:
                probs.append((tag + "invariant/leaf-children", "leaf with children"))
            inorder.extend(e.key() for e in node.elts)
        else:
            if len(node.children) != ne + 1:
                probs.append((tag + "invariant/children-count",
                              "internal node with %d keys and %d children" % (ne, len(node.children))))
                return
            # An internal root with 0 keys and 1 child is reachable on the unchanged tree
            # (delete of a missing key merges the root's two children and the collapse
            # only happens on a successful delete).  The property bounds non-root nodes
            # below and every node above; the root has no lower bound, so this transient
            # shape is legal and simply becomes one more explored state.
            for i, c in enumerate(node.children):
                walk(c, depth + 1, False)
                if i < ne:
                    inorder.append(node.elts[i].key())

    walk(tree.root, 0, True)
    if len(depths) > 1:
        probs.append((tag + "invariant/leaf-depth", "leaves at depths %s" % sorted(depths)))
    if inorder != ks:
        probs.append((tag + "model/structure-order",
                      "in-order traversal has %d keys, model %d (or order differs)" % (len(inorder), len(ks))))
    if len(tree) != len(ks) or count[0] != len(ks):
        probs.append((tag + "model/len", "len()=%d nodes hold %d model %d" % (len(tree), count[0], len(ks))))
    # API level
    got = list(tree)
    if got != ks:
        probs.append((tag + "model/iteration", "iteration gives %d keys, model %d (or order differs)" % (len(got), len(ks))))
    acc = []
    tree.visit_in_order(lambda e: acc.append(e.key()))
    if acc != ks:
        probs.append((tag + "model/visit_in_order", "visit_in_order disagrees with model"))
    if kind == "dict":
        for k in ks:
            try:
                v = tree[k]
            except KeyError:
                probs.append((tag + "model/lookup-missing", "present key not found"))
                continue
            if v != model.vals[k]:
                probs.append((tag + "model/lookup-value", "stale or wrong value for a key"))
        for g in range(len(ks) + 1):
            k = model.gapkey(g)
            if tree.get(k, "absent") != "absent" or k in tree:
                probs.append((tag + "model/lookup-ghost", "absent key found"))
    else:
        for k in ks:
            if k not in tree:
                probs.append((tag + "model/lookup-missing", "present key not found"))
        for g in range(len(ks) + 1):
            if model.gapkey(g) in tree:
                probs.append((tag + "model/lookup-ghost", "absent key found"))


def snapshot(tree):
    """Identity-level structural snapshot: (node, elts ids, children ids) plus element
    payloads, holding references so ids stay unique."""
    out = []

    def walk(node):
        out.append((node, tuple(node.elts), tuple(node.children), node.is_leaf, node.creator,
                    tuple((e.key(), e.value() if hasattr(e, "value") else None) for e in node.elts)))
        for c in node.children:
            walk(c)

    walk(tree.root)
    return (tree.root, tree.size, out)


def snapshot_changed(tree, snap):
    root, size, out = snap
    if tree.root is not root:
        return "root replaced"
    if tree.size != size:
        return "size changed"
    for node, elts, children, is_leaf, creator, payload in out:
        if len(node.elts) != len(elts) or any(a is not b for a, b in zip(node.elts, elts)):
            return "elements of a shared node changed"
        if len(node.children) != len(children) or any(a is not b for a, b in zip(node.children, children)):
            return "children of a shared node changed"
        if node.is_leaf != is_leaf or node.creator is not creator:
            return "node header changed"
        if tuple((e.key(), e.value() if hasattr(e, "value") else None) for e in node.elts) != payload:
            return "element payload changed"
    return None


# ---------------------------------------------------------------- cursor model
class CursorModel:
    """Position = gap index; anchor = how the position is re-found after a mutation."""

    def __init__(self, ks):
        self.ks = ks
        self.p = 0
        self.anchor = ("START",)

    def seek(self, key, before):
        self.p = bisect.bisect_left(self.ks, key) if before else bisect.bisect_right(self.ks, key)
        self.anchor = ("L" if before else "R", key)

    def seek_first(self):
        self.p = 0
        self.anchor = ("START",)

    def seek_last(self):
        self.p = len(self.ks)
        self.anchor = ("END",)

    def next(self):
        if self.p < len(self.ks):
            k = self.ks[self.p]
            self.p += 1
            self.anchor = ("R", k)
            return k
        self.anchor = ("END",)
        return None

    def prev(self):
        if self.p > 0:
            self.p -= 1
            k = self.ks[self.p]
            self.anchor = ("L", k)
            return k
        self.anchor = ("START",)
        return None

    def mutated(self, ks):
        self.ks = ks
        a = self.anchor
        if a[0] == "START":
            self.p = 0
        elif a[0] == "END":
            self.p = len(ks)
        elif a[0] == "L":
            self.p = bisect.bisect_left(ks, a[1])
        else:
            self.p = bisect.bisect_right(ks, a[1])


def ckey(e):
    return None if e is None else e.key()


def do_step(cur, cm, s):
    if s == "n":
        return ckey(cur.next()), cm.next()
    return ckey(cur.prev()), cm.prev()


def walk_all(cur, cm, direction, limit):
    got, exp = [], []
    for _ in range(limit):
        a, b = do_step(cur, cm, direction)
        got.append(a)
        exp.append(b)
        if a is None and b is None:
            break
    return got, exp


PRESTEPS = ["", "n", "p", "nn", "pp", "np", "pn"]


def probes(model):
    ps = []
    for g in range(len(model.ks) + 1):
        ps.append(model.gapkey(g))
        if g < len(model.ks):
            ps.append(model.ks[g])
    return ps


# ---------------------------------------------------------------- cases
def crash_sig(e):
    import traceback
    tb = traceback.extract_tb(e.__traceback__)
    fr = tb[-1]
    return "crash/%s@%s" % (type(e).__name__, fr.name)


def run_step(case):
    """One BFS transition: build history, apply op, check.  Returns (probs, canon)."""
    kind, t, in_order = case["kind"], case["t"], case["in_order"]
    tree, model = build(kind, t, in_order, case["history"])
    probs = []
    k = "dict" if kind == "dictchain" else kind
    pred = snap = None
    if kind == "dictchain" and case["history"]:
        # the frozen predecessor shares every node with `tree`
        pred, pred_model = tree._verif_pred, model.copy()
        snap = snapshot(pred)
    try:
        probs += apply_op(k, tree, model, tuple(case["op"]), case.get("via", 0))
        check_tree(k, tree, model, t, probs)
        if pred is not None:
            ch = snapshot_changed(pred, snap)
            if ch:
                probs.append(("cow/predecessor-changed", "operation on a clone changed its frozen predecessor: %s" % ch))
            check_tree("dict", pred, pred_model, t, probs, "predecessor/")
    except Exception as e:  # AssertionError, IndexError ... inside the implementation
        probs.append((crash_sig(e), "%s: %s" % (type(e).__name__, e)))
        return probs, None
    return probs, shape(tree.root)


def run_clone(case):
    """Freeze the state, clone it, mutate clones; originals and siblings must not move."""
    kind, t, in_order = case["kind"], case["t"], case["in_order"]
    N = case["N"]
    probs = []
    A, mA = build(kind, t, in_order, case["history"])
    A.make_immutable()
    snapA = snapshot(A)
    n = len(mA.ks)
    all_ops = ops_for(n, N + 1)
    only1 = case.get("op1")
    only2 = case.get("op2")
    for op1 in all_ops:
        if only1 is not None and tuple(only1) != op1:
            continue
        for via_clone in (0, 1):
            B = copy.copy(A) if via_clone == 0 else new_tree(kind, t, in_order, original=A)
            mB = mA.copy()
            try:
                p = apply_op(kind, B, mB, op1)
                check_tree(kind, B, mB, t, p, "clone/")
            except Exception as e:
                probs.append(("clone/" + crash_sig(e), "op1=%r: %s: %s" % (op1, type(e).__name__, e)))
                continue
            for s, w in p:
                probs.append((s, "after op1=%r on a clone: %s" % (op1, w)))
            ch = snapshot_changed(A, snapA)
            if ch:
                probs.append(("cow/original-changed", "op1=%r on a clone: frozen original: %s" % (op1, ch)))
                A, mA = build(kind, t, in_order, case["history"])
                A.make_immutable()
                snapA = snapshot(A)
        # sibling and descendant isolation
        snapB = snapshot(B)
        n1 = len(mB.ks)
        r1 = op1[1]
        if n <= case.get("full2_upto", 7):
            ops2 = ops_for(n, N + 1)
            ops2d = ops_for(n1, N + 2)
        else:
            near = lambda ops: [o for o in ops if abs(o[1] - r1) <= 1 or o[1] == 0 or o[1] >= n - 1]
            ops2 = near(ops_for(n, N + 1))
            ops2d = near(ops_for(n1, N + 2))
        for op2 in ops2:
            if only2 is not None and (tuple(only2[1]) != op2 or only2[0] != "sib"):
                continue
            C = new_tree(kind, t, in_order, original=A)
            mC = mA.copy()
            try:
                p = apply_op(kind, C, mC, op2)
                check_tree(kind, C, mC, t, p, "clone2/")
            except Exception as e:
                probs.append(("clone2/" + crash_sig(e), "op2=%r: %s" % (op2, e)))
                continue
            probs += [(s, "sibling clone after %r: %s" % (op2, w)) for s, w in p]
            ch = snapshot_changed(B, snapB)
            if ch:
                probs.append(("cow/sibling-changed", "op1=%r on B then op2=%r on C: B: %s" % (op1, op2, ch)))
                snapB = snapshot(B)
            ch = snapshot_changed(A, snapA)
            if ch:
                probs.append(("cow/original-changed", "op2=%r on second clone: %s" % (op2, ch)))
                snapA = snapshot(A)
        B.make_immutable()
        for op2 in ops2d:
            if only2 is not None and (tuple(only2[1]) != op2 or only2[0] != "desc"):
                continue
            D = copy.copy(B)
            mD = mB.copy()
            try:
                p = apply_op(kind, D, mD, op2)
                check_tree(kind, D, mD, t, p, "clone3/")
            except Exception as e:
                probs.append(("clone3/" + crash_sig(e), "op2=%r: %s" % (op2, e)))
                continue
            probs += [(s, "grandchild clone after %r,%r: %s" % (op1, op2, w)) for s, w in p]
            ch = snapshot_changed(B, snapB)
            if ch:
                probs.append(("cow/parent-changed", "op1=%r then freeze, op2=%r on its clone: %s" % (op1, op2, ch)))
                snapB = snapshot(B)
            ch = snapshot_changed(A, snapA)
            if ch:
                probs.append(("cow/original-changed", "grandchild op2=%r: %s" % (op2, ch)))
                snapA = snapshot(A)
    # frozen tree rejects every mutator
    probs += frozen_rejects(kind, A, mA, snapA)
    # cloning a mutable tree is refused
    M, _ = build(kind, t, in_order, case["history"])
    try:
        new_tree(kind, t, in_order, original=M)
        probs.append(("frozen/clone-of-mutable", "cloning a mutable tree was accepted"))
    except ValueError:
        pass
    return probs


def frozen_rejects(kind, A, mA, snapA):
    probs = []
    n = len(mA.ks)
    newk = mA.gapkey(0)
    calls = []
    if kind == "dict":
        calls.append(("setitem-new", lambda: A.__setitem__(newk, 1)))
        calls.append(("insert_element", lambda: A.insert_element(bt.KV(newk, 1))))
        calls.append(("setdefault-new", lambda: A.setdefault(newk, 1)))
        calls.append(("update", lambda: A.update({newk: 1})))
        calls.append(("delete_key-missing", lambda: A.delete_key(newk)))
        if n:
            k0 = mA.ks[0]
            calls.append(("setitem-existing", lambda: A.__setitem__(k0, 1)))
            calls.append(("delitem", lambda: A.__delitem__(k0)))
            calls.append(("pop", lambda: A.pop(k0)))
            calls.append(("popitem", lambda: A.popitem()))
            calls.append(("clear", lambda: A.clear()))
            calls.append(("delete_key", lambda: A.delete_key(k0)))
            calls.append(("delete_exact", lambda: A.delete_exact(A.get_element(k0))))
    else:
        calls.append(("add", lambda: A.add(newk)))
        calls.append(("ior", lambda: A.__ior__({newk})))
        calls.append(("discard-missing", lambda: A.discard(newk)))
        if n:
            k0 = mA.ks[0]
            calls.append(("discard", lambda: A.discard(k0)))
            calls.append(("remove", lambda: A.remove(k0)))
            calls.append(("pop", lambda: A.pop()))
            calls.append(("clear", lambda: A.clear()))
            calls.append(("isub", lambda: A.__isub__({k0})))
    for name, fn in calls:
        try:
            fn()
            probs.append(("frozen/accepted-" + name, "mutator %s did not raise on a frozen tree" % name))
        except bt.Immutable:
            pass
        ch = snapshot_changed(A, snapA)
        if ch:
            probs.append(("frozen/changed-by-" + name, ch))
            break
    return probs


def run_cursor(case):
    """Static cursor semantics at one state: every probe x before x step pattern."""
    kind, t, in_order = case["kind"], case["t"], case["in_order"]
    probs = []
    tree, model = build(kind, t, in_order, case["history"])
    ks = model.ks
    n = len(ks)
    L = case.get("L", 4)
    pats = ["".join(p) for p in itertools.product("np", repeat=L)]
    starts = [("seek", k, b) for k in probes(model) for b in (True, False)]
    starts += [("first",), ("last",)]
    for st in starts:
        for pat in ["N", "P"] + pats:
            cur = tree.cursor()
            cm = CursorModel(ks)
            try:
                if st[0] == "seek":
                    cur.seek(st[1], st[2])
                    cm.seek(st[1], st[2])
                elif st[0] == "first":
                    cur.seek_first()
                    cm.seek_first()
                else:
                    cur.seek_last()
                    cm.seek_last()
                if pat == "N":
                    got, exp = walk_all(cur, cm, "n", n + 2)
                elif pat == "P":
                    got, exp = walk_all(cur, cm, "p", n + 2)
                else:
                    got, exp = [], []
                    for s in pat:
                        a, b = do_step(cur, cm, s)
                        got.append(a)
                        exp.append(b)
            except Exception as e:
                probs.append(("cursor/" + crash_sig(e), "start=%r pattern=%s: %s: %s" % (st[:1] + st[2:], pat, type(e).__name__, e)))
                continue
            if got != exp:
                rk = lambda seq: [None if x is None else ks.index(x) for x in seq]
                probs.append(("cursor/walk", "start=%s rank-of-key=%s before=%s pattern=%s: got ranks %s expected %s" % (
                    st[0], (bisect.bisect_left(ks, st[1]), st[1] in model.vals) if st[0] == "seek" else None,
                    st[2] if st[0] == "seek" else None, pat, rk(got), rk(exp))))
                if len(probs) > 5:
                    return probs
    return probs


def run_parked(case):
    """Registered cursors parked across one (or two) mutations, then resumed."""
    kind, t, in_order = case["kind"], case["t"], case["in_order"]
    N = case["N"]
    probs = []
    _, model0 = build(kind, t, in_order, case["history"])
    n = len(model0.ks)
    muts = [(op,) for op in ops_for(n, N + 1)]
    if case.get("double"):
        muts += [(a, b) for a in ops_for(n, N + 1) for b in [("i", 0), ("d", 0), ("i", a[1]), ("d", max(0, a[1] - 1))]
                 if not (b[0] == "d" and (n + (1 if a[0] == "i" else -1 if a[0] == "d" else 0)) <= b[1])]
    only = case.get("mut")
    for mut in muts:
        if only is not None and tuple(tuple(x) for x in only) != mut:
            continue
        tree, model = build(kind, t, in_order, case["history"])
        starts = [("seek", k, b) for k in probes(model) for b in (True, False)] + [("first",), ("last",)]
        curs = []
        try:
            for st in starts:
                for pre in PRESTEPS:
                    for resume in "np":
                        cur = tree.cursor()
                        cur.__enter__()
                        cm = CursorModel(model.ks)
                        if st[0] == "seek":
                            cur.seek(st[1], st[2])
                            cm.seek(st[1], st[2])
                        elif st[0] == "first":
                            cur.seek_first()
                            cm.seek_first()
                        else:
                            cur.seek_last()
                            cm.seek_last()
                        for s in pre:
                            do_step(cur, cm, s)
                        curs.append((cur, cm, st, pre, resume))
            for op in mut:
                apply_op(kind, tree, model, op)
            newks = list(model.ks)
            for cur, cm, st, pre, resume in curs:
                cm.mutated(newks)
                got, exp = walk_all(cur, cm, resume, len(newks) + 2)
                if got != exp:
                    def rk(seq):
                        return [None if x is None else newks.index(x) if x in newks else "gone" for x in seq]
                    probs.append(("cursor/parked", "start=%s before=%s presteps=%r mutation=%r resume=%s: got ranks %s expected %s" % (
                        st[0], st[2] if st[0] == "seek" else None, pre, mut, resume, rk(got), rk(exp))))
                    break
                cur.__exit__(None, None, None)
            if tree.cursors and not probs:
                probs.append(("cursor/deregister", "%d cursors still registered after exit" % len(tree.cursors)))
        except Exception as e:
            probs.append(("cursor-parked/" + crash_sig(e), "mutation=%r: %s: %s" % (mut, type(e).__name__, e)))
        if len(probs) > 3:
            break
    return probs


RUNNERS = {"step": lambda c: run_step(c)[0], "clone": run_clone, "cursor": run_cursor, "parked": run_parked}


def recheck(case):
    return [("C19/" + s, w) for s, w in RUNNERS[case["mode"]](case)]


# ---------------------------------------------------------------- exploration
def expand(state, col):
    cfg, history = state
    kind, t, in_order, N, Nclone, Ncur, Npark = cfg
    base = {"kind": kind, "t": t, "in_order": in_order, "N": N, "history": list(history)}
    tree, model = build(kind, t, in_order, history)
    n = len(model.ks)
    height = 0
    nd = tree.root
    while not nd.is_leaf:
        nd = nd.children[0]
        height += 1
    col.max("max_height", height)
    col.max("max_keys", n)
    col.nontrivial(("state", cfg[:3], shape(tree.root)))
    if n >= 1:
        col.sample({"kind": kind, "t": t, "in_order": in_order, "history": list(history),
                    "shape": repr(shape(tree.root))}, limit=2)
    # transitions
    for op in ops_for(n, N, with_replace=True, with_x=True):
        vias = (0, 1, 2) if (kind in ("dict", "dictchain") and op[0] in "dm") else (0, 1) if op[0] in "irdm" else (0,)
        if kind == "dictchain":
            vias = (0,)
        for via in vias:
            case = dict(base, mode="step", op=list(op), via=via)
            probs, canon = run_step(case)
            col.count("evaluations")
            col.outcome("step:%s:%s" % (op[0], "ok" if not probs else probs[0][0]))
            for s, w in probs:
                col.violation("C19/" + s, w, case)
            if canon is not None and via == 0 and op[0] in "idm":
                yield (cfg[:3], canon), (cfg, history + (op,))
    if kind == "dictchain":
        return
    if n <= Nclone:
        case = dict(base, mode="clone")
        probs = run_clone(case)
        col.count("evaluations")
        col.count("clone_states")
        col.outcome("clone:" + ("ok" if not probs else probs[0][0]))
        for s, w in probs:
            col.violation("C19/" + s, w, case)
    if n <= Ncur:
        case = dict(base, mode="cursor")
        probs = run_cursor(case)
        col.count("evaluations")
        col.count("cursor_states")
        col.outcome("cursor:" + ("ok" if not probs else probs[0][0]))
        for s, w in probs:
            col.violation("C19/" + s, w, case)
    if n <= Npark:
        case = dict(base, mode="parked", double=(n <= 6))
        probs = run_parked(case)
        col.count("evaluations")
        col.count("parked_states")
        col.outcome("parked:" + ("ok" if not probs else probs[0][0]))
        for s, w in probs:
            col.violation("C19/" + s, w, case)


def run(ctx):
    ctx.rule = ("BFS over B-tree shapes of the real BTreeDict/BTreeSet: transitions = insert at every rank "
                "gap, delete every key, delete a missing key at every gap (all via 2-3 API routes), replace "
                "every key, delete_exact with a foreign element; canon = nested tuple of node sizes per "
                "(kind,t,in_order); a state is non-trivial/distinct = a distinct shape.  At every state up to "
                "the stated key counts: clone/freeze isolation (identity-level snapshots of original, sibling "
                "and parent clones), all cursor seek/step patterns, parked cursors across every mutation.")
    ctx.assume("keys are abstracted to ranks; sound because dns.btree only compares keys")
    ctx.assume("t in {3,4}; larger branching factors share the code but are not explored")
    if ctx.quick:
        cfgs = [("dict", 3, False, 20, 11, 20, 8), ("dict", 3, True, 19, 9, 19, 7),
                ("dict", 4, False, 17, 9, 17, 7), ("dict", 4, True, 16, 8, 16, 6),
                ("set", 3, False, 12, 8, 12, 6), ("set", 3, True, 11, 7, 11, 6),
                ("dictchain", 3, False, 18, 0, 0, 0), ("dictchain", 3, True, 15, 0, 0, 0)]
    else:
        cfgs = [("dict", 3, False, 27, 19, 27, 13), ("dict", 3, True, 25, 18, 25, 12),
                ("dict", 4, False, 24, 16, 24, 11), ("dict", 4, True, 23, 15, 23, 11),
                ("set", 3, False, 19, 12, 19, 9), ("set", 3, True, 18, 11, 18, 9),
                ("set", 4, False, 16, 10, 16, 8),
                ("dictchain", 3, False, 24, 0, 0, 0), ("dictchain", 3, True, 22, 0, 0, 0), ("dictchain", 4, False, 20, 0, 0, 0)]
    ctx.extra["configs"] = [dict(zip(("kind", "t", "in_order", "max_keys", "clone_upto", "cursor_upto", "parked_upto"), c))
                            for c in cfgs]
    init = [((c[:3], 0), (c, ())) for c in cfgs]
    engines.bfs(ctx, init, expand)
    ctx.counts["traces_validated_against_impl"] = ctx.counts.get("evaluations", 0)
