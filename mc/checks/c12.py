"""C12: versioned-zone writers are serialized, FIFO and deadlock-free in every schedule.

Stateless exploration (mc.sched) of every interleaving, up to a preemption bound, of W
writer threads and R reader threads on the real dns.versioned.Zone / dns.btreezone.Zone
with `dns.versioned.threading` replaced by a cooperative shim.  Scheduling points: every
line of the writer-admission / commit / reader code (sys.settrace), every blocking shim
operation, and explicit points between the harness's own operations.
"""
from __future__ import annotations

import threading as real_threading

import dns.btree
import dns.btreezone
import dns.name
import dns.rdata
import dns.rdataset
import dns.rdatatype
import dns.versioned
import dns.zone

from .. import sched as S

PROPERTY = "C12"
LEVEL = "model_checking"

class SmallTZone(dns.btreezone.Zone):
    """B-tree zone with the smallest branching factor: a dozen names already make writers
    split, steal from and merge B-tree nodes that are shared with the versions readers pin."""
    map_factory = staticmethod(lambda: dns.btree.BTreeDict(t=3))


ZONE_KINDS = {"versioned": dns.versioned.Zone, "btree": dns.btreezone.Zone, "btree-small-t": SmallTZone,
              "btree-full-root": dns.btreezone.Zone, "btree-full-child": dns.btreezone.Zone,
              "btree-steal": dns.btreezone.Zone}
# filler names: 12 for the small-branching-factor zone; for the default branching factor 253 = 2t-1
# delegation points (full root of the delegation index) and 380 (root + a minimal and a full child)
NFILLS = {"btree-small-t": 12, "btree-full-root": 253, "btree-full-child": 380, "btree-steal": 380}
FULL_KINDS = ("btree-full-root", "btree-full-child", "btree-steal")


def filler(kind, i, base):
    # in the full-root zone the fillers are delegations: the delegation index (a B-tree set that,
    # unlike the node map, is not rewritten name by name at commit) then has a full root node
    if kind in FULL_KINDS:
        return dns.rdata.from_text("IN", "NS", "ns%d.other." % i)
    return dns.rdata.from_text("IN", "A", "10.%d.0.%d" % (base, i))


def trace_codes(level):
    if level == "sync":
        return []
    Z = dns.versioned.Zone
    fns = [Z.writer, Z._maybe_wakeup_one_waiter_unlocked, Z._end_write_unlocked, Z._end_write,
           Z._commit_version_unlocked, Z._commit_version, Z.reader, Z._end_read,
           Z._prune_versions_unlocked, Z._get_next_version_id,
           dns.zone.Transaction._setup_version, dns.zone.Transaction._end_transaction,
           dns.zone.WritableVersion.__init__]
    return [f.__code__ for f in fns]


def txt(s):
    return dns.rdata.from_text("IN", "TXT", '"%s"' % s)


def get_txt(txn, name):
    rds = txn.get(name, "TXT")
    if rds is None:
        return None
    return rds[0].strings[0].decode()


def get_as(txn, name):
    rds = txn.get(name, "A")
    if rds is None:
        return ""
    return "".join(sorted(r.address.split(".")[-1] for r in rds))


class Harness:
    """One execution: builds a fresh zone, W writers, R readers; collects observations."""

    def __init__(self, cfg, prefix):
        self.cfg = cfg
        kind, nw, nr, plan, level, upoints = (cfg["kind"], cfg["W"], cfg["R"], cfg["plan"],
                                              cfg["level"], cfg["upoints"])
        self.sched = S.Sched(prefix, trace_codes(level), sync_points=(level == "sync"))
        dns.versioned.threading = S.Shim(self.sched)
        try:
            z = ZONE_KINDS[kind]("example.")
            with z.writer(True) as txn:
                txn.add("@", 300, dns.rdata.from_text("IN", "SOA", ". . 1 2 3 4 5"))
                txn.add("log", 300, txt("-"))
                if kind in NFILLS:
                    for i in range(NFILLS[kind]):
                        txn.add("f%03d" % i, 300, filler(kind, i, 1))
        except BaseException:
            dns.versioned.threading = real_threading
            raise
        self.zone = z
        self.events = []     # harness marks, in global order
        self.in_write = set()
        self.reads = []
        sc = self.sched
        for w in range(nw):
            sc.spawn(self._writer_body(w + 1, plan[w], upoints), "W%d" % (w + 1))
        for r in range(nr):
            sc.spawn(self._reader_body(r + 1, upoints), "R%d" % (r + 1))

    def mark(self, *ev):
        self.events.append(ev)

    def _writer_body(self, wid, action, upoints):
        z, sc = self.zone, self.sched

        def body():
            self.mark("call", wid)
            use_with = action.endswith("-with")
            txn = z.writer()
            if self.in_write:
                sc.problem("two-writers-open", "writer %d admitted while %s still open" % (wid, sorted(self.in_write)))
            if z._version_lock.locked() and z._version_lock.owner == sc.current.tid:
                sc.problem("lock-held-after-admission", "writer %d returned from writer() holding the lock" % wid)
            self.in_write.add(wid)
            self.mark("admitted", wid)
            try:
                if upoints >= 1:
                    sc.point()
                log = get_txt(txn, "log")
                if upoints >= 2:
                    sc.point()
                txn.replace("log", 300, txt(log + str(wid)))
                txn.add("n1", 300, dns.rdata.from_text("IN", "A", "10.0.0.%d" % wid))
                if upoints >= 3:
                    sc.point()
                txn.add("n2", 300, dns.rdata.from_text("IN", "A", "10.0.0.%d" % wid))
                if self.cfg["kind"] in NFILLS:
                    NFILL = NFILLS[self.cfg["kind"]]
                    # every third filler across the whole name range: splits, steals from both
                    # sides and merges in nodes that are shared with the versions readers pin
                    if self.cfg["kind"] in FULL_KINDS:
                        # first an insert into the full (rightmost) node of the delegation index
                        # (btree-steal: first a delete in the minimal left node, which must take a
                        # name from its full right sibling)
                        if self.cfg["kind"] == "btree-steal":
                            txn.delete("f%03d" % wid)
                            txn.add("f%03d" % wid, 300, filler(self.cfg["kind"], wid, 1))
                        txn.add("f%03dy" % (NFILL - wid), 300, filler(self.cfg["kind"], wid, 3))
                        txn.delete("f%03dy" % (NFILL - wid))
                    for i in range(wid % 3, NFILL, 3):
                        txn.delete("f%03d" % i)
                    # ... and new names next to every third remaining one: inserts into (and
                    # splits of) full shared nodes
                    for i in range((wid + 1) % 3, NFILL, 3):
                        txn.add("f%03dx" % i, 300, filler(self.cfg["kind"], i, 2))
                if upoints >= 1:
                    sc.point()
            finally:
                self.in_write.discard(wid)
                self.mark("ending", wid, action)
            if action.startswith("commit"):
                if use_with:
                    txn.__exit__(None, None, None)
                else:
                    txn.commit()
            elif action.startswith("rollback"):
                txn.rollback()
            else:  # exception inside a with block
                txn.__exit__(ValueError, ValueError("boom"), None)
            self.mark("ended", wid)

        return body

    def _reader_body(self, rid, upoints):
        z, sc = self.zone, self.sched

        def body():
            self.mark("rcall", rid)
            txn = z.reader()
            self.mark("ropen", rid, frozenset(self.in_write))

            def pinned(where):
                ids = [v.id for v in z._versions]
                if txn.version.id not in ids:
                    sc.problem("reader-version-not-retained",
                               "reader %d %s: its version %d is not among the retained versions %s"
                               % (rid, where, txn.version.id, ids))

            pinned("right after reader() returned")
            a = get_as(txn, "n1")
            if upoints >= 1:
                sc.point()
            log = get_txt(txn, "log")
            if upoints >= 2:
                sc.point()
            b = get_as(txn, "n2")
            if self.cfg["kind"] in NFILLS:
                NFILL = NFILLS[self.cfg["kind"]]
                fill = sorted(str(n) for n in txn.iterate_names() if str(n).startswith("f"))
                committed = [int(ch) for ch in (log or "")[1:]]
                gone = {w % 3 for w in committed}
                added = {(w + 1) % 3 for w in committed}
                want = sorted(["f%03d" % i for i in range(NFILL) if i % 3 not in gone] +
                              ["f%03dx" % i for i in range(NFILL) if i % 3 in added])
                if self.cfg["kind"] in FULL_KINDS:
                    dele = sorted(str(n) for n in txn.version.delegations)
                    if dele != want:
                        sc.problem("reader-partial-state", "reader %d (log %r): delegation index of its version has %d names, its content %d (first difference %s)" % (
                            rid, log, len(dele), len(want), sorted(set(dele) ^ set(want))[:3]))
                if fill != want:
                    sc.problem("reader-partial-state", "reader %d (log %r) sees filler names %s, its version holds %s" % (rid, log, fill, want))
            pinned("before closing")
            txn.rollback()  # ends the read transaction
            # non-transactional single reads of the published map
            rds = z.get_rdataset("log", "TXT")
            direct = rds[0].strings[0].decode() if rds is not None else None
            self.reads.append((rid, a, log, b, direct))
            self.mark("rdone", rid)

        return body

    def run(self):
        try:
            self.sched.run()
        finally:
            dns.versioned.threading = real_threading
        return self


def judge(h):
    """Oracle for one complete execution.  Returns list of (signature, what)."""
    sc, cfg = h.sched, h.cfg
    probs = list(sc.problems)
    if sc.deadlock:
        probs.append(("deadlock", "no thread enabled; blocked threads: %s" % sc.deadlock_info))
        return probs
    for t in sc.threads:
        if t.error is not None:
            probs.append(("thread-exception/%s" % type(t.error).__name__, "%s raised %r" % (t.name, t.error)))
    if probs:
        return probs
    # arrival order: first acquisition of the version lock after each writer's call mark
    lock_id = sc.oid(h.zone._version_lock)
    wtids = {t.tid: int(t.name[1:]) for t in sc.threads if t.name.startswith("W")}
    arrival = []
    for tid, op, oid in sc.oplog:
        if op == "acq" and oid == lock_id and tid in wtids and wtids[tid] not in arrival:
            arrival.append(wtids[tid])
    admitted = [e[1] for e in h.events if e[0] == "admitted"]
    if sorted(admitted) != sorted(wtids.values()):
        probs.append(("not-all-admitted", "admitted %s of writers %s" % (admitted, sorted(wtids.values()))))
    if arrival != admitted:
        probs.append(("not-fifo", "arrival order %s but admission order %s" % (arrival, admitted)))
    # final content = serial application of committed transactions in admission order
    committed = [w for w in admitted if cfg["plan"][w - 1].startswith("commit")]
    exp_log = "-" + "".join(str(w) for w in committed)
    exp_as = "".join(sorted(str(w) for w in committed))
    z = h.zone
    with z.reader() as txn:
        log, a, b = get_txt(txn, "log"), get_as(txn, "n1"), get_as(txn, "n2")
    if (log, a, b) != (exp_log, exp_as, exp_as):
        probs.append(("final-state", "final log/n1/n2 = %r/%r/%r, serial application gives %r/%r/%r" %
                      (log, a, b, exp_log, exp_as, exp_as)))
    # zone.nodes must be the newest version's map
    if z.nodes is not z._versions[-1].nodes:
        probs.append(("published-map-stale", "zone.nodes is not the newest version's node map"))
    if z._write_txn is not None or z._write_waiters or z._readers:
        probs.append(("residue", "write_txn/waiters/readers left behind: %r %d %d" %
                      (z._write_txn, len(z._write_waiters), len(z._readers))))
    ids = [v.id for v in z._versions]
    if ids != sorted(set(ids)):
        probs.append(("version-ids", "version ids not strictly increasing: %s" % ids))
    # readers: one committed prefix each
    prefixes = {"-" + "".join(str(w) for w in committed[:i]) for i in range(len(committed) + 1)}
    for rid, a, log, b, direct in h.reads:
        exp = "".join(sorted(log[1:])) if log else None
        if log not in prefixes or a != exp or b != exp:
            probs.append(("reader-partial-state", "reader %d saw n1=%r log=%r n2=%r; committed prefixes %s" %
                          (rid, a, log, b, sorted(prefixes))))
        if direct not in prefixes:
            probs.append(("direct-read-uncommitted", "zone.get_rdataset saw log=%r" % (direct,)))
    return probs


def run_one(cfg, prefix):
    h = Harness(cfg, prefix).run()
    return h, judge(h)


def recheck(case):
    cfg = case["cfg"]
    h, probs = run_one(cfg, case["choices"])
    return [("C12/" + s, w) for s, w in probs]


def _explore_task(task, col):
    cfg, prefix, bound = task
    outcomes = set()

    def make(pfx):
        h, probs = run_one(cfg, pfx)
        sc = h.sched
        col.count("evaluations")
        col.count("transitions", sc.npoints)
        col.max("max_depth", len(sc.choices))
        adm = tuple(e[1] for e in h.events if e[0] == "admitted")
        key = (cfg["name"], adm, tuple(sorted(h.reads)))
        col.nontrivial(key)
        col.outcome("%s adm=%s reads=%s" % (cfg["name"], "".join(map(str, adm)),
                                            ",".join(sorted(set(r[2] or "?" for r in h.reads)))))
        for s, w in probs:
            col.violation("C12/" + s, "%s (config %s, schedule %s)" % (w, cfg["name"], sc.choices),
                          {"cfg": cfg, "choices": list(sc.choices)})
        return sc

    n, complete = S.explore(make, bound, prefix)
    if not complete:
        col.cap("execution cap hit in %s" % cfg["name"])


def explore_config(ctx, cfg, bound, collect=None):
    # run the root execution and shard its children over the pool
    h, probs = run_one(cfg, [])
    sc = h.sched
    ctx.count("evaluations")
    ctx.count("transitions", sc.npoints)
    for s, w in probs:
        ctx.violation("C12/" + s, "%s (config %s, default schedule)" % (w, cfg["name"]),
                      {"cfg": cfg, "choices": list(sc.choices)})
    ctx.sample({"config": cfg["name"], "default_schedule_choices": list(sc.choices),
                "events": [list(map(str, e)) for e in h.events][:20], "points": sc.npoints}, limit=8)
    kids = S.children(sc, [], bound)
    tasks = [(cfg, k, bound) for k in kids]
    if collect is not None:
        collect.extend(tasks)
    else:
        ctx.pmap(_explore_task, tasks)


def free_running(ctx, iters):
    """Same bodies under the real threading module (no scheduler): the shim must not
    have masked a dependency on real lock semantics.  Supplementary, not deciding."""
    import dns.versioned as dv
    assert dv.threading is real_threading
    bad = 0
    for it in range(iters):
        z = dns.versioned.Zone("example.")
        with z.writer() as txn:
            txn.add("@", 300, dns.rdata.from_text("IN", "SOA", ". . 1 2 3 4 5"))
            txn.add("log", 300, txt("-"))
        order = []

        def w(wid):
            with z.writer() as txn:
                log = get_txt(txn, "log")
                txn.replace("log", 300, txt(log + str(wid)))
                txn.add("n1", 300, dns.rdata.from_text("IN", "A", "10.0.0.%d" % wid))
                order.append(wid)

        ths = [real_threading.Thread(target=w, args=(i + 1,)) for i in range(4)]
        for t in ths:
            t.start()
        for t in ths:
            t.join(10)
        with z.reader() as txn:
            log = get_txt(txn, "log")
        if log != "-" + "".join(map(str, order)) or len(order) != 4:
            bad += 1
    ctx.extra["free_running_iterations"] = iters
    if bad:
        ctx.violation("C12/free-running/lost-update", "%d of %d free-running iterations lost an update" % (bad, iters),
                      {"cfg": None, "choices": []})


def configs(ctx):
    out = []

    def add(kind, W, R, plan, level, upoints, bound):
        name = "%s W%d R%d %s %s u%d b%d" % (kind, W, R, "/".join(plan), level, upoints, bound)
        out.append(({"name": name, "kind": kind, "W": W, "R": R, "plan": list(plan), "level": level,
                     "upoints": upoints}, bound))

    if ctx.quick:
        for plan in (("commit", "commit"), ("rollback", "commit"), ("commit-with", "raise-with"), ("rollback", "rollback")):
            add("versioned", 2, 0, plan, "line", 1, 2)
        add("versioned", 3, 0, ("commit", "commit", "commit"), "line", 1, 1)
        add("versioned", 2, 1, ("commit", "rollback"), "line", 1, 1)
        add("versioned", 3, 0, ("commit", "rollback", "commit-with"), "sync", 1, 3)
        add("versioned", 3, 1, ("commit-with", "raise-with", "commit"), "sync", 0, 2)
        # a reader that comes and goes while one writer is open and two are queued
        add("versioned", 3, 1, ("commit", "commit", "commit"), "sync", 1, 1)
        add("btree", 3, 0, ("commit", "commit", "rollback"), "line", 1, 1)
        add("btree-small-t", 2, 1, ("commit", "rollback"), "sync", 2, 2)
        add("btree-full-root", 1, 1, ("commit",), "sync", 2, 2)
        add("btree-full-child", 1, 1, ("rollback",), "sync", 2, 2)
        add("btree-steal", 1, 1, ("commit",), "sync", 2, 2)
    else:
        add("versioned", 3, 0, ("commit", "commit", "commit"), "line", 0, 2)
        add("versioned", 3, 0, ("commit", "rollback", "commit-with"), "line", 1, 2)
        for plan in (("commit", "commit"), ("rollback", "commit"), ("commit-with", "raise-with"), ("rollback", "rollback")):
            add("versioned", 2, 0, plan, "line", 2, 3)
        add("versioned", 2, 1, ("commit", "rollback"), "line", 1, 2)
        add("versioned", 2, 1, ("rollback", "commit"), "line", 1, 2)
        add("versioned", 3, 1, ("commit", "commit", "rollback"), "line", 1, 1)
        add("versioned", 2, 2, ("commit", "commit"), "line", 1, 1)
        add("versioned", 4, 0, ("commit", "rollback", "commit", "commit"), "line", 0, 1)
        add("versioned", 4, 0, ("commit", "rollback", "commit", "commit"), "sync", 1, 2)
        add("versioned", 3, 1, ("commit-with", "raise-with", "commit"), "sync", 2, 2)
        add("versioned", 5, 0, ("commit",) * 5, "sync", 0, 1)
        add("btree", 3, 1, ("commit", "commit", "rollback"), "line", 1, 1)
        add("btree", 3, 0, ("commit", "commit", "commit"), "line", 0, 2)
        add("btree-small-t", 3, 1, ("commit", "rollback", "commit"), "sync", 2, 2)
        add("btree-small-t", 2, 2, ("commit", "commit"), "sync", 2, 2)
        add("btree-full-root", 2, 1, ("commit", "rollback"), "sync", 2, 2)
        add("btree-full-child", 2, 1, ("rollback", "commit"), "sync", 2, 2)
        add("btree-full-child", 1, 2, ("commit",), "sync", 2, 2)
        add("btree-steal", 2, 1, ("commit", "rollback"), "sync", 2, 2)
    return out


def run(ctx):
    ctx.rule = ("every schedule (DFS over choice prefixes, iterative preemption bounding) of W writer and R "
                "reader threads on the real versioned zone; scheduling points = each line of the admission/"
                "commit/reader code, blocking lock/event operations, explicit points between harness "
                "operations; distinct = distinct (config, admission order, reader observations)")
    ctx.assume("CPython: a source line of the traced functions is treated as atomic (finer than the GIL's bytecode atomicity is not modelled)")
    ctx.assume("bounded threads (<= 5 writers, <= 2 readers) and preemptions (<= bound per config)")
    cfgs = configs(ctx)
    ctx.extra["configs"] = [dict(c, preemption_bound=b) for c, b in cfgs]
    tasks = []
    for cfg, bound in cfgs:
        explore_config(ctx, cfg, bound, tasks)
    # one pool over the DFS shards of all configurations (better balance); biggest first
    tasks.sort(key=lambda t: len(t[1]))
    ctx.pmap(_explore_task, tasks)
    free_running(ctx, ctx.pick(150, 1500))
    ctx.counts["states"] = ctx.counts.get("evaluations", 0)
    ctx.extra["states_note"] = "stateless search: states = complete executions (schedules); transitions = scheduling points executed"
    ctx.counts["traces_validated_against_impl"] = ctx.counts.get("evaluations", 0)
