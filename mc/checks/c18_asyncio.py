"""C18, asyncio-backend part: the real dns._asyncio_backend socket classes (their timeout
handling included) under a *virtual-time* asyncio event loop.

The loop is a stock SelectorEventLoop whose selector never touches the OS: select(timeout)
advances the virtual clock by `timeout` and returns no events, so timers (asyncio.wait_for,
call_at) fire deterministically and nothing ever sleeps.  Datagrams / stream chunks are
delivered by call_at at scripted virtual times.  The oracle is the one of the main C18
check (mc.refs.netmodel): acceptance predicate, option table, deadline = error.
"""
from __future__ import annotations

import asyncio
import selectors
import socket

import dns._asyncio_backend as ab
import dns.asyncquery
import dns.exception
import dns.message

from ..refs import netmodel as nm

T0 = 1000.0


class Hang(BaseException):
    pass


class _NullSelector(selectors.BaseSelector):
    """No file descriptors, no sleeping: waiting = advancing the virtual clock."""

    def __init__(self, clock):
        self.clock = clock
        self._map = {}

    def register(self, fileobj, events, data=None):
        key = selectors.SelectorKey(fileobj, 0, events, data)
        self._map[fileobj] = key
        return key

    def unregister(self, fileobj):
        return self._map.pop(fileobj, None)

    def modify(self, fileobj, events, data=None):
        return self.register(fileobj, events, data)

    def select(self, timeout=None):
        if timeout is None:
            raise Hang("the event loop has nothing scheduled: the coroutine waits forever")
        if timeout > 0:
            self.clock.now += timeout
        return []

    def get_map(self):
        return self._map

    def close(self):
        self._map.clear()


class VirtualLoop(asyncio.SelectorEventLoop):
    def __init__(self, clock):
        self.vclock = clock
        super().__init__(_NullSelector(clock))

    def time(self):
        return self.vclock.now

    def _make_self_pipe(self):      # no self-pipe: nothing outside the loop wakes it
        self._ssock = self._csock = None
        self._internal_fds = 0

    def _close_self_pipe(self):
        pass

    def _write_to_self(self):
        pass


class FakeTransport:
    def __init__(self, peer):
        self.sent = []
        self.peer = peer
        self.closed = False

    def sendto(self, data, addr=None):
        self.sent.append((bytes(data), addr))

    def get_extra_info(self, name, default=None):
        return self.peer if name == "peername" else default

    def close(self):
        self.closed = True

    def is_closing(self):
        return self.closed


class TrackedDatagramSocket(ab._DatagramSocket):
    """The real backend datagram socket; only bookkeeping is added."""

    def __init__(self, family, transport, protocol):
        super().__init__(family, transport, protocol)
        self.i = 0
        self.last = None
        self.max_asked = -1

    async def recvfrom(self, size, timeout):
        self.max_asked = max(self.max_asked, self.i)
        pkg = await super().recvfrom(size, timeout)
        self.last = self.i
        self.i += 1
        return pkg


class FakeWriter:
    def __init__(self, loop, stall_at=None):
        self.data = b""
        self.loop = loop
        self.closed = False

    def write(self, what):
        self.data += bytes(what)

    async def drain(self):
        return None

    def close(self):
        self.closed = True

    def get_extra_info(self, name, default=None):
        return default


def run_loop(clock, coro_factory):
    """Run one coroutine to completion on a fresh virtual loop.  Returns (value, exception)."""
    clock.now = T0
    loop = VirtualLoop(clock)
    asyncio.set_event_loop(None)
    try:
        try:
            return loop.run_until_complete(coro_factory(loop)), None
        except Hang as e:
            return None, e
        except BaseException as e:  # noqa: BLE001 - every outcome is an observation
            return None, e
    finally:
        try:
            # cancel whatever is left so that closing the loop is silent
            for t in asyncio.all_tasks(loop):
                t.cancel()
            loop._ready.clear()
            loop._scheduled.clear()
        except Exception:
            pass
        loop.close()


# ------------------------------------------------------------------ UDP
UDP_ALPHABET = ["wrong-id", "forged-addr", "garbage", "corrupt-rdata", "tc-genuine", "wrong-qname", "trailing"]
STEP = 0.3
UDP_TIMEOUTS = [None, 0.0, 0.5, 2.0]


def run_udp(c18, case):
    """case: entry (asyncio.udp | asyncio.receive_udp), seq, final, opts, timeout."""
    clock = c18.CLOCK
    c18.install()
    family, where, port, dest, srcs = c18.CONFIGS["v4"]
    seq = list(case["seq"])
    labels = seq + (["genuine"] if case["final"] == "genuine" else [])
    iu, ie, rot, it, orr = opts = tuple(bool(x) for x in case["opts"])
    timeout = case["timeout"]
    delays = [STEP] * len(labels)
    q, qwire, qinfo = c18.the_query()
    kind = "udp" if case["entry"].endswith(".udp") else "receive"
    state = {}

    def factory(loop):
        proto = ab._DatagramProtocol()
        transport = FakeTransport(dest)
        proto.connection_made(transport)
        sock = TrackedDatagramSocket(family, transport, proto)
        state["sock"], state["transport"] = sock, transport
        t = T0
        for lab in labels:
            t += STEP
            loop.call_at(t, proto.datagram_received, c18.SYMBOLS[lab][0], srcs[c18.SYMBOLS[lab][1]])
        if kind == "udp":
            return dns.asyncquery.udp(q, where, timeout, port, ignore_unexpected=iu, one_rr_per_rrset=orr,
                                      ignore_trailing=it, raise_on_truncation=rot, sock=sock, ignore_errors=ie)
        expiration = None if timeout is None else T0 + timeout
        return dns.asyncquery.receive_udp(sock, dest, expiration, ignore_unexpected=iu, one_rr_per_rrset=orr,
                                          ignore_trailing=it, raise_on_truncation=rot, ignore_errors=ie, query=q)

    value, exc = run_loop(clock, factory)
    sock = state["sock"]
    probs = []
    if exc is None:
        obs = ("return", sock.last)
    elif isinstance(exc, Hang):
        obs = ("hang",)
    else:
        obs = c18.classify(exc)
    dgrams = [(c18.INFOS[l], srcs[c18.SYMBOLS[l][1]]) for l in labels]
    if kind == "udp" and state["transport"].sent != [(qwire, dest)]:
        probs.append(("bytes-sent", "sent %r" % ([(len(w), d) for w, d in state["transport"].sent],)))
    if obs[0] == "return":
        idx = obs[1]
        info, src = dgrams[idx]
        lab = labels[idx]
        if not nm.source_ok(family, src, dest):
            probs.append(("returned-forged-source", "returned datagram %r from %r" % (lab, src)))
        elif not info.well_formed(it):
            probs.append(("returned-malformed", "returned malformed datagram %r" % lab))
        elif (kind == "udp" or ie) and not nm.genuine(qinfo, info):
            probs.append(("returned-nongenuine", "returned datagram %r which is not a response to the query" % lab))
    allowed = nm.udp_expect(kind, qinfo, family, dest, dgrams, opts, timeout, delays, True)
    if not probs and not c18.allowed_has(allowed, obs):
        n = len(seq)
        probs.append(("unexpected-outcome/want-%s/got-%s" % ("|".join(sorted({c18.oname(a, n) for a in allowed})), c18.oname(obs, n)),
                      "datagrams %r then %s (one every %.1fs), options %s, timeout %s: allowed %s, observed %s (%r)" % (
                          seq, case["final"], STEP, opts, timeout, sorted(allowed), obs, exc)))
    if obs == ("raise", "Timeout") and timeout is not None and abs(clock.now - (T0 + timeout)) > 1e-6:
        probs.append(("timeout-not-at-deadline", "Timeout raised at t=%.3f, deadline %.3f" % (clock.now - T0, timeout)))
    return [("C18/%s/%s" % (case["entry"], s), w) for s, w in probs], c18.oname(obs, len(seq))


# ------------------------------------------------------------------ TCP
def run_tcp(c18, case):
    """case: entry (asyncio.receive_tcp | asyncio.tcp), cuts (positions in the stream), end
    (more | eof | stall), timeout.  Chunk k of the stream is fed at T0 + k*STEP (k >= 0)."""
    clock = c18.CLOCK
    c18.install()
    family, where, port, dest, srcs = c18.CONFIGS["v4"]
    q, qwire, qinfo = c18.the_query()
    frame = len(c18.GENUINE).to_bytes(2, "big") + c18.GENUINE
    nxt = b"\x00\x05hello"          # start of another message: must not be consumed
    stream = frame + (nxt if case["end"] == "more" else b"")
    cuts = sorted(set(c for c in case["cuts"] if 0 < c < len(frame)))
    bounds = [0] + cuts + [len(frame)]
    chunks = [stream[bounds[i]:bounds[i + 1]] for i in range(len(bounds) - 1)]
    if case["end"] == "more":
        chunks[-1] += nxt
    if case["end"] == "eof-early":
        chunks = chunks[:-1]           # the last part of the frame never arrives, then EOF
    timeout = case["timeout"]
    state = {}

    def factory(loop):
        reader = asyncio.StreamReader(loop=loop)
        writer = FakeWriter(loop)
        sock = ab._StreamSocket(family, reader, writer)
        state["reader"], state["writer"] = reader, writer
        t = T0
        for k, ch in enumerate(chunks):
            if k == 0:
                reader.feed_data(ch)
            else:
                loop.call_at(T0 + k * STEP, reader.feed_data, ch)
        if case["end"] in ("eof", "eof-early"):
            loop.call_at(T0 + len(chunks) * STEP, reader.feed_eof)
        if case["entry"] == "asyncio.tcp":
            return dns.asyncquery.tcp(q, where, timeout, port, sock=sock)
        expiration = None if timeout is None else T0 + timeout
        return dns.asyncquery.receive_tcp(sock, expiration)

    value, exc = run_loop(clock, factory)
    probs = []
    t_done = (len(chunks) - 1) * STEP            # arrival of the last byte of the frame
    complete = case["end"] != "eof-early"
    if complete:
        t_end = t_done
        want = "return"
    else:
        t_end = len(chunks) * STEP                # EOF
        want = "EOFError"
    wants = {want}
    if timeout is not None and t_end > timeout:
        want = "Timeout"
        wants = {want}
    elif timeout is not None and t_end == timeout:
        wants = {want, "Timeout"}      # completion exactly at the deadline: either is fine
    if exc is None:
        got = "return"
        msg = value if case["entry"] == "asyncio.tcp" else value[0]
        ref_msg = dns.message.from_wire(c18.GENUINE)
        if msg != ref_msg or msg.id != ref_msg.id or msg.to_wire(want_shuffle=False) != ref_msg.to_wire(want_shuffle=False):
            probs.append(("reassembled-message-differs", "returned message is not the one that was sent"))
        if state["reader"]._buffer != (bytearray(nxt) if case["end"] == "more" else bytearray()):
            probs.append(("stream-position", "bytes left in the stream buffer %r" % bytes(state["reader"]._buffer)))
    elif isinstance(exc, Hang):
        got = "hang"
    elif isinstance(exc, dns.exception.Timeout):
        got = "Timeout"
        if abs(clock.now - (T0 + timeout)) > 1e-6:
            probs.append(("timeout-not-at-deadline", "Timeout raised at t=%.3f, deadline %.3f" % (clock.now - T0, timeout)))
    elif isinstance(exc, EOFError):
        got = "EOFError"
    else:
        got = "crash:" + type(exc).__name__
    if got not in wants:
        probs.append(("unexpected-outcome/want-%s/got-%s" % (want, got),
                      "frame of %d octets cut at %s (a chunk every %.1fs), end=%s, timeout %s: expected %s, observed %s (%r)" % (
                          len(frame), cuts, STEP, case["end"], timeout, want, got, exc)))
    if case["entry"] == "asyncio.tcp" and state["writer"].data != len(qwire).to_bytes(2, "big") + qwire:
        probs.append(("bytes-written", "wrote %d octets, expected 2+%d" % (len(state["writer"].data), len(qwire))))
    return [("C18/%s/%s" % (case["entry"], s), w) for s, w in probs], got


def run_case(c18, case):
    if case["entry"] in ("asyncio.udp", "asyncio.receive_udp"):
        return run_udp(c18, case)
    return run_tcp(c18, case)


def task(c18, arg, col):
    what = arg[0]
    if what == "udp":
        _, entry, opts = arg
        seqs = [()] + [(a,) for a in UDP_ALPHABET] + [(a, b) for a in UDP_ALPHABET for b in UDP_ALPHABET[:4]]
        for seq in seqs:
            for final in ("genuine", "silence"):
                for timeout in UDP_TIMEOUTS:
                    if timeout is None and final == "silence":
                        continue
                    case = {"mode": "asyncio", "entry": entry, "seq": list(seq), "final": final, "opts": list(opts),
                            "timeout": timeout}
                    probs, out = run_udp(c18, case)
                    col.count("evaluations")
                    col.count("asyncio_udp_cases")
                    col.nontrivial(("asyncio", entry, opts, seq, final, timeout))
                    col.outcome("asyncio-udp:" + out)
                    for s, w in probs:
                        col.violation(s, w, case)
    else:
        _, entry = arg
        n = 2 + len(c18.GENUINE)
        cutsets = [()] + [(a,) for a in range(1, n)] + [(a, b) for a in (1, 2, 3, 7) for b in range(a + 1, n, 5)]
        for cuts in cutsets:
            for end in ("more", "eof", "eof-early"):
                for timeout in (None, 0.0, 0.5, 0.8, 5.0):
                    case = {"mode": "asyncio", "entry": entry, "cuts": list(cuts), "end": end, "timeout": timeout}
                    probs, out = run_tcp(c18, case)
                    col.count("evaluations")
                    col.count("asyncio_tcp_cases")
                    col.nontrivial(("asyncio", entry, cuts, end, timeout))
                    col.outcome("asyncio-tcp:" + out)
                    for s, w in probs:
                        col.violation(s, w, case)
