"""C17: resolver caches never serve stale data, honour the LRU bound, are linearizable.

(a) Sequential: complete explicit-state BFS over histories of get/put/flush/resize/clock
    events on the real dns.resolver.Cache and LRUCache with a virtual clock, compared
    step by step with a boring reference model (dict + recency list).
(b) Concurrent: every schedule (mc.sched, preemption-bounded, line-level points inside
    all cache methods) of 2-3 threads x 1-3 operations on colliding keys; every
    complete call/return history must be linearizable w.r.t. the reference model.
"""
from __future__ import annotations

import itertools
import threading as real_threading
import time as real_time

import dns.message
import dns.name
import dns.rdata
import dns.rdataclass
import dns.rdatatype
import dns.resolver
import dns.rrset

from .. import engines
from .. import sched as S

PROPERTY = "C17"
LEVEL = "model_checking"


class Clock:
    """Stand-in for the `time` module inside dns.resolver."""

    def __init__(self):
        self.now = 1000.0

    def time(self):
        return self.now

    def sleep(self, s):
        self.now += s

    def __getattr__(self, name):
        return getattr(real_time, name)


KEYS = [(dns.name.from_text("k%d.example." % i), dns.rdatatype.A, dns.rdataclass.IN) for i in range(3)]
_RESP = {}


def make_answer(k, ttl):
    """A real dns.resolver.Answer whose expiration is computed by the library from the TTL."""
    name = KEYS[k][0]
    key = (k, ttl)
    r = _RESP.get(key)
    if r is None:
        q = dns.message.make_query(name, "A")
        r = dns.message.make_response(q)
        r.find_rrset(r.answer, name, dns.rdataclass.IN, dns.rdatatype.A, create=True).update_ttl(ttl)
        rr = r.find_rrset(r.answer, name, dns.rdataclass.IN, dns.rdatatype.A)
        rr.add(dns.rdata.from_text("IN", "A", "10.0.0.%d" % (k + 1)), ttl)
        _RESP[key] = r
    return dns.resolver.Answer(name, dns.rdatatype.A, dns.rdataclass.IN, r)


# ------------------------------------------------------------------ reference model
class RefCache:
    """Reference for both caches.  lru=None: unbounded; else list = recency (MRU first)."""

    def __init__(self, lru, max_size=None):
        self.lru = lru
        self.max_size = max_size
        self.data = {}      # key index -> (value, expiration)
        self.order = []     # MRU first (lru only)
        self.hits = 0
        self.misses = 0
        self.khits = {}

    def copy(self):
        m = RefCache(self.lru, self.max_size)
        m.data = dict(self.data)
        m.order = list(self.order)
        m.hits, m.misses = self.hits, self.misses
        m.khits = dict(self.khits)
        return m

    def get(self, k, now):
        e = self.data.get(k)
        if e is None:
            self.misses += 1
            return None
        if e[1] <= now:
            # expired: a miss.  The LRU cache also drops the entry.
            self.misses += 1
            if self.lru:
                del self.data[k]
                self.order.remove(k)
                self.khits.pop(k, None)
            return None
        self.hits += 1
        if self.lru:
            self.order.remove(k)
            self.order.insert(0, k)
            self.khits[k] = self.khits.get(k, 0) + 1
        return e[0]

    def put(self, k, v, exp):
        if self.lru:
            if k in self.data:
                del self.data[k]
                self.order.remove(k)
            while len(self.data) >= self.max_size:
                old = self.order.pop()
                del self.data[old]
                self.khits.pop(old, None)
            self.order.insert(0, k)
            self.khits[k] = 0
        self.data[k] = (v, exp)

    def flush(self, k):
        if k is None:
            self.data = {}
            self.order = []
            self.khits = {}
        elif k in self.data:
            del self.data[k]
            if self.lru:
                self.order.remove(k)
                self.khits.pop(k, None)

    def set_max_size(self, n):
        self.max_size = max(1, n)

    def hits_for_key(self, k, now):
        e = self.data.get(k)
        if e is None or e[1] <= now:
            return 0
        return self.khits.get(k, 0)

    def reset(self):
        self.hits = self.misses = 0


# ------------------------------------------------------------------ sequential BFS
HALF_TICKS = [False]


def seq_events(lru):
    ev = []
    for k in range(3):
        ev.append(("get", k))
        for ttl in (0, 1, 2):
            ev.append(("put", k, ttl))
        ev.append(("flush", k))
    ev.append(("flush", None))
    ev.append(("tick", 1))
    if HALF_TICKS[0]:
        ev.append(("tick", 0.5))
    ev.append(("reset",))
    if lru:
        for n in (1, 2, 3):
            ev.append(("resize", n))
        ev.append(("resize", 0))
        for k in range(3):
            ev.append(("khits", k))
    return ev


def new_cache(lru, clock):
    dns.resolver.time = clock
    if lru:
        return dns.resolver.LRUCache(max_size=2), RefCache(True, 2)
    return dns.resolver.Cache(cleaning_interval=2.0), RefCache(False)


def apply_event(cache, model, clock, ev, probs):
    """Apply one event to the real cache and the model, compare observations."""
    op = ev[0]
    if op == "get":
        before = (cache.hits(), cache.misses())
        got = cache.get(KEYS[ev[1]])
        exp = model.get(ev[1], clock.now)
        after = (cache.hits(), cache.misses())
        if got is not None and got.expiration <= clock.now:
            probs.append(("stale-answer", "get returned an answer whose expiration %.1f <= now %.1f" % (got.expiration, clock.now)))
        if got is not exp:
            if got is None:
                probs.append(("lost-entry", "get returned None but the latest unexpired stored answer exists"))
            elif exp is None:
                probs.append(("ghost-entry", "get returned an answer the model says was expired/flushed/evicted"))
            else:
                probs.append(("superseded-entry", "get returned an older answer than the last one stored"))
        dh, dm = after[0] - before[0], after[1] - before[1]
        want = (1, 0) if got is not None else (0, 1)
        if (dh, dm) != want:
            probs.append(("counters", "one get changed hits/misses by %s, expected %s" % ((dh, dm), want)))
    elif op == "put":
        v = make_answer(ev[1], ev[2])
        if v.expiration != clock.now + ev[2]:
            probs.append(("answer-expiration", "Answer.expiration %r != now + ttl" % v.expiration))
        cache.put(KEYS[ev[1]], v)
        model.put(ev[1], v, clock.now + ev[2])
        if model.lru and len(cache.data) > cache.max_size:
            probs.append(("lru-bound", "%d entries after put with max_size %d" % (len(cache.data), cache.max_size)))
    elif op == "flush":
        cache.flush(None if ev[1] is None else KEYS[ev[1]])
        model.flush(ev[1])
    elif op == "tick":
        clock.now += ev[1]
    elif op == "reset":
        cache.reset_statistics()
        model.reset()
    elif op == "resize":
        cache.set_max_size(ev[1])
        model.set_max_size(ev[1])
    elif op == "khits":
        got = cache.get_hits_for_key(KEYS[ev[1]])
        exp = model.hits_for_key(ev[1], clock.now)
        if got != exp:
            probs.append(("key-hits", "get_hits_for_key=%d model %d" % (got, exp)))
    # a snapshot is a value: one taken earlier must not move when the cache is used again
    prev = getattr(model, "_held_snapshot", None)
    if prev is not None and (prev[0].hits, prev[0].misses) != prev[1]:
        probs.append(("snapshot-not-a-copy", "a statistics snapshot taken earlier changed from %s to %s after further use" % (
            prev[1], (prev[0].hits, prev[0].misses))))
    snap = cache.get_statistics_snapshot()
    model._held_snapshot = (snap, (snap.hits, snap.misses))
    if (snap.hits, snap.misses) != (model.hits, model.misses):
        probs.append(("counters", "hits/misses %d/%d model %d/%d" % (snap.hits, snap.misses, model.hits, model.misses)))
    if (cache.hits(), cache.misses()) != (snap.hits, snap.misses):
        probs.append(("counters", "hits()/misses() disagree with snapshot"))


def check_internal(cache, model, clock, probs):
    """Ring and dict of the LRU agree with each other and with the model's recency."""
    kidx = {k: i for i, k in enumerate(KEYS)}
    if model.lru:
        fwd, node, n = [], cache.sentinel.next, 0
        while node is not cache.sentinel and n < 10:
            fwd.append(kidx.get(node.key, "?"))
            node = node.next
            n += 1
        bwd, node, n = [], cache.sentinel.prev, 0
        while node is not cache.sentinel and n < 10:
            bwd.append(kidx.get(node.key, "?"))
            node = node.prev
            n += 1
        if fwd != list(reversed(bwd)):
            probs.append(("ring-inconsistent", "forward ring %s, backward ring %s" % (fwd, bwd)))
        if sorted(map(str, fwd)) != sorted(str(kidx[k]) for k in cache.data):
            probs.append(("ring-dict-disagree", "ring keys %s, dict keys %s" % (fwd, sorted(kidx[k] for k in cache.data))))
        if fwd != model.order:
            probs.append(("recency-order", "ring (MRU first) %s, model %s" % (fwd, model.order)))
        for k, nd in cache.data.items():
            if nd.key != k or nd.value is not model.data.get(kidx[k], (None,))[0]:
                probs.append(("dict-node-mismatch", "dict entry does not hold the model's value"))
    else:
        # the simple cache may keep expired entries until cleaned, never unexpired extras
        for k, v in cache.data.items():
            m = model.data.get(kidx[k])
            if m is None or m[0] is not v:
                if v.expiration > clock.now:
                    probs.append(("dict-extra", "cache holds an unexpired entry the model does not"))
        for ki, (v, exp) in model.data.items():
            if exp > clock.now and cache.data.get(KEYS[ki]) is not v:
                probs.append(("dict-missing", "unexpired stored entry missing from cache"))


def canon(cache, model, clock):
    now = clock.now
    kidx = {k: i for i, k in enumerate(KEYS)}
    if model.lru:
        items = tuple((kidx[n.key], max(0.0, n.value.expiration - now), n.hits) for n in _ring(cache))
        return ("lru", items, cache.max_size)
    items = tuple(sorted((kidx[k], max(0.0, v.expiration - now)) for k, v in cache.data.items()))
    return ("cache", items, max(0.0, cache.next_cleaning - now))


def _ring(cache):
    out, node, n = [], cache.sentinel.next, 0
    while node is not cache.sentinel and n < 10:
        out.append(node)
        node = node.next
        n += 1
    return out


def replay_seq(lru, history):
    clock = Clock()
    cache, model = new_cache(lru, clock)
    probs = []
    for ev in history:
        apply_event(cache, model, clock, tuple(ev), probs)
    return cache, model, clock, probs


def run_seq_step(case):
    lru = case["lru"]
    cache, model, clock, probs0 = replay_seq(lru, case["history"])
    probs = []
    try:
        apply_event(cache, model, clock, tuple(case["event"]), probs)
        check_internal(cache, model, clock, probs)
    except Exception as e:
        import traceback
        probs.append(("crash/%s@%s" % (type(e).__name__, traceback.extract_tb(e.__traceback__)[-1].name), repr(e)))
        return probs, None
    return probs, canon(cache, model, clock)


KHITS_CAP = [1]


def expand_seq(state, col):
    lru, history = state
    for ev in seq_events(lru):
        case = {"mode": "seq", "lru": lru, "history": [list(e) for e in history], "event": list(ev)}
        probs, cn = run_seq_step(case)
        col.count("evaluations")
        col.outcome("seq:%s:%s:%s" % ("lru" if lru else "cache", ev[0], probs[0][0] if probs else "ok"))
        for s, w in probs:
            col.violation("C17/seq/%s/%s" % ("lru" if lru else "cache", s), "%s after history %s + %s" % (w, list(history), ev), case)
        if cn is None:
            continue
        col.nontrivial(cn)
        # per-key hit counters are accumulators checked at every step; cap them in the
        # canonical form so the search saturates (they never influence behaviour)
        if lru:
            cn = (cn[0], tuple((k, e, min(h, KHITS_CAP[0])) for k, e, h in cn[1]), cn[2])
        yield cn, (lru, history + (ev,))


# ------------------------------------------------------------------ concurrent part
def cache_codes():
    fns = []
    for cls in (dns.resolver.Cache, dns.resolver.LRUCache, dns.resolver.CacheBase, dns.resolver.LRUCacheNode):
        for name, f in vars(cls).items():
            if callable(f) and hasattr(f, "__code__"):
                fns.append(f.__code__)
    return fns


def model_apply(model, clockv, op):
    """Apply op to the model; returns (result, new clock)."""
    o = op[0]
    if o == "get":
        v = model.get(op[1], clockv)
        return (None if v is None else v), clockv
    if o == "put":
        model.put(op[1], op[3], op[4])
        return None, clockv
    if o == "flush":
        model.flush(op[1])
        return None, clockv
    if o == "tick":
        return None, clockv + op[1]
    if o == "stats":
        return (model.hits, model.misses), clockv
    raise AssertionError(op)


def linearizable(model0, clock0, ops, final_check):
    """ops: list of (call_idx, ret_idx, op, result).  Brute force over all total orders
    consistent with real-time precedence."""
    n = len(ops)
    idx = list(range(n))
    for perm in itertools.permutations(idx):
        ok = True
        pos = {j: i for i, j in enumerate(perm)}
        for a in idx:
            for b in idx:
                if ops[a][1] < ops[b][0] and pos[a] > pos[b]:
                    ok = False
                    break
            if not ok:
                break
        if not ok:
            continue
        m = model0.copy()
        c = clock0
        for j in perm:
            res, c = model_apply(m, c, ops[j][2])
            if ops[j][2][0] in ("get", "stats") and res is not ops[j][3] and res != ops[j][3]:
                ok = False
                break
        if ok and final_check(m, c):
            return True
    return False


def conc_run(cfg, prefix):
    """One execution of the concurrent harness."""
    lru, programs, level, init = cfg["lru"], cfg["programs"], cfg["level"], cfg["init"]
    sc = S.Sched(prefix, cache_codes() if level == "line" else [], sync_points=(level == "sync"))
    clock = Clock()
    dns.resolver.threading = S.Shim(sc)
    dns.resolver.time = clock
    try:
        if lru:
            cache, model = dns.resolver.LRUCache(max_size=cfg.get("max_size", 2)), RefCache(True, cfg.get("max_size", 2))
        else:
            cache, model = dns.resolver.Cache(cleaning_interval=1.0), RefCache(False)
        probs = []
        for ev in init:
            apply_event(cache, model, clock, tuple(ev), probs)
        model0, clock0 = model.copy(), clock.now
        counter = [0]
        hist = []

        def body(prog):
            def run():
                for op in prog:
                    op = tuple(op)
                    sc.point()
                    counter[0] += 1
                    call = counter[0]
                    if op[0] == "get":
                        res = cache.get(KEYS[op[1]])
                    elif op[0] == "put":
                        v = make_answer(op[1], op[2])
                        op = ("put", op[1], op[2], v, v.expiration)
                        res = cache.put(KEYS[op[1]], v)
                    elif op[0] == "flush":
                        res = cache.flush(None if op[1] is None else KEYS[op[1]])
                    elif op[0] == "tick":
                        clock.now += op[1]
                        res = None
                    elif op[0] == "stats":
                        s = cache.get_statistics_snapshot()
                        res = (s.hits, s.misses)
                    counter[0] += 1
                    hist.append((call, counter[0], op, res))
            return run

        for p in programs:
            sc.spawn(body(p))
        sc.run()
    finally:
        dns.resolver.threading = real_threading
    if sc.deadlock:
        probs.append(("deadlock", "blocked: %s" % sc.deadlock_info))
        return sc, probs, hist
    for t in sc.threads:
        if t.error is not None:
            probs.append(("thread-exception/%s" % type(t.error).__name__, "%s raised %r" % (t.name, t.error)))
    probs += sc.problems
    if probs:
        return sc, probs, hist

    def final_check(m, c):
        p = []
        # compare final real state with the model reached by this linearization
        snap = cache.statistics
        if (snap.hits, snap.misses) != (m.hits, m.misses):
            return False
        check_internal(cache, m, clock, p)
        return not p

    if not linearizable(model0, clock0, hist, final_check):
        probs.append(("not-linearizable", "history %s has no sequential explanation (incl. final state)" %
                      [(c, r, op[:3], None if res is None else ("ans" if not isinstance(res, tuple) else res)) for c, r, op, res in hist]))
    return sc, probs, hist


def recheck(case):
    if case["mode"] == "seq":
        probs, _ = run_seq_step(case)
        return [("C17/seq/%s/%s" % ("lru" if case["lru"] else "cache", s), w) for s, w in probs]
    sc, probs, hist = conc_run(case["cfg"], case["choices"])
    return [("C17/conc/%s/%s" % ("lru" if case["cfg"]["lru"] else "cache", s), w) for s, w in probs]


def _conc_task(task, col):
    cfg, prefix, bound = task

    def make(pfx):
        sc, probs, hist = conc_run(cfg, pfx)
        col.count("evaluations")
        col.count("conc_schedules")
        col.count("transitions", sc.npoints)
        order = tuple(op[:2] for c, r, op, res in sorted(hist, key=lambda h: h[0]))
        results = tuple(res is not None for c, r, op, res in sorted(hist, key=lambda h: h[0]) if op[0] == "get")
        col.nontrivial(("conc", cfg["name"], order, results))
        col.outcome("conc:%s:%s" % ("lru" if cfg["lru"] else "cache", probs[0][0] if probs else "linearizable"))
        for s, w in probs:
            col.violation("C17/conc/%s/%s" % ("lru" if cfg["lru"] else "cache", s),
                          "%s (config %s schedule %s)" % (w, cfg["name"], sc.choices),
                          {"mode": "conc", "cfg": cfg, "choices": list(sc.choices)})
        return sc

    S.explore(make, bound, prefix)


def conc_configs(ctx):
    out = []
    ops_menu = [("get", 0), ("put", 0, 2), ("get", 1), ("put", 1, 1), ("flush", 0), ("flush", None), ("put", 2, 2),
                ("tick", 1), ("stats",)]
    init_lru = [("put", 0, 2), ("put", 1, 2), ("get", 0)]
    init_cache = [("put", 0, 1), ("put", 1, 2)]

    def add(lru, programs, level, bound, init):
        name = "%s %s %s b%d" % ("lru" if lru else "cache", "|".join(",".join("%s%s" % (o[0][0], "" if len(o) < 2 or o[1] is None else o[1]) for o in p) for p in programs), level, bound)
        out.append(({"name": name, "lru": lru, "programs": [[list(o) for o in p] for p in programs], "level": level, "init": [list(e) for e in init]}, bound))

    # sync level: every pair of 2-op programs from the menu, both caches (atomic ops
    # interleaved at lock granularity, unbounded preemptions at this size)
    menu2 = [p for p in itertools.product(ops_menu, repeat=2)]
    if ctx.quick:
        menu2 = [p for p in menu2 if p[0] != p[1]][::3]
    for lru in (True, False):
        init = init_lru if lru else init_cache
        for i, p1 in enumerate(menu2):
            for j, p2 in enumerate(menu2[i:]):
                if ctx.quick and ((i * 31 + j) % 4):
                    continue
                add(lru, [p1, p2], "sync", 4, init)
    # line level: hand-picked colliding programs
    line_progs = [
        [[("get", 0), ("put", 2, 2)], [("put", 0, 2), ("get", 1)]],
        [[("get", 1)], [("put", 2, 2)], [("get", 0)]],
        [[("put", 0, 1), ("get", 0)], [("flush", 0), ("stats",)]],
        [[("get", 0), ("get", 1)], [("flush", None), ("put", 1, 2)]],
        [[("put", 2, 2), ("stats",)], [("get", 0), ("tick", 2), ("get", 0)]],
    ]
    for lru in (True, False):
        init = init_lru if lru else init_cache
        for progs in (line_progs if not ctx.quick else line_progs[:3]):
            add(lru, progs, "line", ctx.pick(2, 3), init)
    # the simple cache's periodic sweep: one entry already expired and a sweep due, so the
    # first locked operation sweeps while another thread re-stores / reads the same key
    init_sweep = [("put", 0, 1), ("put", 1, 2), ("tick", 1.5)]
    sweep_progs = [
        [[("get", 1)], [("put", 0, 2), ("get", 0)]],
        [[("put", 2, 2)], [("put", 0, 2), ("get", 0)]],
        [[("get", 0)], [("put", 0, 1), ("tick", 1), ("get", 0)]],
        # a single-key flush of a live entry / a flush of everything while the other thread sweeps
        [[("get", 1)], [("flush", 1), ("get", 0)]],
        [[("put", 2, 2)], [("flush", None), ("get", 1)]],
    ]
    for progs in sweep_progs:
        add(False, progs, "line", ctx.pick(2, 3), init_sweep)
        add(False, progs, "sync", 4, init_sweep)
    init_lru_exp = [("put", 0, 1), ("put", 1, 2), ("tick", 1.5)]
    for progs in sweep_progs[:2] + [[[("get", 0)], [("put", 0, 2), ("put", 2, 2), ("get", 0)]]]:
        add(True, progs, "line", ctx.pick(2, 3), init_lru_exp)
    if not ctx.quick:
        add(True, [[("get", 0), ("put", 2, 2)], [("put", 0, 2), ("get", 1)], [("get", 0), ("flush", 1)]], "sync", 3, init_lru)
        add(False, [[("get", 0), ("put", 2, 2)], [("put", 0, 2), ("get", 1)], [("tick", 1), ("get", 0)]], "sync", 3, init_cache)
    return out


def _conc_cfg_task(task, col):
    cfg, bound = task
    _conc_task((cfg, [], bound), col)


def run(ctx):
    ctx.rule = ("(a) complete BFS over histories of get/put(ttl 0-2)/flush/flush-all/clock ticks/resize/reset/"
                "per-key-hits on the real Cache and LRUCache with a virtual clock, 3 keys; canon = entries with "
                "relative expirations (+recency order, max_size / next cleaning); distinct = distinct canon. "
                "(b) every schedule within the preemption bound of 2-3 threads x 1-3 cache operations; each "
                "complete call/return history is checked for linearizability by brute force; distinct = "
                "distinct (config, completion order, get results)")
    ctx.assume("dns.resolver.time and dns.resolver.threading are rebound to a virtual clock and the cooperative shim")
    ctx.assume("shrinking max_size takes effect at the next put (bound required after every put)")
    ctx.assume("a source line is the atomic step in the concurrent part")
    HALF_TICKS[0] = not ctx.quick
    KHITS_CAP[0] = ctx.pick(1, 2)
    ctx.extra["half_second_ticks"] = HALF_TICKS[0]
    seen = engines.bfs(ctx, [(("init", lru), (lru, ())) for lru in (True, False)], expand_seq)
    ctx.extra["sequential_states"] = len(seen)
    cfgs = conc_configs(ctx)
    ctx.extra["concurrent_configs"] = len(cfgs)
    ctx.sample({"concurrent_config_examples": [c["name"] for c, b in cfgs[:3] + cfgs[-3:]]})
    ctx.pmap(_conc_cfg_task, cfgs, chunksize=4)
    ctx.counts["traces_validated_against_impl"] = ctx.counts.get("evaluations", 0)
    ctx.counts["states"] = ctx.counts.get("states", 0) + ctx.counts.get("conc_schedules", 0)
