"""C18: a network exchange returns only a genuine response; stream framing is exact.

Fault enumeration (E4) on the real dns.query / dns.asyncquery code.  Scripted socket
objects are passed through the public ``sock=`` / ``backend=`` parameters;
``dns.query._wait_for`` and the ``time`` names of dns.query / dns.asyncquery are rebound
to a virtual clock; coroutines are driven with ``coro.send(None)`` (no event loop).

UDP: every sequence of <= n datagrams from a non-genuine alphabet followed by the genuine
reply or by silence, under every option combination, timing scheme and address
configuration.  The sequence tree is walked depth-first and cut *by the implementation's
own consumption*: when an execution never asked the socket for a datagram beyond the
prefix, every longer sequence with that prefix is the same execution (the code is
deterministic and cannot see datagrams it did not read), so it is not run again.

TCP: every fragmentation of the length-prefixed stream (cut points x would-block events
at every position), EOF / stall at every byte position, the deadline expiring at every
wait, partial send() counts.

Oracle: mc/refs/netmodel.py (independent strict parser, genuine(), source_ok(), the
docstring option table, the stream model).
"""
from __future__ import annotations

import itertools
import socket
import struct
import traceback

import dns.asyncbackend
import dns.asyncquery
import dns.exception
import dns.message
import dns.query

from ..refs import netmodel as nm

PROPERTY = "C18"
LEVEL = "fault_enumeration"

INF = nm.INF
OPMAX = 20000


# ---------------------------------------------------------------- virtual time
class Hang(BaseException):
    """The call would wait for ever (no deadline and nothing will arrive)."""


class Runaway(BaseException):
    """The code under test keeps calling the socket without making progress."""


class Clock:
    def __init__(self):
        self.now = 1000.0

    def time(self):
        return self.now


CLOCK = Clock()


def _vwait_for(fd, readable, writable, _, expiration):
    fd.wait(readable, writable, expiration)


def install():
    CLOCK.now = 1000.0
    dns.query.time = CLOCK
    dns.query._wait_for = _vwait_for
    dns.asyncquery.time = CLOCK


class Suspend:
    """One suspension of the coroutine (= one would-block in the async world)."""

    def __await__(self):
        yield "suspend"


def drive(coro):
    steps = 0
    try:
        while True:
            coro.send(None)
            steps += 1
            if steps > OPMAX:
                raise Runaway("coroutine never finishes")
    except StopIteration as e:
        return e.value
    finally:
        coro.close()


# ---------------------------------------------------------------- scripted sockets
class _Base:
    def _init(self):
        self.ops = 0
        self.pending = None
        self.faults = []

    def _op(self):
        self.ops += 1
        if self.ops > OPMAX:
            raise Runaway("socket called %d times" % self.ops)

    def wait(self, readable, writable, expiration):
        self._op()
        if self.pending is None:
            self.faults.append("wait-without-would-block")
            return
        kind, dt = self.pending
        if (kind == "r" and not readable) or (kind == "w" and not writable):
            self.faults.append("wait-wrong-direction")
            raise Hang("waiting for the wrong direction")
        if expiration is not None and CLOCK.now + dt >= expiration:
            CLOCK.now = max(CLOCK.now, expiration)
            raise dns.exception.Timeout
        if dt == INF:
            raise Hang("nothing will ever arrive and there is no deadline")
        CLOCK.now += dt
        self.pending = None
        if kind == "r":
            self.waited = True


class SyncUdpSock(_Base):
    type = socket.SOCK_DGRAM

    def __init__(self, family, events, send_blocks=0):
        self._init()
        self.family = family
        self.events = events  # [(wire, src, delay)]
        self.i = 0
        self.waited = False
        self.sent = []
        self.send_blocks = send_blocks
        self.last = None
        self.max_asked = -1

    def sendto(self, data, dest):
        self._op()
        if self.send_blocks:
            self.send_blocks -= 1
            self.pending = ("w", 1.0)
            raise BlockingIOError
        self.sent.append((bytes(data), dest))
        return len(data)

    def send(self, data):
        return self.sendto(data, None)

    def recvfrom(self, size):
        self._op()
        self.max_asked = max(self.max_asked, self.i)
        if self.i >= len(self.events):
            self.pending = ("r", INF)
            raise BlockingIOError
        wire, src, delay = self.events[self.i]
        if delay > 0 and not self.waited:
            self.pending = ("r", delay)
            raise BlockingIOError
        self.waited = False
        self.last = self.i
        self.i += 1
        if size < len(wire):
            self.faults.append("recv-buffer-too-small")
        return wire[:size], src


class AsyncUdpSock(dns.asyncbackend.DatagramSocket):
    def __init__(self, family, events, send_blocks=0):
        super().__init__(family, socket.SOCK_DGRAM)
        self.events = events
        self.i = 0
        self.sent = []
        self.send_blocks = send_blocks
        self.last = None
        self.max_asked = -1
        self.closed = 0
        self.faults = []
        self.ops = 0

    def _op(self):
        self.ops += 1
        if self.ops > OPMAX:
            raise Runaway("socket called %d times" % self.ops)

    async def sendto(self, what, destination, timeout):
        self._op()
        deadline = None if timeout is None else CLOCK.now + timeout
        for _ in range(self.send_blocks):
            await Suspend()
            if deadline is not None and CLOCK.now + 1.0 >= deadline:
                CLOCK.now = deadline
                raise dns.exception.Timeout
            CLOCK.now += 1.0
        self.send_blocks = 0
        self.sent.append((bytes(what), destination))
        return len(what)

    async def recvfrom(self, size, timeout):
        self._op()
        self.max_asked = max(self.max_asked, self.i)
        dt = INF if self.i >= len(self.events) else self.events[self.i][2]
        if dt > 0:
            await Suspend()
            if timeout is not None and dt >= timeout:
                CLOCK.now += timeout
                raise dns.exception.Timeout
            if dt == INF:
                raise Hang("nothing will ever arrive and there is no deadline")
            CLOCK.now += dt
        wire, src, _ = self.events[self.i]
        self.last = self.i
        self.i += 1
        if size < len(wire):
            self.faults.append("recv-buffer-too-small")
        return wire[:size], src

    async def close(self):
        self.closed += 1

    async def getpeername(self):
        return ("10.0.0.1", 53)


class ScriptedBackend(dns.asyncbackend.Backend):
    def __init__(self, sock):
        self.sock = sock
        self.calls = []

    def name(self):
        return "scripted"

    async def make_socket(self, af, socktype, proto=0, source=None, destination=None,
                          timeout=None, ssl_context=None, server_hostname=None):
        self.calls.append((af, socktype))
        return self.sock

    def datagram_connection_required(self):
        return False


def _boundaries(n, cuts, blocks):
    return sorted(set(cuts) | set(blocks) | {n})


class _StreamScript:
    """Shared bookkeeping for both stream mocks."""

    def _sinit(self, avail, end, rcuts, rblocks, wcuts, wblocks):
        self.avail = avail
        self.end = end
        self.rpos = 0
        self.rblocks = dict(rblocks)
        self.rbounds = _boundaries(len(avail), rcuts, rblocks)
        self.written = bytearray()
        self.wblocks = dict(wblocks)
        self.wbounds = sorted(set(wcuts) | set(wblocks))

    def _next_rbound(self):
        for b in self.rbounds:
            if b > self.rpos:
                return b
        return len(self.avail)

    def _next_wbound(self):
        w = len(self.written)
        for b in self.wbounds:
            if b > w:
                return b
        return INF


class SyncTcpSock(_Base, _StreamScript):
    type = socket.SOCK_STREAM

    def __init__(self, family, avail, end, rcuts, rblocks, wcuts=(), wblocks=()):
        self._init()
        self.family = family
        self.waited = False
        self._sinit(avail, end, rcuts, rblocks, wcuts, wblocks)

    def getpeername(self):
        return ("10.0.0.1", 53)

    def recv(self, count):
        self._op()
        if count <= 0:
            self.faults.append("recv-nonpositive-count")
            return b""
        if self.rblocks.get(self.rpos, 0) > 0:
            self.rblocks[self.rpos] -= 1
            self.pending = ("r", 1.0)
            raise BlockingIOError
        if self.rpos >= len(self.avail):
            if self.end == "eof":
                return b""
            self.pending = ("r", INF)
            raise BlockingIOError
        n = min(count, self._next_rbound() - self.rpos)
        data = self.avail[self.rpos:self.rpos + n]
        self.rpos += n
        return data

    def send(self, data):
        self._op()
        w = len(self.written)
        if self.wblocks.get(w, 0) > 0:
            self.wblocks[w] -= 1
            self.pending = ("w", 1.0)
            raise BlockingIOError
        n = min(len(data), self._next_wbound() - w)
        self.written += bytes(data[:n])
        return n


class AsyncTcpSock(dns.asyncbackend.StreamSocket, _StreamScript):
    def __init__(self, family, avail, end, rcuts, rblocks, wcuts=(), wblocks=()):
        dns.asyncbackend.StreamSocket.__init__(self, family, socket.SOCK_STREAM)
        self._sinit(avail, end, rcuts, rblocks, wcuts, wblocks)
        self.faults = []
        self.ops = 0
        self.closed = 0
        self.peer_asked = 0

    def _op(self):
        self.ops += 1
        if self.ops > OPMAX:
            raise Runaway("socket called %d times" % self.ops)

    async def getpeername(self):
        self.peer_asked += 1
        return ("10.0.0.1", 53)

    async def close(self):
        self.closed += 1

    async def _block(self, deadline):
        await Suspend()
        if deadline is not None and CLOCK.now + 1.0 >= deadline:
            CLOCK.now = deadline
            raise dns.exception.Timeout
        CLOCK.now += 1.0

    async def sendall(self, what, timeout):
        self._op()
        deadline = None if timeout is None else CLOCK.now + timeout
        what = bytes(what)
        for k in range(len(what)):
            w = len(self.written)
            while self.wblocks.get(w, 0) > 0:
                self.wblocks[w] -= 1
                await self._block(deadline)
            self.written += what[k:k + 1]

    async def recv(self, size, timeout):
        self._op()
        if size <= 0:
            self.faults.append("recv-nonpositive-count")
            return b""
        deadline = None if timeout is None else CLOCK.now + timeout
        while self.rblocks.get(self.rpos, 0) > 0:
            self.rblocks[self.rpos] -= 1
            await self._block(deadline)
        if self.rpos >= len(self.avail):
            if self.end == "eof":
                return b""
            await Suspend()
            if deadline is None:
                raise Hang("nothing will ever arrive and there is no deadline")
            CLOCK.now = deadline
            raise dns.exception.Timeout
        n = min(size, self._next_rbound() - self.rpos)
        data = self.avail[self.rpos:self.rpos + n]
        self.rpos += n
        return data


# ---------------------------------------------------------------- datagram alphabet
QID = 0x1234
QNAME = (b"www", b"Example", b"com")
Q = (QNAME, nm.T_A, nm.C_IN)
RFLAGS = nm.QR | nm.RD | nm.RA
A1 = (12, nm.T_A, nm.C_IN, 300, bytes([10, 1, 1, 1]))
A2 = (12, nm.T_A, nm.C_IN, 300, bytes([10, 1, 1, 2]))
OTHERQ = ((b"www", b"Example", b"org"), nm.T_A, nm.C_IN)

GENUINE = nm.build(QID, RFLAGS, qd=[Q], an=[A1, A2])

# label -> (wire, source kind)
SYMBOLS = {
    "forged-addr": (GENUINE, "addr"),
    "forged-port": (GENUINE, "port"),
    # same address and port, other IPv6 scope id (another link); for IPv4 it equals forged-addr
    "forged-scope": (GENUINE, "scope"),
    "wrong-id": (nm.build(QID + 1, RFLAGS, qd=[Q], an=[A1, A2]), "good"),
    "wrong-qname": (nm.build(QID, RFLAGS, qd=[OTHERQ], an=[A1, A2]), "good"),
    "wrong-qtype": (nm.build(QID, RFLAGS, qd=[(QNAME, nm.T_AAAA, nm.C_IN)], an=[A1]), "good"),
    "wrong-qclass": (nm.build(QID, RFLAGS, qd=[(QNAME, nm.T_A, nm.C_CH)], an=[A1]), "good"),
    "wrong-opcode": (nm.build(QID, RFLAGS | (2 << 11), qd=[Q], an=[A1, A2]), "good"),
    "opcode-update": (nm.build(QID, nm.QR | (5 << 11), qd=[((b"Example", b"com"), 6, nm.C_IN)]), "good"),
    "qr-clear": (nm.build(QID, nm.RD, qd=[Q]), "good"),
    "garbage": (b"\xff" * 40, "good"),
    "short-header": (GENUINE[:11], "good"),
    "corrupt-rdata": (nm.build(QID, RFLAGS, qd=[Q],
                               an=[(12, nm.T_A, nm.C_IN, 300, bytes([10, 1, 1]), 3), A2]), "good"),
    "cut-rdata": (GENUINE[:-2], "good"),
    "tc-genuine": (nm.build(QID, RFLAGS | nm.TC, qd=[Q]), "good"),
    "tc-wrong-id": (nm.build(QID + 1, RFLAGS | nm.TC, qd=[Q]), "good"),
    "tc-cut": (nm.build(QID, RFLAGS | nm.TC, qd=[Q], an=[A1, A2], cut=-3), "good"),
    "tc-cut-wrong-id": (nm.build(QID + 1, RFLAGS | nm.TC, qd=[Q], an=[A1, A2], cut=-3), "good"),
    "trailing": (GENUINE + b"\x00\x00", "good"),
    "servfail-noq": (nm.build(QID, RFLAGS | 2), "good"),
    "servfail-noq-wrong-id": (nm.build(QID + 1, RFLAGS | 2), "good"),
    "noerror-noq": (nm.build(QID, RFLAGS), "good"),
    "nxdomain-noq": (nm.build(QID, RFLAGS | 3), "good"),
    "servfail-wrong-q": (nm.build(QID, RFLAGS | 2, qd=[OTHERQ]), "good"),
    "extra-question": (nm.build(QID, RFLAGS, qd=[Q, OTHERQ], an=[A1]), "good"),
    "genuine": (GENUINE, "good"),
}
ALPHABET = [s for s in SYMBOLS if s != "genuine"]
INFOS = {s: nm.Info(w) for s, (w, _) in SYMBOLS.items()}

# address configurations: family, where, port, destination tuple, sources by kind
CONFIGS = {
    "v4": (socket.AF_INET, "10.0.0.1", 53, ("10.0.0.1", 53),
           {"good": ("10.0.0.1", 53), "addr": ("10.0.0.2", 53), "port": ("10.0.0.1", 5353), "scope": ("10.0.0.3", 53)}),
    # the reply's source is spelled differently from the destination (same binary address)
    "v6": (socket.AF_INET6, "2001:db8::1", 53, ("2001:db8::1", 53, 0, 0),
           {"good": ("2001:db8:0:0:0:0:0:1", 53, 0, 0), "addr": ("2001:db8::2", 53, 0, 0),
            "port": ("2001:db8::1", 5353, 0, 0), "scope": ("2001:db8::1", 53, 0, 7)}),
    # link-local resolver: the scope id (interface) is part of the address
    "ll6": (socket.AF_INET6, "fe80::1%2", 53, ("fe80::1", 53, 0, 2),
            {"good": ("fe80::1", 53, 0, 2), "addr": ("fe80::2", 53, 0, 2),
             "port": ("fe80::1", 5353, 0, 2), "scope": ("fe80::1", 53, 0, 3)}),
    # multicast destinations are answered from unicast addresses; the port still counts
    "mc4": (socket.AF_INET, "224.0.0.251", 5353, ("224.0.0.251", 5353),
            {"good": ("10.0.0.9", 5353), "addr": ("10.0.0.2", 5353), "port": ("10.0.0.9", 53), "scope": ("10.0.0.9", 54)}),
    "mc6": (socket.AF_INET6, "ff02::fb", 5353, ("ff02::fb", 5353, 0, 0),
            {"good": ("fe80::9", 5353, 0, 0), "addr": ("fe80::2", 5353, 0, 0),
             "port": ("fe80::9", 53, 0, 0), "scope": ("fe80::9", 5353, 0, 4)}),
}

_QUERIES = {}
_OPSYMS = {}


def opsym(label, qop):
    """(wire, Info) of datagram symbol `label` for a query whose opcode is qop: the reply
    symbols that answer the query's opcode (i.e. all but the wrong-opcode ones) carry it."""
    if not qop:
        return SYMBOLS[label][0], INFOS[label]
    key = (label, qop)
    if key not in _OPSYMS:
        w = SYMBOLS[label][0]
        if label not in ("wrong-opcode", "opcode-update") and len(w) >= 4:
            flags = int.from_bytes(w[2:4], "big")
            if (flags >> 11) & 0xF == 0:
                flags = (flags & ~0x7800) | (qop << 11)
                w = w[:2] + flags.to_bytes(2, "big") + w[4:]
        _OPSYMS[key] = (w, nm.Info(w))
    return _OPSYMS[key]


def the_query(which="std"):
    """(Message, wire, Info) of the query that is sent.  The Info is obtained by the
    reference parser from the bytes, not from the Message object."""
    if which not in _QUERIES:
        if which == "std":
            q = dns.message.make_query("www.Example.com.", "A", id=QID)
        elif isinstance(which, int):
            # same question, another opcode (NOTIFY = 4, IQUERY = 1, ...)
            q = dns.message.make_query("www.Example.com.", "A", id=QID)
            q.set_opcode(which)
        else:
            q = dns.message.make_query(".", "A", id=QID)
        w = q.to_wire()
        _QUERIES[which] = (q, w, nm.Info(w))
    return _QUERIES[which]


# ---------------------------------------------------------------- observation helpers
def crash_sig(e):
    tb = traceback.extract_tb(e.__traceback__)
    return "crash:%s@%s" % (type(e).__name__, tb[-1].name if tb else "?")


def classify(e):
    if isinstance(e, Hang):
        return ("hang",)
    if isinstance(e, Runaway):
        return ("raise", "Runaway")
    if isinstance(e, dns.exception.Timeout):
        return ("raise", "Timeout")
    if isinstance(e, dns.query.UnexpectedSource):
        return ("raise", "UnexpectedSource")
    if isinstance(e, dns.query.BadResponse):
        return ("raise", "BadResponse")
    if isinstance(e, dns.message.Truncated):
        return ("raise", "Truncated")
    if isinstance(e, dns.exception.FormError):
        return ("raise", "FormError")
    if isinstance(e, EOFError):
        return ("raise", "EOFError")
    if isinstance(e, Exception):
        return ("raise", crash_sig(e))
    raise e


def oname(o, nseq=None):
    if o[0] == "return":
        if nseq is None:
            return "return"
        return "return-final" if o[1] >= nseq else "return-seq"
    if o[0] == "hang":
        return "hang"
    return o[1]


def allowed_has(allowed, obs):
    if obs in allowed:
        return True
    # BadResponse is a FormError: fine wherever a format error is expected
    return obs == ("raise", "BadResponse") and ("raise", "FormError") in allowed


def message_content(r):
    """(id, flags, question, records) of a dns.message.Message in reference notation."""
    def labels(n):
        return tuple(l.lower() for l in n.labels if l != b"")
    question = sorted((labels(rs.name), int(rs.rdtype), int(rs.rdclass)) for rs in r.question)
    recs = []
    for sec in (1, 2, 3):
        for rs in r.sections[sec]:
            for rd in rs:
                recs.append((sec, labels(rs.name), int(rs.rdtype), int(rs.rdclass), int(rs.ttl),
                             rd.to_wire()))
    return r.id, int(r.flags), question, sorted(recs)


def content_problem(r, info, orr):
    """Does the returned Message say exactly what the datagram says?"""
    if not isinstance(r, dns.message.Message):
        return "not a Message: %r" % (type(r),)
    if info.records is None:
        return "datagram has no complete strict parse"
    mid, flags, question, recs = message_content(r)
    if mid != info.id or flags != info.flags:
        return "id/flags %04x/%04x, datagram has %04x/%04x" % (mid, flags, info.id, info.flags)
    if question != sorted(info.question):
        return "question differs from the datagram"
    if recs != sorted(info.records):
        return "records differ: message has %d, datagram has %d" % (len(recs), len(info.records))
    nan = sum(1 for x in info.records if x[0] == 1)
    groups = len({x[1:4] for x in info.records if x[0] == 1})
    want = nan if orr else groups
    if len(r.answer) != want:
        return "answer has %d RRsets, expected %d (one_rr_per_rrset=%s)" % (len(r.answer), want, orr)
    return None


# ---------------------------------------------------------------- UDP cases
UDP_ENTRIES = [
    # name, function signature part, kind, has_query, with destination
    "sync.udp", "async.udp", "async.udp+backend",
    "sync.receive_udp", "async.receive_udp",
    "sync.receive_udp-noquery", "async.receive_udp-noquery",
    "sync.receive_udp-anysrc", "async.receive_udp-anysrc",
]


def entry_fn(entry):
    return entry.split("+")[0].split("-")[0]


def timing(scheme, n):
    """-> (delays for n+1 events, timeout)"""
    if scheme == "fast":
        return [0.0] * (n + 1), 100.0
    if scheme == "forever":
        return [1.0] * (n + 1), None
    if scheme == "mixed":
        return [1.0 if i % 2 == 0 else 0.0 for i in range(n + 1)], 100.0
    assert scheme.startswith("dl@")
    return [1.0] * (n + 1), int(scheme[3:]) + 0.5


def run_udp(case):
    """Execute one UDP case.  Returns (problems, went_past_prefix, outcome name)."""
    install()
    entry = case["entry"]
    family, where, port, dest, srcs = CONFIGS[case["cfg"]]
    seq = list(case["seq"])
    labels = seq + (["genuine"] if case["final"] == "genuine" else [])
    iu, ie, rot, it, orr = opts = tuple(bool(x) for x in case["opts"])
    delays, timeout = timing(case["timing"], len(seq))
    qop = case.get("qop", 0)
    events = [(opsym(l, qop)[0], srcs[SYMBOLS[l][1]], delays[i]) for i, l in enumerate(labels)]
    q, qwire, qinfo = the_query(qop if qop else "std")
    send_blocks = case.get("send_blocks", 0)
    is_async = entry.startswith("async")
    kind = "udp" if entry_fn(entry).endswith(".udp") else "receive"
    has_query = not entry.endswith("-noquery")
    use_dest = None if entry.endswith("-anysrc") else dest
    sock = (AsyncUdpSock if is_async else SyncUdpSock)(family, events, send_blocks)
    expiration = None if timeout is None else CLOCK.now + timeout
    probs = []
    fn = entry_fn(entry)
    r = None
    from_address = None
    try:
        if entry == "sync.udp":
            r = dns.query.udp(q, where, timeout, port, ignore_unexpected=iu, one_rr_per_rrset=orr,
                              ignore_trailing=it, raise_on_truncation=rot, sock=sock,
                              ignore_errors=ie)
        elif entry == "async.udp":
            r = drive(dns.asyncquery.udp(q, where, timeout, port, ignore_unexpected=iu,
                                         one_rr_per_rrset=orr, ignore_trailing=it,
                                         raise_on_truncation=rot, sock=sock, ignore_errors=ie))
        elif entry == "async.udp+backend":
            be = ScriptedBackend(sock)
            r = drive(dns.asyncquery.udp(q, where, timeout, port, ignore_unexpected=iu,
                                         one_rr_per_rrset=orr, ignore_trailing=it,
                                         raise_on_truncation=rot, backend=be, ignore_errors=ie))
        elif entry.startswith("sync.receive_udp"):
            res = dns.query.receive_udp(sock, use_dest, expiration, ignore_unexpected=iu,
                                        one_rr_per_rrset=orr, ignore_trailing=it,
                                        raise_on_truncation=rot, ignore_errors=ie,
                                        query=q if has_query else None)
            r = res[0]
            if use_dest is None:
                if len(res) != 3:
                    probs.append(("result-shape", "destination=None must give a 3-tuple"))
                else:
                    from_address = res[2]
            elif len(res) != 2:
                probs.append(("result-shape", "destination given must give a 2-tuple"))
        else:
            res = drive(dns.asyncquery.receive_udp(sock, use_dest, expiration, ignore_unexpected=iu,
                                                   one_rr_per_rrset=orr, ignore_trailing=it,
                                                   raise_on_truncation=rot, ignore_errors=ie,
                                                   query=q if has_query else None))
            r = res[0]
            if len(res) != 3:
                probs.append(("result-shape", "async receive_udp must give a 3-tuple"))
            else:
                from_address = res[2]
        obs = ("return", sock.last)
    except BaseException as e:
        obs = classify(e)
        exc = e
    dgrams = [(opsym(l, qop)[1], srcs[SYMBOLS[l][1]]) for l in labels]
    past = sock.max_asked >= len(seq)
    # the send half of an exchange
    if kind == "udp":
        sent_expected = [(qwire, dest)]
        timed_out_in_send = send_blocks and timeout is not None and send_blocks >= timeout
        if timed_out_in_send:
            sent_expected = []
        if sock.sent != sent_expected:
            probs.append(("bytes-sent", "sent %r, expected the query wire once to %r" % (
                [(len(w), d) for w, d in sock.sent], dest)))
    elif sock.sent:
        probs.append(("bytes-sent", "receive_udp sent something"))
    for f in sock.faults:
        probs.append(("socket-misuse/" + f, f))
    # direct statement checks on whatever was returned
    direct = False
    if obs[0] == "return":
        idx = obs[1]
        if idx is None:
            probs.append(("returned-without-datagram", "returned a message although no datagram was read"))
            direct = True
        else:
            info, src = dgrams[idx]
            lab = labels[idx]
            if not nm.source_ok(family, src, use_dest):
                probs.append(("returned-forged-source",
                              "returned datagram %r that came from %r, queried %r" % (lab, src, dest)))
                direct = True
            elif not info.well_formed(it):
                probs.append(("returned-malformed/" + ("ignore_errors" if ie else "strict"),
                              "returned malformed datagram %r (%s) instead of skipping/raising"
                              % (lab, info.error)))
                direct = True
            elif has_query and (kind == "udp" or ie) and not nm.genuine(qinfo, info):
                probs.append(("returned-nongenuine",
                              "returned datagram %r which is not a response to the query" % lab))
                direct = True
            else:
                cp = content_problem(r, info, orr)
                if cp:
                    probs.append(("returned-content", "datagram %r: %s" % (lab, cp)))
                    direct = True
                if from_address is not None and tuple(from_address) != tuple(src):
                    probs.append(("returned-from-address", "from_address %r, datagram came from %r"
                                  % (from_address, src)))
    elif obs == ("raise", "Truncated"):
        try:
            m = exc.message()
            idx = sock.last
            if idx is None or not (m.flags & dns.flags.TC) or m.id != dgrams[idx][0].id:
                probs.append(("truncated-message", "Truncated.message() is not the TC datagram"))
        except Exception as e2:
            probs.append(("truncated-message", "Truncated.message() failed: %r" % (e2,)))
    # the option table
    t_send = float(send_blocks) if kind == "udp" else 0.0
    if kind == "udp" and timeout is not None and t_send >= timeout:
        allowed = {("raise", "Timeout")}
    else:
        eff_timeout = None if timeout is None else timeout - t_send
        allowed = nm.udp_expect(kind, qinfo, family, use_dest, dgrams, opts, eff_timeout, delays,
                                has_query)
    if not direct and not allowed_has(allowed, obs):
        n = len(seq)
        probs.append(("unexpected-outcome/want-%s/got-%s/%s" % (
            "|".join(sorted({oname(a, n) for a in allowed})), oname(obs, n),
            seq[-1] if seq else "none"),
            "datagrams %r then %s, options iu=%s ie=%s rot=%s it=%s orr=%s timing=%s: allowed %s, observed %s"
            % (seq, case["final"], iu, ie, rot, it, orr, case["timing"],
               sorted(allowed), obs)))
    if obs[0] == "raise" and obs[1] == "Timeout" and timeout is not None:
        if abs(CLOCK.now - (1000.0 + timeout)) > 1e-9:
            probs.append(("timeout-before-deadline", "Timeout raised at t=%.2f, deadline %.2f"
                          % (CLOCK.now - 1000.0, timeout)))
    return [("C18/%s/%s" % (fn, s), w) for s, w in probs], past, oname(obs, len(seq))


def udp_task(task, col):
    """DFS over datagram sequences for one (entry, cfg, options, timing scheme)."""
    entry, cfg, opts, scheme, depth, send_blocks = task[:6]
    base = {"mode": "udp", "entry": entry, "cfg": cfg, "opts": list(opts), "timing": scheme}
    if len(task) > 6 and task[6]:
        base["qop"] = task[6]
    if send_blocks:
        base["send_blocks"] = send_blocks
    nsym = len(ALPHABET)

    def visit(seq):
        past = False
        for final in ("genuine", "silence"):
            case = dict(base, seq=list(seq), final=final)
            probs, p, out = run_udp(case)
            col.count("evaluations")
            col.count("udp_cases")
            col.nontrivial(("udp", entry, cfg, opts, scheme, send_blocks, base.get("qop", 0), tuple(seq), final))
            col.outcome("udp:" + out)
            if probs:
                for s, w in probs:
                    col.violation(s, w, case)
            elif len(seq) == 2 and final == "genuine":
                col.sample(dict(case, outcome=out), limit=1)
            past = past or p
        # number of sequences of length <= depth this execution stands for
        if not past:
            rep = sum(nsym ** k for k in range(0, depth - len(seq) + 1))
            col.count("udp_sequences_represented", 2 * rep)
            return
        col.count("udp_sequences_represented", 2)
        if len(seq) < depth:
            for s in ALPHABET:
                visit(seq + (s,))

    visit(())


# ---------------------------------------------------------------- TCP cases
def tcp_frames():
    """name -> (frame wire, query kind)"""
    small_q = the_query("small")[2]
    small = nm.build(QID, RFLAGS, qd=[((), nm.T_A, nm.C_IN)])
    txt = bytes([250]) + b"x" * 250 + bytes([60]) + b"y" * 60
    big = nm.build(QID, RFLAGS, qd=[Q], an=[A1, (12, nm.T_TXT, nm.C_IN, 60, txt)])
    assert len(small) == 17 and len(big) > 256 and len(big) & 0xFF and small_q.question == [((), 1, 1)]
    return {"small": (small, "small"), "medium": (GENUINE, "std"), "big": (big, "std"),
            "empty": (b"", "std")}


_FRAMES = {}


def frame_of(name):
    if not _FRAMES:
        _FRAMES.update(tcp_frames())
    if name in _FRAMES:
        return _FRAMES[name]
    return SYMBOLS[name][0], "std"


NEXT_FRAME = nm.build(QID + 1, RFLAGS, qd=[Q], an=[A1])


def run_tcp(case):
    """Execute one stream case.  Returns (problems, outcome name)."""
    install()
    entry = case["entry"]
    frame, qkind = frame_of(case["frame"])
    q, qwire, qinfo = the_query(qkind)
    orr, it = (bool(x) for x in case.get("opts", (False, False)))
    full = struct.pack("!H", len(frame)) + frame
    end = case.get("end", ["full"])
    if end[0] == "full":
        # another message follows on the same connection: reading must stop at the boundary
        avail, endkind = full + struct.pack("!H", len(NEXT_FRAME)) + NEXT_FRAME, "eof"
    else:
        avail, endkind = full[:end[1]], end[0]
    rcuts = case.get("cuts", [])
    if rcuts == "all":
        rcuts = list(range(1, len(avail)))
    rblocks = {}
    for p in case.get("blocks", []):
        rblocks[p] = rblocks.get(p, 0) + 1
    wcuts = case.get("wcuts", [])
    wblocks = {}
    for p in case.get("wblocks", []):
        wblocks[p] = wblocks.get(p, 0) + 1
    timeout = case.get("timeout")
    is_async = entry.startswith("async")
    what = case.get("what", "bytes")
    payload = qwire if what == "bytes" else q
    wexpected = struct.pack("!H", len(qwire)) + qwire
    if wcuts == "all":
        wcuts = list(range(1, len(wexpected)))
    sock = (AsyncTcpSock if is_async else SyncTcpSock)(socket.AF_INET, avail, endkind, rcuts, rblocks,
                                                        wcuts, wblocks)
    expiration = None if timeout is None else CLOCK.now + timeout
    fn = entry
    probs = []
    r = None
    nsent = None
    try:
        if entry == "sync.receive_tcp":
            r, _ = dns.query.receive_tcp(sock, expiration, one_rr_per_rrset=orr, ignore_trailing=it)
        elif entry == "async.receive_tcp":
            r, _ = drive(dns.asyncquery.receive_tcp(sock, expiration, one_rr_per_rrset=orr,
                                                    ignore_trailing=it))
        elif entry == "sync.send_tcp":
            nsent, _ = dns.query.send_tcp(sock, payload, expiration)
        elif entry == "async.send_tcp":
            nsent, _ = drive(dns.asyncquery.send_tcp(sock, payload, expiration))
        elif entry == "sync.tcp":
            r = dns.query.tcp(q, "10.0.0.1", timeout, 53, one_rr_per_rrset=orr, ignore_trailing=it,
                              sock=sock)
        elif entry == "async.tcp":
            r = drive(dns.asyncquery.tcp(q, "10.0.0.1", timeout, 53, one_rr_per_rrset=orr,
                                         ignore_trailing=it, sock=sock))
        else:
            raise AssertionError(entry)
        obs = ("return",)
    except BaseException as e:
        obs = classify(e)
    # ---- model
    does_write = not entry.endswith("receive_tcp")
    does_read = not entry.endswith("send_tcp")
    t = 0.0
    wwritten = 0
    exp = None
    if does_write:
        o, wwritten, t = nm.stream_write_expect(len(wexpected), wblocks, timeout)
        if o != ("ok",):
            exp = o
    consumed = 0
    info = None
    if exp is None and does_read:
        o, consumed, t = nm.stream_read_expect(avail, endkind, rblocks, timeout, t)
        if o[0] == "frame":
            if o[1] != frame:
                raise AssertionError("harness: model frame differs")
            info = nm.Info(frame)
            if not info.well_formed(it):
                exp = ("raise", "FormError")
            elif entry.endswith(".tcp") and not nm.genuine(qinfo, info):
                exp = ("raise", "BadResponse")
            else:
                exp = ("return",)
        else:
            exp = o
    elif exp is None:
        exp = ("return",)
    # ---- judge
    for f in sock.faults:
        probs.append(("socket-misuse/" + f, f))
    if does_write:
        if bytes(sock.written) != wexpected[:wwritten]:
            probs.append(("bytes-written", "wrote %d bytes %s..., expected %d bytes = 2-byte length + wire"
                          % (len(sock.written), bytes(sock.written[:6]).hex(), wwritten)))
        if nsent is not None and nsent != len(wexpected):
            probs.append(("bytes-written-count", "send_tcp reported %r bytes, stream is %d"
                          % (nsent, len(wexpected))))
    direct = False
    if obs == ("return",) and does_read and not (does_write and wwritten < len(wexpected)):
        if info is None:
            # the model never saw a complete frame (EOF, stall or deadline came first)
            if exp == ("raise", "Timeout"):
                probs.append(("deadline-ignored", "returned a message although the deadline (%.1f s) "
                              "expired at a wait before the stream was complete" % timeout))
            else:
                probs.append(("short-message", "returned a message after reading %d of %d stream bytes "
                              "(model: %s)" % (sock.rpos, len(full), oname(exp))))
            direct = True
        else:
            if not info.well_formed(it):
                probs.append(("returned-malformed", "returned malformed frame %r (%s)"
                              % (case["frame"], info.error)))
                direct = True
            elif entry.endswith(".tcp") and not nm.genuine(qinfo, info):
                probs.append(("returned-nongenuine", "returned frame %r which is not a response to the query"
                              % case["frame"]))
                direct = True
            else:
                cp = content_problem(r, info, orr)
                if cp:
                    probs.append(("reassembly", "frame %r: %s" % (case["frame"], cp)))
                    direct = True
        if not direct and sock.rpos != len(full):
            probs.append(("over-read", "consumed %d stream bytes, the message ends at %d"
                          % (sock.rpos, len(full))))
            direct = True
    if not direct and not allowed_has({exp}, obs):
        probs.append(("unexpected-outcome/want-%s/got-%s" % (oname(exp), oname(obs)),
                      "frame=%s end=%s cuts=%s blocks=%s wcuts=%s wblocks=%s timeout=%s: expected %s, observed %s"
                      % (case["frame"], end, case.get("cuts", []), case.get("blocks", []),
                         case.get("wcuts", []), case.get("wblocks", []), timeout, exp, obs)))
    if obs == ("raise", "Timeout") and timeout is not None and abs(CLOCK.now - (1000.0 + timeout)) > 1e-9:
        probs.append(("timeout-before-deadline", "Timeout raised at t=%.2f, deadline %.2f"
                      % (CLOCK.now - 1000.0, timeout)))
    return [("C18/%s/%s" % (fn, s), w) for s, w in probs], oname(obs)


def subsets(positions, kmax):
    for k in range(kmax + 1):
        yield from itertools.combinations(positions, k)


def multisets(positions, kmax):
    for k in range(kmax + 1):
        yield from itertools.combinations_with_replacement(positions, k)


def timeouts_for(nwaits, extra=()):
    """No deadline, a far deadline, and a deadline that expires at every wait."""
    out = [None, 100.0] + [k + 0.5 for k in range(nwaits)]
    for x in extra:
        if x not in out:
            out.append(x)
    return out


def tcp_cases(group, P):
    """Generate the cases of one named group.  P = bounds dict."""
    kind = group[0]
    if kind == "read":
        _, entry, fname, kc, kb = group
        n = 2 + len(frame_of(fname)[0])
        for cuts in subsets(range(1, n), kc):
            for blocks in multisets(range(0, n), kb):
                for T in timeouts_for(len(blocks)):
                    yield {"mode": "tcp", "entry": entry, "frame": fname, "cuts": list(cuts),
                           "blocks": list(blocks), "timeout": T}
    elif kind == "read-end":
        _, entry, fname, kc, kb = group
        n = 2 + len(frame_of(fname)[0])
        for endk in ("eof", "stall"):
            for p in range(0, n):
                for cuts in subsets(range(1, p), kc):
                    for blocks in multisets(range(0, p + 1), kb):
                        for T in timeouts_for(len(blocks), (len(blocks) + 0.5,)):
                            yield {"mode": "tcp", "entry": entry, "frame": fname, "cuts": list(cuts),
                                   "blocks": list(blocks), "timeout": T, "end": [endk, p]}
    elif kind == "read-misc":
        _, entry = group
        for fname in ["small", "medium", "big", "empty"] + ALPHABET + ["genuine"]:
            for orr in (False, True):
                for it in (False, True):
                    for cuts in ([], "all"):
                        yield {"mode": "tcp", "entry": entry, "frame": fname, "cuts": cuts,
                               "blocks": [], "timeout": 100.0, "opts": [orr, it]}
    elif kind == "write":
        _, entry, what, kc, kb = group
        m = 2 + len(the_query("small")[1])
        cutsets = list(subsets(range(1, m), kc)) if entry.startswith("sync") else [()]
        for cuts in cutsets + (["all"] if entry.startswith("sync") else []):
            for blocks in multisets(range(0, m), kb):
                for T in timeouts_for(len(blocks)):
                    yield {"mode": "tcp", "entry": entry, "frame": "small", "what": what,
                           "wcuts": cuts if cuts == "all" else list(cuts), "wblocks": list(blocks),
                           "timeout": T}
    elif kind == "exchange":
        _, entry, wkc, wkb, rkc, rkb = group
        m = 2 + len(the_query("small")[1])
        n = 2 + len(frame_of("small")[0])
        wsets = list(subsets(range(1, m), wkc)) if entry.startswith("sync") else [()]
        for wcuts in wsets:
            for wblocks in multisets(range(0, m), wkb):
                for cuts in subsets(range(1, n), rkc):
                    for blocks in multisets(range(0, n), rkb):
                        for T in timeouts_for(len(wblocks) + len(blocks)):
                            yield {"mode": "tcp", "entry": entry, "frame": "small",
                                   "wcuts": list(wcuts), "wblocks": list(wblocks),
                                   "cuts": list(cuts), "blocks": list(blocks), "timeout": T}
    elif kind == "exchange-end":
        _, entry = group
        n = 2 + len(frame_of("small")[0])
        for endk in ("eof", "stall"):
            for p in range(0, n):
                for blocks in multisets(range(0, p + 1), 1):
                    for wblocks in multisets(range(0, 3), 1):
                        for T in timeouts_for(len(blocks) + len(wblocks), (len(blocks) + len(wblocks) + 0.5,)):
                            yield {"mode": "tcp", "entry": entry, "frame": "small", "cuts": [],
                                   "blocks": list(blocks), "wblocks": list(wblocks), "timeout": T,
                                   "end": [endk, p]}
    else:
        raise AssertionError(group)


def tcp_task(task, col):
    group, shard, nshards, P = task
    for i, case in enumerate(tcp_cases(group, P)):
        if i % nshards != shard:
            continue
        probs, out = run_tcp(case)
        col.count("evaluations")
        col.count("tcp_cases")
        col.nontrivial(("tcp", repr(sorted(case.items(), key=lambda kv: kv[0]))))
        col.outcome("tcp:" + out)
        for s, w in probs:
            col.violation(s, w, case)
        if not probs and i == 4242:
            col.sample(dict(case, outcome=out), limit=1)


# ---------------------------------------------------------------- send_udp
def run_send_udp(case):
    install()
    entry = case["entry"]
    family, where, port, dest, srcs = CONFIGS[case["cfg"]]
    q, qwire, _ = the_query()
    blocks = case["send_blocks"]
    timeout = case["timeout"]
    expiration = None if timeout is None else CLOCK.now + timeout
    payload = qwire if case["what"] == "bytes" else q
    is_async = entry.startswith("async")
    sock = (AsyncUdpSock if is_async else SyncUdpSock)(family, [], blocks)
    probs = []
    n = None
    try:
        if is_async:
            n, _ = drive(dns.asyncquery.send_udp(sock, payload, dest, expiration))
        else:
            n, _ = dns.query.send_udp(sock, payload, dest, expiration)
        obs = ("return",)
    except BaseException as e:
        obs = classify(e)
    exp = ("raise", "Timeout") if timeout is not None and blocks >= timeout else ("return",)
    if obs != exp:
        probs.append(("unexpected-outcome/want-%s/got-%s" % (oname(exp), oname(obs)),
                      "send_udp with %d would-block events, timeout %s" % (blocks, timeout)))
    want = [(qwire, dest)] if exp == ("return",) else []
    if sock.sent != want:
        probs.append(("bytes-sent", "sent %r" % ([(len(w), d) for w, d in sock.sent],)))
    if obs == ("return",) and n != len(qwire):
        probs.append(("bytes-sent-count", "reported %r, datagram is %d" % (n, len(qwire))))
    for f in sock.faults:
        probs.append(("socket-misuse/" + f, f))
    return [("C18/%s/%s" % (entry, s), w) for s, w in probs], oname(obs)


def send_udp_task(task, col):
    for entry in ("sync.send_udp", "async.send_udp"):
        for cfg in CONFIGS:
            for what in ("bytes", "message"):
                for blocks in (0, 1, 2, 3):
                    for T in timeouts_for(blocks):
                        case = {"mode": "send_udp", "entry": entry, "cfg": cfg, "what": what,
                                "send_blocks": blocks, "timeout": T}
                        probs, out = run_send_udp(case)
                        col.count("evaluations")
                        col.count("send_udp_cases")
                        col.nontrivial(("send_udp", entry, cfg, what, blocks, T))
                        col.outcome("send_udp:" + out)
                        for s, w in probs:
                            col.violation(s, w, case)


# ---------------------------------------------------------------- model self-test
def selftest():
    """The alphabet must be what its labels say, judged by the reference parser."""
    _, _, qi = the_query()
    assert qi.error is None and qi.id == QID and not qi.qr and qi.opcode == 0
    assert qi.question == [(tuple(l.lower() for l in QNAME), nm.T_A, nm.C_IN)]
    gen = {s for s in SYMBOLS if nm.genuine(qi, INFOS[s])}
    assert gen == {"forged-addr", "forged-port", "forged-scope", "tc-genuine", "tc-cut", "trailing", "servfail-noq",
                   "corrupt-rdata", "cut-rdata", "genuine"}, gen
    bad = {s for s in SYMBOLS if INFOS[s].error is not None}
    assert bad == {"garbage", "short-header", "corrupt-rdata", "cut-rdata", "tc-cut", "tc-cut-wrong-id",
                   "trailing"}, bad
    assert INFOS["trailing"].error == "trailing" and INFOS["garbage"].error == "question"
    assert INFOS["short-header"].error == "short-header" and INFOS["corrupt-rdata"].error == "record"
    for s in ("tc-genuine", "tc-wrong-id", "tc-cut", "tc-cut-wrong-id"):
        assert INFOS[s].tc
    assert len(INFOS["genuine"].records) == 2
    for cfg, (family, where, port, dest, srcs) in CONFIGS.items():
        assert nm.source_ok(family, srcs["good"], dest)
        assert not nm.source_ok(family, srcs["port"], dest)
        assert nm.source_ok(family, srcs["addr"], dest) == cfg.startswith("mc")


# ---------------------------------------------------------------- framework entry points
def asyncio_task(arg, col):
    import sys
    from . import c18_asyncio
    c18_asyncio.task(sys.modules[__name__], arg, col)


def recheck(case):
    if case["mode"] == "asyncio":
        import sys
        from . import c18_asyncio
        return c18_asyncio.run_case(sys.modules[__name__], case)[0]
    if case["mode"] == "udp":
        return run_udp(case)[0]
    if case["mode"] == "tcp":
        return run_tcp(case)[0]
    if case["mode"] == "send_udp":
        return run_send_udp(case)[0]
    raise AssertionError(case["mode"])


ALL_OPTS = list(itertools.product((False, True), repeat=5))


def run(ctx):
    selftest()
    ctx.rule = (
        "UDP: depth-first walk of all datagram sequences of length <= depth over the %d-symbol "
        "non-genuine alphabet, each executed twice (followed by the genuine reply / by silence), for "
        "every entry point x address configuration x 32 option combinations x timing scheme; a "
        "sequence is extended only if the implementation asked the socket for a datagram beyond it "
        "(otherwise all extensions are the identical execution - counted in "
        "udp_sequences_represented).  TCP: every cut-point subset x would-block multiset at all byte "
        "positions of the length-prefixed stream, EOF/stall at every byte position, and for every "
        "script one run per deadline (none, far, expiring at the k-th wait for every k).  A case is "
        "distinct = distinct script + entry + options." % len(ALPHABET))
    ctx.assume("sockets are scripted objects passed through the public sock=/backend= parameters; "
               "dns.query._wait_for, dns.query.time and dns.asyncquery.time are rebound to a virtual clock")
    ctx.assume("one would-block event = 1 s of virtual waiting; deadlines are placed at k+0.5 s so "
               "arrival and expiry never coincide")
    ctx.assume("async sockets honour the backend contract: recv/recvfrom/sendall raise "
               "dns.exception.Timeout when the timeout passed to them runs out")
    ctx.assume("no TSIG/EDNS on the wire (C14/C08 cover them); udp_with_fallback, tls, quic, https are "
               "out of scope")
    depth = ctx.pick(2, 3)
    side_depth = ctx.pick(1, 2)
    ctx.extra["alphabet"] = ALPHABET
    ctx.extra["udp_depth"] = depth
    ctx.extra["udp_depth_other_configs"] = side_depth
    ctx.extra["udp_entries"] = UDP_ENTRIES
    ctx.extra["configs"] = list(CONFIGS)
    ctx.extra["option_combinations"] = len(ALL_OPTS)
    tasks = []
    # ---- UDP
    for entry in UDP_ENTRIES:
        for opts in ALL_OPTS:
            schemes = ["fast", "forever"] + ctx.pick([], ["mixed"]) + ["dl@%d" % k for k in range(depth + 1)]
            if ctx.quick and ("-" in entry or "+" in entry):
                # variant entry points share the code of the five plain ones
                schemes = ["fast", "dl@%d" % depth]
            for scheme in schemes:
                tasks.append((udp_task, (entry, "v4", opts, scheme, depth, 0)))
            for cfg in ("v6", "ll6", "mc4", "mc6"):
                for scheme in ("fast", "forever"):
                    tasks.append((udp_task, (entry, cfg, opts, scheme, side_depth, 0)))
            if entry_fn(entry).endswith(".udp"):
                for sb in (1, 2):
                    for scheme in ("fast", "dl@0", "dl@1", "dl@2"):
                        tasks.append((udp_task, (entry, "v4", opts, scheme, 1, sb)))
    # queries with another opcode (NOTIFY, IQUERY): the question still has to match
    for qop in (4, 1):
        for entry in ("sync.udp", "async.udp", "sync.receive_udp", "async.receive_udp"):
            for opts in ALL_OPTS:
                tasks.append((udp_task, (entry, "v4", opts, "fast", 1, 0, qop)))
    ctx.extra["query_opcodes"] = [0, 4, 1]
    # the real asyncio backend sockets under a virtual-time event loop
    for entry in ("asyncio.receive_udp", "asyncio.udp"):
        for opts in ALL_OPTS:
            tasks.append((asyncio_task, ("udp", entry, opts)))
    for entry in ("asyncio.receive_tcp", "asyncio.tcp"):
        tasks.append((asyncio_task, ("tcp", entry)))
    tasks.append((send_udp_task, None))
    # ---- TCP
    P = {}
    if ctx.quick:
        groups = [
            (("read", "sync.receive_tcp", "small", 3, 1), 8),
            (("read", "sync.receive_tcp", "small", 1, 2), 4),
            (("read", "async.receive_tcp", "small", 3, 1), 8),
            (("read", "async.receive_tcp", "small", 1, 2), 4),
            (("read", "sync.receive_tcp", "medium", 2, 0), 2),
            (("read", "sync.receive_tcp", "medium", 1, 1), 4),
            (("read", "async.receive_tcp", "medium", 1, 1), 4),
            (("read", "sync.receive_tcp", "big", 1, 0), 1),
            (("read", "async.receive_tcp", "big", 1, 0), 1),
            (("read-end", "sync.receive_tcp", "small", 1, 1), 2),
            (("read-end", "async.receive_tcp", "small", 1, 1), 2),
            (("read-end", "sync.receive_tcp", "medium", 0, 1), 2),
            (("read-end", "async.receive_tcp", "medium", 0, 1), 2),
            (("write", "sync.send_tcp", "bytes", 3, 1), 4),
            (("write", "sync.send_tcp", "message", 1, 2), 4),
            (("write", "async.send_tcp", "bytes", 0, 2), 1),
            (("write", "async.send_tcp", "message", 0, 2), 1),
            (("exchange", "sync.tcp", 1, 1, 1, 0), 4),
            (("exchange", "sync.tcp", 1, 0, 1, 1), 4),
            (("exchange", "sync.tcp", 0, 2, 0, 1), 4),
            (("exchange", "sync.tcp", 0, 1, 0, 2), 4),
            (("exchange", "async.tcp", 0, 1, 1, 1), 4),
            (("exchange", "async.tcp", 0, 2, 0, 2), 8),
        ]
    else:
        groups = [
            (("read", "sync.receive_tcp", "small", 3, 2), 64),
            (("read", "async.receive_tcp", "small", 3, 2), 64),
            (("read", "sync.receive_tcp", "medium", 3, 0), 32),
            (("read", "sync.receive_tcp", "medium", 2, 1), 64),
            (("read", "async.receive_tcp", "medium", 2, 1), 64),
            (("read", "sync.receive_tcp", "medium", 1, 2), 64),
            (("read", "async.receive_tcp", "medium", 1, 2), 64),
            (("read", "sync.receive_tcp", "big", 2, 0), 32),
            (("read", "sync.receive_tcp", "big", 1, 1), 64),
            (("read", "async.receive_tcp", "big", 1, 1), 64),
            (("read-end", "sync.receive_tcp", "small", 2, 2), 16),
            (("read-end", "async.receive_tcp", "small", 2, 2), 16),
            (("read-end", "sync.receive_tcp", "medium", 1, 1), 32),
            (("read-end", "async.receive_tcp", "medium", 1, 1), 32),
            (("read-end", "sync.receive_tcp", "big", 0, 1), 32),
            (("read-end", "async.receive_tcp", "big", 0, 1), 32),
            (("write", "sync.send_tcp", "bytes", 3, 2), 64),
            (("write", "sync.send_tcp", "message", 3, 2), 64),
            (("write", "async.send_tcp", "bytes", 0, 2), 1),
            (("write", "async.send_tcp", "message", 0, 2), 1),
            (("exchange", "sync.tcp", 1, 1, 1, 1), 64),
            (("exchange", "sync.tcp", 2, 0, 2, 0), 16),
            (("exchange", "sync.tcp", 0, 2, 0, 2), 32),
            (("exchange", "sync.tcp", 3, 0, 0, 1), 8),
            (("exchange", "sync.tcp", 0, 1, 3, 0), 8),
            (("exchange", "async.tcp", 0, 1, 2, 1), 32),
            (("exchange", "async.tcp", 0, 2, 0, 2), 32),
            (("exchange", "async.tcp", 0, 0, 3, 1), 16),
        ]
    for entry in ("sync.receive_tcp", "async.receive_tcp", "sync.tcp", "async.tcp"):
        groups.append((("read-misc", entry), 1))
    for entry in ("sync.tcp", "async.tcp"):
        groups.append((("exchange-end", entry), 2))
    ctx.extra["tcp_groups"] = [
        {"group": list(g), "shards": n} for g, n in groups]
    ctx.extra["tcp_group_legend"] = (
        "read/write: (entry, frame, max cut points, max would-block events); exchange: (entry, write "
        "cuts, write blocks, read cuts, read blocks); frames: small=17 B, medium=%d B, big=%d B "
        "(length prefix with two non-zero octets)" % (len(GENUINE), len(frame_of("big")[0])))
    for g, n in groups:
        for shard in range(n):
            tasks.append((tcp_task, (g, shard, n, P)))
    ctx.pmap(_dispatch, tasks, chunksize=4)


def _dispatch(task, col):
    fn, arg = task
    fn(arg, col)
