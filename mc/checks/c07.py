"""C07: names and records are immutable values with canonical eq/hash/order; record sets
are insertion-ordered mathematical sets with exact algebra, refusal, singleton and TTL rules.

(i)   immutability: Name and one or more instances of every Rdata class under dns/rdtypes
      (built from text specimens, from reference wire templates, relativised and generic):
      every slot is set / deleted, a fresh attribute is set; every field is walked.
(ii)  value semantics: all ordered pairs of the values generated per type from wire
      templates (case variants of embedded names, relative variants, generic form, byte and
      name alternatives) against an independent canonical-encoding reference (the template
      itself, RFC 4034 6.2 / RFC 6840 5.1 case folding).
(iii) explicit-state BFS over operation histories on two sets S, T of each kind against
      mc/refs/setmodel.py.
"""
from __future__ import annotations

import base64
import copy
import importlib
import inspect
import operator
import pkgutil
import struct
import enum

import dns.exception
import dns.immutable
import dns.name
import dns.rdata
import dns.rdataclass
import dns.rdataset
import dns.rdatatype
import dns.rrset
import dns.set
import dns._immutable_ctx

from .. import engines
from ..refs import setmodel as sm

PROPERTY = "C07"
LEVEL = "model_checking"

IN, CH, ANYC = 1, 3, 255
ORIGIN_TEXT = "example."

# ------------------------------------------------------------------ wire template DSL
FOLD, EITHER = "fold", "either"
# FOLD:   type is in the RFC 4034 6.2 list (minus NSEC, RFC 6840 5.1): the canonical form
#         has the name in lower case, so case variants MUST be equal.
# EITHER: name in a type that is not in that list (RFC 3597 7 / RFC 4034 say "not folded",
#         the property text says "embedded names compare case-insensitively"): the oracle
#         accepts the implementation being consistently case-sensitive or consistently
#         case-insensitive for that type.


class Nm:
    """An embedded (uncompressed) domain name inside a wire template."""

    def __init__(self, text, mode=FOLD):
        assert text.endswith(".")
        self.text = text
        self.mode = mode

    def wire(self, case, rel=False):
        t = self.text
        if rel and self.relative():
            # a relativised name compared "as if relative to the root" (Rdata._cmp docstring)
            t = t[:len(t) - len(ORIGIN_TEXT)] or "."
        if case == "lower":
            t = t.lower()
        elif case == "upper":
            t = t.upper()
        if t == ".":
            return b"\x00"
        out = b""
        for lab in t[:-1].split("."):
            out += bytes([len(lab)]) + lab.encode("ascii")
        return out + b"\x00"

    def relative(self):
        return self.text.lower().endswith(ORIGIN_TEXT)

    def __repr__(self):
        return "Nm(%r,%s)" % (self.text, self.mode)


def u8(x):
    return struct.pack("!B", x)


def u16(x):
    return struct.pack("!H", x)


def u32(x):
    return struct.pack("!I", x)


def cs(b):
    return bytes([len(b)]) + b


def hx(s):
    return bytes.fromhex(s.replace(" ", ""))


def b32hex(s):
    return base64.b32hexdecode(s.upper())


def render(parts, case="given"):
    """The RDATA octets handed to from_wire."""
    return b"".join(p.wire(case) if isinstance(p, Nm) else p for p in parts)


def canon(parts, case, reading, rel=False):
    """Reference canonical RDATA (RFC 4034 6.2): names uncompressed; lower case for the
    listed types; for unlisted types according to `reading` ('fold' or 'keep')."""
    out = b""
    for p in parts:
        if isinstance(p, Nm):
            w = p.wire(case, rel)
            if p.mode == FOLD or reading == "fold":
                w = w.lower()
            out += w
        else:
            out += p
    return out


def has_names(parts):
    return any(isinstance(p, Nm) for p in parts)


def has_either(parts):
    return any(isinstance(p, Nm) and p.mode == EITHER for p in parts)


def is_relative(parts):
    return any(isinstance(p, Nm) and p.relative() for p in parts)


def count_relative(parts):
    return sum(1 for p in parts if isinstance(p, Nm) and p.relative())


def relative_names_in(obj):
    """Number of relative Name objects among the fields of a record (observation only)."""
    n = 0
    stack = [getattr(obj, s) for s in all_slots(obj) if hasattr(obj, s)]
    while stack:
        v = stack.pop()
        if isinstance(v, dns.name.Name):
            n += 0 if v.is_absolute() else 1
        elif isinstance(v, (tuple, frozenset)):
            stack.extend(v)
        elif isinstance(v, dns.immutable.Dict):
            stack.extend(v.values())
        elif is_immutable_class(v):
            stack.extend(getattr(v, s) for s in all_slots(v) if hasattr(v, s))
    return n


class Spec:
    def __init__(self, rdtype, text, parts, alts=(), rdclass=IN, more_texts=(), auto=True):
        self.rdtype = rdtype       # mnemonic or int
        self.rdclass = rdclass
        self.text = text           # text specimen denoting the same value as `parts` (or None)
        self.parts = parts
        self.alts = list(alts)     # further templates: distinct values of the same type
        self.more_texts = list(more_texts)  # further text specimens (immutability only)
        self.auto = auto
        self.key = "%s/%s" % (rdclass, rdtype)

    def type_int(self):
        if isinstance(self.rdtype, int):
            return self.rdtype
        return int(dns.rdatatype.from_text(self.rdtype))


def N(t="Ns1.Example.", mode=FOLD):
    return Nm(t, mode)


SIGFIX = u8(8) + u8(2) + u32(300) + u32(1893456000) + u32(1577836800)
SIGTXT = "8 2 300 1893456000 1577836800"
DIGEST20 = hx("123456789abcdef67890123456789abcdef67890")
HIT = hx("200100107B1A74DF365639CC39F1D578")
H32 = "2t7b4g4vsa5smi47k61mv5bv1a22bojr"


def _specs():
    S = []

    def add(*a, **k):
        S.append(Spec(*a, **k))

    add("A", "10.0.0.1", [hx("0a000001")], [[hx("0a000002")], [hx("09ffffff")], [hx("ff000000")]])
    add("AAAA", "2001:db8::1", [hx("20010db8" + "00" * 11 + "01")], [[hx("00" * 15 + "01")]])
    for t, mode in (("NS", FOLD), ("CNAME", FOLD), ("PTR", FOLD), ("DNAME", FOLD), ("NSAP-PTR", EITHER)):
        add(t, "Ns1.Example.", [N(mode=mode)],
            [[N("Ns2.Example.", mode)], [N("A.Ns1.Example.", mode)], [N("Z.Example.", mode)],
             [N("Example.", mode)], [N(".", mode)], [N("Ns1.Example.Org.", mode)]])
    for t in ("MX", "AFSDB", "RT", "KX"):
        add(t, "10 Ns1.Example.", [u16(10), N()],
            [[u16(9), N("Zz.Example.")], [u16(10), N("Ns0.Example.")], [u16(256), N("A.Example.")]])
    add("SOA", "Ns1.Example. Host.Example. 1 2 3 4 5",
        [N(), N("Host.Example."), u32(1), u32(2), u32(3), u32(4), u32(5)],
        [[N(), N("Host.Example."), u32(2), u32(2), u32(3), u32(4), u32(5)],
         [N(), N("Hosu.Example."), u32(0), u32(2), u32(3), u32(4), u32(5)]])
    add("RP", "Mbox.Example. Txt.Example.", [N("Mbox.Example."), N("Txt.Example.")],
        [[N("Mbox.Example."), N(".")]])
    add("PX", "10 Foo.Example. Bar.Example.", [u16(10), N("Foo.Example."), N("Bar.Example.")],
        [[u16(10), N("Foo.Example."), N("Baz.Example.")]])
    add("SRV", "1 2 3 Ns1.Example.", [u16(1), u16(2), u16(3), N()],
        [[u16(1), u16(2), u16(4), N("A.Example.")], [u16(0), u16(65535), u16(3), N()]])
    add("NAPTR", '1 2 "u" "Svc" "re" Ns1.Example.',
        [u16(1), u16(2), cs(b"u"), cs(b"Svc"), cs(b"re"), N()],
        [[u16(1), u16(2), cs(b"u"), cs(b"svc"), cs(b"re"), N()],
         [u16(1), u16(2), cs(b""), cs(b""), cs(b""), N(".")]])
    for t in ("RRSIG", "SIG"):
        add(t, "A %s 1 Example. AQID" % SIGTXT, [u16(1), SIGFIX, u16(1), N("Example."), hx("010203")],
            [[u16(1), SIGFIX, u16(2), N("Example."), hx("010203")],
             [u16(2), SIGFIX, u16(1), N("Example."), hx("010203")],
             [u16(1), SIGFIX, u16(1), N("A.Example."), hx("0102")]])
    add("NSEC", "Next.Example. A NS", [N("Next.Example.", EITHER), hx("000160")],
        [[N("Next.Example.", EITHER), hx("000140")], [N("Nexu.Example.", EITHER), hx("000160")]])
    add("NSEC3", "1 0 1 abcd %s A NS" % H32,
        [hx("0100000102abcd"), cs(b32hex(H32)), hx("000160")],
        [[hx("0100000100"), cs(b32hex(H32)), hx("000160")],
         [hx("0101000102abcd"), cs(b32hex(H32)), b""]])
    add("NSEC3PARAM", "1 0 1 abcd", [hx("0100000102abcd")], [[hx("0100000100")]])
    for t in ("DS", "CDS", "DLV"):
        add(t, "12345 8 1 " + DIGEST20.hex(), [u16(12345), u8(8), u8(1), DIGEST20],
            [[u16(12346), u8(8), u8(1), DIGEST20], [u16(1), u8(13), u8(1), DIGEST20]])
    for t in ("DNSKEY", "CDNSKEY", "KEY"):
        add(t, "256 3 8 AQID", [u16(256), u8(3), u8(8), hx("010203")],
            [[u16(257), u8(3), u8(8), hx("010203")], [u16(256), u8(3), u8(8), hx("0102")]])
    for t in ("TXT", "SPF", "AVC", "NINFO"):
        add(t, '"foo" "Bar"', [cs(b"foo"), cs(b"Bar")],
            [[cs(b"foo"), cs(b"bar")], [cs(b"foo")], [cs(b"foobar")], [cs(b""), cs(b"x")]])
    add("RESINFO", "qnamemin exterr=15", [cs(b"qnamemin"), cs(b"exterr=15")], [[cs(b"qnamemin")]])
    add("WALLET", "EXAMPLE 0123", [cs(b"EXAMPLE"), cs(b"0123")], [[cs(b"example"), cs(b"0123")]])
    add("HINFO", '"PC" "NetBSD"', [cs(b"PC"), cs(b"NetBSD")], [[cs(b"pc"), cs(b"NetBSD")]])
    add("ISDN", '"isdn" "sub"', [cs(b"isdn"), cs(b"sub")], [[cs(b"isdn")], [cs(b"isdo"), cs(b"sub")]],
        more_texts=['"isdn"'])
    add("X25", '"123456789"', [cs(b"123456789")], [[cs(b"12345678")]])
    add("GPOS", '"-22.6882" "116.8652" "250.0"', [cs(b"-22.6882"), cs(b"116.8652"), cs(b"250.0")],
        [[cs(b"-22.6882"), cs(b"116.8652"), cs(b"250.1")]])
    add("LOC", "60 9 0.000 N 24 39 0.000 E 10.00m 20.00m 2000.00m 20.00m",
        [hx("00232523"), u32(2364023648), u32(2236223648), u32(10001000)],
        [[hx("00232523"), u32(2364023649), u32(2236223648), u32(10001000)],
         [hx("00122523"), u32(1931007648), u32(2236223648), u32(9999000)]])
    add("CERT", "PKIX 12345 8 AQID", [u16(1), u16(12345), u8(8), hx("010203")],
        [[u16(2), u16(12345), u8(8), hx("010203")]])
    add("SSHFP", "1 1 " + DIGEST20.hex(), [u8(1), u8(1), DIGEST20], [[u8(2), u8(1), DIGEST20]])
    for t in ("TLSA", "SMIMEA"):
        add(t, "3 1 1 a9cdf989b504fe5d", [hx("030101a9cdf989b504fe5d")], [[hx("030100a9cdf989b504fe5d")]])
    add("ZONEMD", "2018031900 1 240 e2d523f654b9422a96c5a8f44607bbee",
        [u32(2018031900), u8(1), u8(240), hx("e2d523f654b9422a96c5a8f44607bbee")],
        [[u32(2018031901), u8(1), u8(240), hx("e2d523f654b9422a96c5a8f44607bbee")]])
    for t in ("DHCID", "OPENPGPKEY", "HHIT", "BRID"):
        add(t, "AQID", [hx("010203")], [[hx("010204")], [hx("0102")], [hx("01020300")]])
    add("EUI48", "00-00-5e-00-53-2a", [hx("00005e00532a")], [[hx("00005e00532b")]])
    add("EUI64", "00-00-5e-ef-10-00-00-2a", [hx("00005eef1000002a")], [[hx("01005eef1000002a")]])
    add("NID", "10 0014:4fff:ff20:ee64", [u16(10), hx("00144fffff20ee64")], [[u16(9), hx("00144fffff20ee64")]])
    add("L32", "10 10.1.2.0", [u16(10), hx("0a010200")], [[u16(10), hx("0a010201")]])
    add("L64", "10 2001:0DB8:1140:1000", [u16(10), hx("20010db811401000")], [[u16(11), hx("20010db811401000")]])
    add("LP", "10 L64.Example.", [u16(10), N("L64.Example.", EITHER)],
        [[u16(10), N("L65.Example.", EITHER)], [u16(9), N("Zz.Example.", EITHER)]])
    add("URI", '10 1 "ftp://Ftp1.example.com/public"', [u16(10), u16(1), b"ftp://Ftp1.example.com/public"],
        [[u16(10), u16(1), b"ftp://ftp1.example.com/public"]])
    add("CAA", '0 issue "ca.example.net"', [u8(0), cs(b"issue"), b"ca.example.net"],
        [[u8(128), cs(b"issue"), b"ca.example.net"], [u8(0), cs(b"iodef"), b"ca.example.net"]])
    add("CSYNC", "12345 0 A NS", [u32(12345), u16(0), hx("000160")], [[u32(12345), u16(3), hx("000160")]])
    add("HIP", "2 200100107B1A74DF365639CC39F1D578 AQID Rvs.Example.",
        [u8(16), u8(2), u16(3), HIT, hx("010203"), N("Rvs.Example.", EITHER)],
        [[u8(16), u8(2), u16(3), HIT, hx("010203")],
         [u8(16), u8(2), u16(3), HIT, hx("010203"), N("Rvs.Example.", EITHER), N("Rvt.Example.", EITHER)]])
    add("IPSECKEY", "10 3 2 Gw.Example. AQID", [u8(10), u8(3), u8(2), N("Gw.Example.", EITHER), hx("010203")],
        [[u8(10), u8(1), u8(2), hx("c0000226"), hx("010203")],
         [u8(10), u8(0), u8(2), hx("010203")],
         [u8(10), u8(2), u8(2), hx("20010db8" + "00" * 11 + "01"), hx("010203")]],
        more_texts=["10 1 2 192.0.2.38 AQID", "10 0 2 . AQID", "10 2 2 2001:db8::1 AQID"])
    add("AMTRELAY", "10 0 3 Relay.Example.", [u8(10), u8(3), N("Relay.Example.", EITHER)],
        [[u8(10), u8(0x83), N("Relay.Example.", EITHER)], [u8(10), u8(1), hx("cb00710f")], [u8(0), u8(0)]],
        more_texts=["10 0 1 203.0.113.15", "10 0 2 2001:db8::15", "0 0 0 ."])
    add("APL", "1:192.168.32.0/21 !1:192.168.38.0/28", [hx("00011503c0a820"), hx("00011c83c0a826")],
        [[hx("00011503c0a820")], [b""], [hx("00020801ff")]],
        more_texts=["2:FF00:0:0:0:0:0:0:0/8"])
    add("WKS", "10.0.0.1 6 0 1 2 21 23", [hx("0a000001"), u8(6), hx("e00005")],
        [[hx("0a000001"), u8(17), hx("e00005")]])
    add("NSAP", "0x47000580005a0000000001e133ffffff00016100", [hx("47000580005a0000000001e133ffffff00016100")],
        [[hx("47000580005a0000000001e133ffffff00016101")]])
    for t in ("SVCB", "HTTPS"):
        add(t, '1 Svc.Example. alpn="h2" port=8443 ipv4hint=1.2.3.4',
            [u16(1), N("Svc.Example.", EITHER), hx("00010003026832"), hx("0003000220fb"), hx("0004000401020304")],
            [[u16(0), N("Svc.Example.", EITHER)], [u16(1), N("Svc.Example.", EITHER), hx("0003000220fb")]],
            more_texts=['100 foo.example. mandatory="alpn,port" alpn="h2,h3" no-default-alpn port="12345" '
                        'ech="abcd" ipv4hint=1.2.3.4,4.3.2.1 ipv6hint=1::2,3::4 key12345="foo"',
                        "16 foo.example. dohpath=/dns-query{?dns}", "16 foo.example. ohttp", "0 svc.example."])
    add("DSYNC", "CDS NOTIFY 5300 Endpoint.Example.", [u16(59), u8(1), u16(5300), N("Endpoint.Example.", EITHER)],
        [[u16(62), u8(1), u16(5300), N("Endpoint.Example.", EITHER)]], more_texts=["CSYNC 128 443 e.example."])
    add("TKEY", None,
        [N("Alg.Example.", EITHER), u32(1), u32(2), u16(3), u16(0), u16(3), hx("010203"), u16(2), hx("0405")],
        [[N("Alg.Example.", EITHER), u32(1), u32(2), u16(3), u16(0), u16(3), hx("010203"), u16(0)]])
    add("TSIG", None,
        [N("Hmac-Sha256.", EITHER), hx("000000000001"), u16(300), u16(3), hx("010203"), u16(7), u16(0), u16(0)],
        [[N("Hmac-Sha256.", EITHER), hx("000000000002"), u16(300), u16(3), hx("010203"), u16(7), u16(0), u16(0)]],
        rdclass=ANYC)
    add("OPT", None, [hx("000a00080102030405060708"), hx("0003000461626364"), hx("0008000700011800c0a801"),
                      hx("ff00000101"), hx("000f00050003616263")],
        [[hx("000a00080102030405060708")], [b""]], rdclass=4096, auto=False)
    add("A", "Host.Example. 755", [N("Host.Example.", EITHER), u16(0o755)],
        [[N("Host.Example.", EITHER), u16(0o756)]], rdclass=CH)
    add(65280, "\\# 3 010203", [hx("010203")], [[hx("010204")], [hx("0102")], [b""]])
    return S


SPECS = _specs()
SPEC_BY_KEY = {s.key: s for s in SPECS}
LAYOUT_GROUPS = [["1/NS", "1/CNAME", "1/PTR", "1/DNAME", "1/NSAP-PTR"], ["1/MX", "1/AFSDB", "1/RT", "1/KX"],
                 ["1/TXT", "1/SPF", "1/AVC", "1/NINFO"], ["1/DS", "1/CDS", "1/DLV"],
                 ["1/DNSKEY", "1/CDNSKEY", "1/KEY"], ["1/TLSA", "1/SMIMEA"], ["1/RRSIG", "1/SIG"],
                 ["1/SVCB", "1/HTTPS"], ["1/DHCID", "1/OPENPGPKEY", "1/HHIT", "1/BRID", "1/65280"]]


# ------------------------------------------------------------------ instances
def origin():
    return dns.name.from_text(ORIGIN_TEXT)


def mk(rdclass, rdtype, wire, org=None):
    return dns.rdata.from_wire(rdclass, rdtype, wire, 0, len(wire), org)


def crash_sig(e):
    import traceback
    tb = traceback.extract_tb(e.__traceback__)
    return "%s@%s" % (type(e).__name__, tb[-1].name if tb else "?")


def tname(spec):
    return ("%s" % spec.rdtype) if spec.rdclass == IN else "%s-class%d" % (spec.rdtype, spec.rdclass)


# ------------------------------------------------------------------ (i) immutability
SCALARS = (int, str, bytes, bool, float, type(None), enum.Enum)


def all_slots(obj):
    names = []
    for cls in type(obj).__mro__:
        sl = getattr(cls, "__slots__", ())
        if isinstance(sl, str):
            sl = (sl,)
        for s in sl:
            if s not in names and s not in ("__dict__", "__weakref__"):
                names.append(s)
    for s in getattr(obj, "__dict__", {}):
        if s not in names:
            names.append(s)
    return names


def is_immutable_class(obj):
    return dns._immutable_ctx._Immutable in type(obj).__mro__


class _Absent:
    pass


def poke(obj, where, probs):
    """Try to rebind / delete every slot and to add a fresh attribute."""
    n = 0
    for slot in all_slots(obj):
        old = getattr(obj, slot, _Absent)
        for what, new in (("same", old), ("other", ("c07", "poke"))):
            if new is _Absent:
                continue
            n += 1
            try:
                setattr(obj, slot, new)
                probs.append(("immut/setattr-accepted/%s" % where, "setattr(%s, %r, ...) did not raise" % (where, slot)))
            except Exception:
                pass
            if getattr(obj, slot, _Absent) is not old:
                probs.append(("immut/setattr-changed/%s" % where, "attribute %r of %s was rebound" % (slot, where)))
                object.__setattr__(obj, slot, old)
        n += 1
        try:
            delattr(obj, slot)
            probs.append(("immut/delattr-accepted/%s" % where, "delattr(%s, %r) did not raise" % (where, slot)))
        except Exception:
            pass
        if getattr(obj, slot, _Absent) is not old:
            probs.append(("immut/delattr-changed/%s" % where, "attribute %r of %s was deleted" % (slot, where)))
            if old is not _Absent:
                object.__setattr__(obj, slot, old)
    n += 1
    try:
        setattr(obj, "c07_fresh_attribute", 1)
        probs.append(("immut/fresh-attribute-accepted/%s" % where, "a new attribute could be set on %s" % where))
    except Exception:
        pass
    if hasattr(obj, "c07_fresh_attribute"):
        probs.append(("immut/fresh-attribute-present/%s" % where, "a new attribute exists on %s" % where))
    return n


def walk(v, path, probs, seen, counter):
    """Only immutable value types may be reachable from a record."""
    counter[0] += 1
    if isinstance(v, SCALARS):
        return
    if isinstance(v, (tuple, frozenset)):
        for x in v:
            walk(x, path + "[]", probs, seen, counter)
        return
    if id(v) in seen:
        return
    seen.add(id(v))
    if isinstance(v, dns.immutable.Dict):
        for k in v:
            walk(k, path + "{key}", probs, seen, counter)
            walk(v[k], path + "{}", probs, seen, counter)
        counter[0] += poke(v, path + "<Dict>", probs)
        return
    if is_immutable_class(v):
        counter[0] += poke(v, path + "<%s>" % type(v).__name__ if path.count("[") + path.count("{") else path, probs)
        for slot in all_slots(v):
            if hasattr(v, slot):
                walk(getattr(v, slot), path + "." + slot, probs, seen, counter)
        return
    probs.append(("immut/mutable-field/%s" % path,
                  "field %s holds a mutable %s.%s" % (path, type(v).__module__, type(v).__name__)))


def instances(spec):
    """(description, object) for every construction route of a specimen."""
    t = spec.type_int()
    out = []
    texts = ([spec.text] if spec.text is not None else []) + spec.more_texts
    for i, tx in enumerate(texts):
        out.append(("text#%d" % i, dns.rdata.from_text(spec.rdclass, t, tx)))
    if texts and is_relative(spec.parts):
        out.append(("text-relativized", dns.rdata.from_text(spec.rdclass, t, texts[0], origin(), True)))
    for i, parts in enumerate([spec.parts] + spec.alts):
        w = render(parts)
        out.append(("wire#%d" % i, mk(spec.rdclass, t, w)))
        if is_relative(parts):
            out.append(("wire#%d-relativized" % i, mk(spec.rdclass, t, w, origin())))
    base = mk(spec.rdclass, t, render(spec.parts))
    out.append(("to_generic", base.to_generic()))
    try:
        out.append(("replace", base.replace(rdcomment="c")))
    except Exception:
        pass   # replace() is C02/C05 territory; here it is only one more construction route
    return out


def _to_mutable(v, reg, path):
    """Deep copy of a field value in which every immutable container is replaced by its
    mutable counterpart (tuple -> list, bytes -> bytearray, immutable Dict -> dict)."""
    if isinstance(v, tuple):
        m = [_to_mutable(x, reg, path + "[]") for x in v]
        reg.append((path, m))
        return m
    if isinstance(v, bytes):
        m = bytearray(v)
        reg.append((path, m))
        return m
    if isinstance(v, dns.immutable.Dict):
        m = {k: _to_mutable(x, reg, path + "{}") for k, x in v.items()}
        reg.append((path, m))
        return m
    return v


def constructor_aliasing(spec, base, probs):
    """Build the record through its constructor from caller-owned *mutable* containers, then
    mutate those containers: an immutable value must not notice."""
    import inspect
    cls = type(base)
    try:
        params = [p for p in list(inspect.signature(cls.__init__).parameters)[1:] if p not in ("rdclass", "rdtype")]
    except (TypeError, ValueError):
        return "no-signature"
    args, reg = {}, []
    for name in params:
        if not hasattr(base, name):
            return "constructor-not-generic"
        args[name] = _to_mutable(getattr(base, name), reg, name)
    if not reg:
        return "no-containers"
    try:
        r2 = cls(base.rdclass, base.rdtype, **args)
    except Exception:
        return "constructor-rejects-mutable-containers"

    def obs():
        try:
            w = r2.to_wire(origin=origin())
        except Exception as e:
            w = "to_wire:" + type(e).__name__
        try:
            h = hash(r2)
        except Exception as e:
            h = "hash:" + type(e).__name__
        return (w, h, r2 == base)

    before = obs()
    for path, m in reg:
        if isinstance(m, list):
            m.append(m[0] if m else 0)
            if len(m) > 1:
                del m[0]
        elif isinstance(m, bytearray):
            if len(m):
                m[0] ^= 0xFF
            m.append(0x41)
        else:
            m.clear()
        after = obs()
        if after != before:
            probs.append(("immut/constructor-aliases-caller-container/%s.%s" % (tname(spec), path.split("[")[0].split("{")[0]),
                          "%s built from a caller-owned mutable %s for field %s changed (wire/hash/equality) when the caller "
                          "mutated its container afterwards" % (tname(spec), type(m).__name__, path)))
            return "aliased"
    return "independent"


def run_immut(case):
    probs = []
    n = [0]
    if case["spec"] == "Name":
        objs = [("Name:" + d, o) for d, o in (
            ("absolute", dns.name.from_text("Www.Example.")), ("relative", dns.name.from_text("www", None)),
            ("root", dns.name.root), ("empty", dns.name.empty),
            ("from-wire", dns.name.from_wire(b"\x03Www\x07Example\x00", 0)[0]),
            ("derived", dns.name.from_text("a.b.example.").parent().relativize(origin())),
            ("unicode", dns.name.from_unicode("königsgäßchen.example.")))]
        for d, o in objs:
            walk(o, "Name", probs, set(), n)
        # labels handed in as caller-owned mutable buffers: refused, or copied
        for lab in (bytearray(b"abc"), memoryview(b"abc")):
            try:
                nm_ = dns.name.Name([lab, b""])
            except Exception:
                n[0] += 1
                continue
            n[0] += 1
            if not all(type(x) is bytes for x in nm_.labels):
                probs.append(("immut/name-holds-mutable-label/%s" % type(lab).__name__,
                              "Name([%s(...), b'']) keeps the caller's buffer as a label (types %s)" % (
                                  type(lab).__name__, [type(x).__name__ for x in nm_.labels])))
        return probs, n[0], len(objs)
    spec = SPEC_BY_KEY[case["spec"]]
    objs = instances(spec)
    for d, o in objs:
        walk(o, tname(spec), probs, set(), n)
    for d, o in objs:
        if d.startswith("wire#") and "relativized" not in d:
            constructor_aliasing(spec, o, probs)
            n[0] += 1
    return probs, n[0], len(objs)


def rdata_classes():
    """Every Rdata subclass defined under dns/rdtypes (module named after its type)."""
    found = {}
    import dns.rdtypes
    for sub in ("ANY", "IN", "CH"):
        pkg = importlib.import_module("dns.rdtypes." + sub)
        for m in pkgutil.iter_modules(pkg.__path__):
            mod = importlib.import_module("dns.rdtypes.%s.%s" % (sub, m.name))
            for nm, c in inspect.getmembers(mod, inspect.isclass):
                if c.__module__ == mod.__name__ and issubclass(c, dns.rdata.Rdata):
                    found["%s.%s" % (sub, nm)] = c
    return found


def covered_classes():
    got = set()
    for spec in SPECS:
        t = spec.type_int()
        w = render(spec.parts)
        c = type(mk(spec.rdclass, t, w))
        for k in c.__mro__:
            got.add(k)
    return got


# ------------------------------------------------------------------ (ii) eq / hash / order
class Val:
    __slots__ = ("obj", "kind", "kfold", "kkeep", "desc")

    def __init__(self, obj, kind, kfold, kkeep, desc):
        self.obj, self.kind, self.kfold, self.kkeep, self.desc = obj, kind, kfold, kkeep, desc

    def k(self, reading):
        return self.kfold if reading == "fold" else self.kkeep


ALT_NAMES = ["Ns2.Example.", "A.Ns1.Example.", "Example.", "Nt.Example."]


def templates(spec):
    """Hand written templates first (unfiltered), then automatic single-field variants
    (kept only when from_wire accepts them and the record re-encodes to the same octets,
    i.e. the octets are the unique encoding of that value)."""
    hand = [spec.parts] + spec.alts
    auto = []
    if spec.auto:
        for i, p in enumerate(spec.parts):
            if isinstance(p, Nm):
                for an in ALT_NAMES:
                    if an.lower() != p.text.lower():
                        auto.append(spec.parts[:i] + [Nm(an, p.mode)] + spec.parts[i + 1:])
            elif len(p) > 0 and i < 4:
                for pos, delta in sorted({(0, 1), (len(p) - 1, 1), (len(p) - 1, 255)}):
                    if True:
                        q = bytearray(p)
                        q[pos] = (q[pos] + delta) % 256
                        auto.append(spec.parts[:i] + [bytes(q)] + spec.parts[i + 1:])
    return hand, auto


def values(spec, col=None):
    t = spec.type_int()
    hand, auto = templates(spec)
    vals = []
    seen = set()
    for idx, parts in enumerate(hand + auto):
        is_auto = idx >= len(hand)
        cases = ("given", "lower", "upper") if has_names(parts) else ("given",)
        for case in cases:
            w = render(parts, case)
            if (w, "abs") in seen:
                continue
            try:
                obj = mk(spec.rdclass, t, w)
                if is_auto and obj.to_wire() != w:
                    raise ValueError("not the unique encoding")
            except Exception:
                if not is_auto:
                    raise
                if col is not None:
                    col.count("auto_variants_rejected")
                continue
            seen.add((w, "abs"))
            kf, kk = canon(parts, case, "fold"), canon(parts, case, "keep")
            d = "%s#%d/%s" % ("auto" if is_auto else "tmpl", idx, case)
            vals.append(Val(obj, "abs", kf, kk, d))
            if is_relative(parts):
                # from_wire(origin=...) relativises the names below the origin; the record is
                # then compared "as if relative to the root" (documented stop-gap)
                ro = mk(spec.rdclass, t, w, origin())
                nrel = relative_names_in(ro)
                if nrel == count_relative(parts):
                    vals.append(Val(ro, "rel", canon(parts, case, "fold", True),
                                    canon(parts, case, "keep", True), d + "/relativized"))
                elif nrel == 0:
                    vals.append(Val(ro, "abs", kf, kk, d + "/not-relativized"))
                elif col is not None:
                    col.count("partially_relativized_skipped")
            if case == "lower" or not has_names(parts):
                if not is_auto:
                    vals.append(Val(obj.to_generic(), "abs", kf, kk, d + "/to_generic"))
    if spec.text is not None:
        vals.append(Val(dns.rdata.from_text(spec.rdclass, t, spec.text), "abs",
                        canon(spec.parts, "given", "fold"), canon(spec.parts, "given", "keep"), "text"))
        if is_relative(spec.parts):
            ro = dns.rdata.from_text(spec.rdclass, t, spec.text, origin(), True)
            if relative_names_in(ro) == count_relative(spec.parts):
                vals.append(Val(ro, "rel", canon(spec.parts, "given", "fold", True),
                                canon(spec.parts, "given", "keep", True), "text/relativized"))
    return vals


def observe_pair(a, b):
    o = {}
    for nm, fn in (("eq", operator.eq), ("ne", operator.ne), ("lt", operator.lt), ("le", operator.le),
                   ("gt", operator.gt), ("ge", operator.ge)):
        try:
            o[nm] = fn(a, b)
        except Exception as e:
            o[nm] = "raise:" + crash_sig(e)
    try:
        o["hash"] = (hash(a) == hash(b))
    except Exception as e:
        o["hash"] = "raise:" + crash_sig(e)
    return o


def judge_pair(v, w, o, reading):
    """Failures of one ordered pair under one reading: list of (check, text)."""
    f = []
    for k, x in o.items():
        if not isinstance(x, bool):
            f.append(("crash-" + k, "%s raised %s" % (k, x)))
    if f:
        return f
    if o["ne"] == o["eq"]:
        f.append(("ne-inconsistent", "== is %s and != is %s" % (o["eq"], o["ne"])))
    if o["eq"]:
        if not o["hash"]:
            f.append(("equal-but-hash-differs", "equal records hash differently"))
        if o["lt"] or o["gt"] or not o["le"] or not o["ge"]:
            f.append(("order-incoherent", "equal records but lt=%s gt=%s le=%s ge=%s" % (o["lt"], o["gt"], o["le"], o["ge"])))
    else:
        if o["lt"] == o["gt"] or o["le"] != o["lt"] or o["ge"] != o["gt"]:
            f.append(("order-incoherent", "unequal records but lt=%s gt=%s le=%s ge=%s" % (o["lt"], o["gt"], o["le"], o["ge"])))
    same = v.k(reading) == w.k(reading)
    if v.kind == w.kind:
        if o["eq"] != same:
            f.append(("eq-not-canonical" + ("" if v.kind == "abs" else "-relative"),
                      "== is %s but the canonical encodings are %s" % (o["eq"], "identical" if same else "different")))
        elif v.kind == "abs" and not same and o["lt"] != (v.k(reading) < w.k(reading)):
            f.append(("order-not-canonical", "< is %s but canonical octet order says %s" % (o["lt"], v.k(reading) < w.k(reading))))
    else:
        # documented (doc/rdata-class.rst): a record with a relative name sorts before any
        # record with only absolute names (hence is not equal to it)
        if o["eq"]:
            f.append(("relative-equals-absolute", "a relative and an absolute record compare equal"))
        elif o["lt"] != (v.kind == "rel"):
            f.append(("relative-not-before-absolute", "relative record does not sort before the absolute one"))
    return f


def run_value(case):
    spec = SPEC_BY_KEY[case["spec"]]
    probs = []
    vals = values(spec)
    readings = ("fold", "keep") if any(has_either(p) for p in [spec.parts] + spec.alts) else ("fold",)
    fails = {r: [] for r in readings}
    npairs = 0
    distinct = set()
    outcomes = {}
    for v in vals:
        for w in vals:
            o = observe_pair(v.obj, w.obj)
            npairs += 1
            distinct.add((v.kfold, v.kind, w.kfold, w.kind))
            lab = "pair:%s%s" % ("eq" if o["eq"] is True else "ne" if o["eq"] is False else "crash",
                                 "" if v.kind == w.kind == "abs" else ":rel")
            outcomes[lab] = outcomes.get(lab, 0) + 1
            for r in readings:
                for chk, txt in judge_pair(v, w, o, r):
                    fails[r].append((chk, "%s vs %s: %s" % (v.desc, w.desc, txt)))
    best = min(readings, key=lambda r: len(fails[r]))
    seen = set()
    for chk, txt in fails[best]:
        if chk not in seen:
            seen.add(chk)
            probs.append(("value/%s/%s" % (chk, tname(spec)),
                          "%s (reading: embedded names of unlisted types %s; %d failing pairs)" % (
                              txt, "fold" if best == "fold" else "keep case", len(fails[best]))))
    # foreign class / type with identical octets must be a different value
    t = spec.type_int()
    w0 = render(spec.parts, "lower")
    base = mk(spec.rdclass, t, w0)
    foreign = [("class 65000", lambda: mk(65000, t, w0)), ("TYPE65281", lambda: mk(spec.rdclass, 65281, w0))]
    for grp in LAYOUT_GROUPS:
        if spec.key in grp:
            for other in grp:
                if other != spec.key:
                    os_ = SPEC_BY_KEY[other]
                    foreign.append(("type " + str(os_.rdtype), lambda os_=os_: mk(os_.rdclass, os_.type_int(), w0)))
    for d, make in foreign:
        try:
            fo = make()
        except Exception:
            continue
        npairs += 1
        outcomes["foreign"] = outcomes.get("foreign", 0) + 1
        for a, b in ((base, fo), (fo, base)):
            try:
                if a == b or not (a != b):
                    probs.append(("value/equal-across-class-or-type/%s" % tname(spec),
                                  "record equals a record of %s with the same octets" % d))
            except Exception as e:
                probs.append(("value/crash-eq-foreign/%s" % crash_sig(e), "comparing with %s: %s" % (d, e)))
        # non-records
        for junk in (None, w0, 0, "x"):
            if base == junk or not (base != junk):
                probs.append(("value/equal-to-non-record/%s" % tname(spec), "record equals %r" % (junk,)))
    return probs, npairs, len(distinct), outcomes, len(vals)


# ------------------------------------------------------------------ (iii) record sets
OWNER = "Www.Example."


def _sig_parts(covered, tag, signer, t):
    return [u16(covered), SIGFIX, u16(tag), N(signer), hx("010203")]


PROFILES = {
    # label -> (rdclass, rdtype mnemonic, template)
    "plain": {"rdtype": "NS", "singleton": False, "sig": False, "recs": {
        "a": (IN, "NS", [N("ns1.example.")]), "A": (IN, "NS", [N("NS1.Example.")]),
        "b": (IN, "NS", [N("ns2.example.")]), "c": (IN, "NS", [N("ns3.example.")]),
        "xt": (IN, "CNAME", [N("ns1.example.")]), "xc": (CH, "NS", [N("ns1.example.")])}},
    "single": {"rdtype": "CNAME", "singleton": True, "sig": False, "recs": {
        "a": (IN, "CNAME", [N("ns1.example.")]), "A": (IN, "CNAME", [N("NS1.Example.")]),
        "b": (IN, "CNAME", [N("ns2.example.")]), "c": (IN, "CNAME", [N("ns3.example.")]),
        "xt": (IN, "NS", [N("ns1.example.")]), "xc": (CH, "CNAME", [N("ns1.example.")])}},
    "covers": {"rdtype": "RRSIG", "singleton": False, "sig": True, "recs": {
        "a": (IN, "RRSIG", _sig_parts(1, 1, "example.", 0)), "A": (IN, "RRSIG", _sig_parts(1, 1, "EXAMPLE.", 0)),
        "b": (IN, "RRSIG", _sig_parts(1, 2, "example.", 0)), "c": (IN, "RRSIG", _sig_parts(1, 3, "example.", 0)),
        "x": (IN, "RRSIG", _sig_parts(2, 1, "example.", 0)),
        "xt": (IN, "SIG", _sig_parts(1, 1, "example.", 0)), "xc": (CH, "RRSIG", _sig_parts(1, 1, "example.", 0))}},
}

_UNIVERSES = {}
_IDS = {}


def universe(profile):
    """label -> (real record, model Rec); the model key is (class, type, reference
    canonical encoding), covers is read from the template (first two octets of a SIG)."""
    if profile in _UNIVERSES:
        return _UNIVERSES[profile]
    P = PROFILES[profile]
    out = {}
    for label, (rdclass, tn, parts) in P["recs"].items():
        t = int(dns.rdatatype.from_text(tn))
        obj = mk(rdclass, t, render(parts))
        cov = struct.unpack("!H", parts[0])[0] if tn in ("RRSIG", "SIG") else sm.NONE
        out[label] = (obj, sm.Rec(label, (rdclass, t, canon(parts, "given", "fold")), rdclass, t, cov))
    _UNIVERSES[profile] = out
    return out


class Cfg:
    """(kind, profile, labels used as members, labels used as intruders)."""

    def __init__(self, kind, profile, nkeys, ttls=(0, 5, 10), lean=False):
        self.kind, self.profile, self.nkeys, self.ttls, self.lean = kind, profile, nkeys, tuple(ttls), lean
        P = PROFILES[profile]
        self.t = int(dns.rdatatype.from_text(P["rdtype"]))
        self.spec = sm.Spec(kind, IN, self.t, P["singleton"], P["sig"])
        labs = ["a", "A", "b"] + (["c"] if nkeys >= 3 else [])
        if profile == "covers":
            labs.append("x")
        self.adds = labs + (["xt", "xc"] if kind != "set" else ["xt"])
        self.probe = labs + ["xt"]

    def tup(self):
        return (self.kind, self.profile, self.nkeys, self.ttls, self.lean)

    def tag(self):
        return self.kind if self.kind == "set" else "%s:%s" % (self.kind, self.profile)


def new_set(cfg, which):
    k = cfg.kind
    if k == "set":
        return dns.set.Set()
    if k == "rdataset":
        return dns.rdataset.Rdataset(IN, cfg.t)
    if k == "rrset":
        return dns.rrset.RRset(dns.name.from_text(OWNER if which == "S" else OWNER.lower()), IN, cfg.t)
    return dns.rdataset.ImmutableRdataset(dns.rdataset.Rdataset(IN, cfg.t))


def new_env(cfg):
    uni = universe(cfg.profile)
    env = {"S": new_set(cfg, "S"), "T": new_set(cfg, "T")}
    if cfg.kind != "set":
        xt = uni["xt"][0]
        u = dns.rdataset.Rdataset(xt.rdclass, xt.rdtype)
        u.add(xt, 1)
        env["U"] = u
        v = dns.rdataset.Rdataset(IN, cfg.t)
        v.add(uni["b"][0], max(cfg.ttls))
        env["V"] = v
    else:
        env["L"] = [uni["b"][0], uni["A"][0], uni["b"][0]]
    return env


def spec_of(cfg, name):
    if name in ("S", "T"):
        return cfg.spec
    if name == "V":
        return cfg.spec._replace(kind="rdataset")
    if name == "U":
        r = universe(cfg.profile)["xt"][1]
        return sm.Spec("rdataset", r.rdclass, r.rdtype, False, cfg.spec.sig)
    raise KeyError(name)


def snap(cfg, obj, probs=None):
    """Complete observable value of a real set: ordered items (as universe labels), ttl,
    covers."""
    ids = _IDS.get(cfg.profile)
    if ids is None:
        ids = _IDS[cfg.profile] = {id(o): rec for o, rec in universe(cfg.profile).values()}
    items = []
    for it in list(obj.items):
        rec = ids.get(id(it))
        if rec is None:
            rec = sm.Rec("?", ("?", repr(it)), None, None, None)
            if probs is not None:
                probs.append(("foreign-item", "set holds an object that was never added"))
        items.append(rec)
    if isinstance(obj, dns.rdataset.Rdataset):
        return sm.St(tuple(items), obj.ttl, int(obj.covers))
    return sm.St(tuple(items), 0, 0)


def canon_of(cfg, st):
    return (tuple(r.label for r in st.items), st.ttl, st.covers)


SYMBOL = {"|=": operator.ior, "&=": operator.iand, "-=": operator.isub, "^=": operator.ixor, "+=": operator.iadd,
          "|": operator.or_, "&": operator.and_, "-": operator.sub, "^": operator.xor, "+": operator.add}
LEAN_INPLACE = ("|=", "union_update", "update", "^=", "&=", "-=")
LEAN_COPYING = ("|", "^", "union", "&", "-")
SLICES = [(0, 1, None), (1, None, None), (None, None, 2), (0, 0, None), (None, None, None), (1, 2, None)]


def events_for(cfg, env):
    """The event alphabet enabled in a state."""
    evs = []
    typed = cfg.kind != "set"
    others = {"S": "T", "T": "S"}
    for X in ("S", "T"):
        n = len(env[X])
        for lab in cfg.adds:
            evs.append(["add", X, lab])
            if typed:
                for ttl in cfg.ttls:
                    evs.append(["addttl", X, lab, ttl])
        for lab in cfg.probe:
            evs.append(["remove", X, lab])
            evs.append(["discard", X, lab])
        evs.append(["pop", X])
        evs.append(["clear", X])
        if typed:
            for ttl in cfg.ttls:
                evs.append(["update_ttl", X, ttl])
        ys = [others[X], X] + (["U", "V"] if typed else [])
        for Y in ys:
            if cfg.lean and Y == "V" and cfg.kind == "rdataset":
                continue        # V only adds something for mixed kinds (quick tier)
            for op in sm.INPLACE:
                if cfg.lean and Y in ("U", "V") and op not in LEAN_INPLACE:
                    continue
                evs.append(["iop", X, op, Y])
            for op in sm.COPYING:
                if cfg.lean and Y in ("U", "V") and op not in LEAN_COPYING:
                    continue
                evs.append(["cop", X, op, Y])
        for how in ("copy", "copy.copy"):
            evs.append(["copy", X, how, X])
            evs.append(["copy", X, how, others[X]])
        if not typed:
            evs.append(["updlist", X])
        for i in range(n):
            evs.append(["del", X, i])
        for sl in SLICES:
            evs.append(["delslice", X] + list(sl))
        if cfg.kind == "immutable":
            for lab in cfg.adds:
                for ttl in (None,) + cfg.ttls:
                    evs.append(["rebuild", X, "add", lab, ttl])
            for lab in cfg.probe:
                evs.append(["rebuild", X, "discard", lab, None])
            evs.append(["rebuild", X, "clear", None, None])
    return evs


def mutable_copy(cfg, x):
    m = dns.rdataset.Rdataset(x.rdclass, x.rdtype, x.covers, x.ttl)
    m.update(x)
    return m


def do_event(cfg, env, ev):
    """Execute one event on the real objects.  Returns (exception or None, returned value).
    Events that rebind (X := ...) store the new object in env."""
    uni = universe(cfg.profile)
    kind, X = ev[0], ev[1]
    x = env[X]
    ret = None
    try:
        if kind == "add":
            x.add(uni[ev[2]][0])
        elif kind == "addttl":
            x.add(uni[ev[2]][0], ev[3])
        elif kind == "remove":
            x.remove(uni[ev[2]][0])
        elif kind == "discard":
            x.discard(uni[ev[2]][0])
        elif kind == "pop":
            ret = x.pop()
        elif kind == "clear":
            x.clear()
        elif kind == "update_ttl":
            x.update_ttl(ev[2])
        elif kind == "updlist":
            x.update(env["L"])
        elif kind == "iop":
            op, y = ev[2], env[ev[3]]
            if op in SYMBOL:
                ret = SYMBOL[op](x, y)
            else:
                getattr(x, op)(y)
                ret = x
        elif kind == "cop":
            op, y = ev[2], env[ev[3]]
            ret = SYMBOL[op](x, y) if op in SYMBOL else getattr(x, op)(y)
        elif kind == "copy":
            y = env[ev[3]]
            ret = y.copy() if ev[2] == "copy" else copy.copy(y)
        elif kind == "del":
            del x[ev[2]]
        elif kind == "delslice":
            del x[slice(ev[2], ev[3], ev[4])]
        elif kind == "rebuild":
            m = mutable_copy(cfg, x)
            if ev[2] == "add":
                m.add(uni[ev[3]][0], ev[4])
            elif ev[2] == "discard":
                m.discard(uni[ev[3]][0])
            else:
                m.clear()
            ret = dns.rdataset.ImmutableRdataset(m)
        else:
            raise AssertionError(ev)
    except AssertionError:
        raise
    except Exception as e:
        return e, None
    return None, ret


def rebinds(ev):
    return ev[0] in ("cop", "copy", "rebuild")


def build(cfg, history):
    env = new_env(cfg)
    for ev in history:
        exc, ret = do_event(cfg, env, list(ev))
        if exc is None and rebinds(ev):
            env[ev[1]] = ret
    return env


def model_outcome(cfg, pre, ev):
    """Ask the reference model what `ev` may do to its receiver."""
    uni = universe(cfg.profile)
    kind, X = ev[0], ev[1]
    spec, x = cfg.spec, pre[X]
    if kind == "add":
        return sm.op_add(spec, x, uni[ev[2]][1])
    if kind == "addttl":
        return sm.op_add(spec, x, uni[ev[2]][1], ev[3])
    if kind == "remove":
        return sm.op_remove(spec, x, uni[ev[2]][1], True)
    if kind == "discard":
        return sm.op_remove(spec, x, uni[ev[2]][1], False)
    if kind == "pop":
        return sm.op_pop(spec, x)
    if kind == "clear":
        return sm.op_clear(spec, x)
    if kind == "update_ttl":
        return sm.op_update_ttl(spec, x, ev[2])
    if kind == "updlist":
        lst = sm.St(tuple(uni[l][1] for l in ("b", "A", "b")), 0, 0)
        return sm.op_inplace(spec, x, "update", lst)
    if kind == "iop":
        return sm.op_inplace(spec, x, ev[2], pre[ev[3]], alias=(ev[3] == X))
    if kind == "cop":
        return sm.op_copying(spec, x, ev[2], pre[ev[3]], alias=(ev[3] == X))
    if kind == "copy":
        o = sm.op_copy(spec, pre[ev[3]])
        return sm.Outcome(None, x.items, {x.ttl}, x.covers, res=o.res)
    if kind == "del":
        return sm.op_delitem(spec, x, ev[2])
    if kind == "delslice":
        return sm.op_delitem(spec, x, slice(ev[2], ev[3], ev[4]))
    if kind == "rebuild":
        ms = spec._replace(kind="rdataset")
        if ev[2] == "add":
            o = sm.op_add(ms, x, uni[ev[3]][1], ev[4])
        elif ev[2] == "discard":
            o = sm.op_remove(ms, x, uni[ev[3]][1], False)
        else:
            o = sm.op_clear(ms, x)
        if o.raises:
            return sm.unchanged(x, o.raises)
        return sm.Outcome(None, x.items, {x.ttl}, x.covers, res=("immutable", o.items, o.ttls, o.covers))
    raise AssertionError(ev)


KIND_CLASS = {"set": dns.set.Set, "rdataset": dns.rdataset.Rdataset, "rrset": dns.rrset.RRset,
              "immutable": dns.rdataset.ImmutableRdataset}


def exc_ok(tag, exc):
    if tag == sm.INCOMPATIBLE:
        return isinstance(exc, dns.rdataset.IncompatibleTypes)
    if tag == sm.COVERS:
        return isinstance(exc, dns.rdataset.DifferingCovers)
    if tag == sm.MISSING:
        return isinstance(exc, (KeyError, ValueError))
    if tag == sm.EMPTY:
        return isinstance(exc, (KeyError, IndexError, ValueError))
    return True   # immutable: "raise" without a documented class


def opname(ev):
    if ev[0] in ("iop", "cop"):
        return ev[2] + ("(self)" if ev[3] == ev[1] else "(intruder)" if ev[3] == "U" else "")
    if ev[0] == "copy":
        return ev[2] + "()"
    if ev[0] == "rebuild":
        return "ImmutableRdataset(" + ev[2] + ")"
    if ev[0] == "addttl":
        return "add(ttl)"
    return ev[0]


def same_value(st, items, ttls, covers):
    what = []
    if sm.keys(st.items) != sm.keys(items):
        what.append("items")
    if st.ttl not in ttls:
        what.append("ttl")
    if st.covers != covers:
        what.append("covers")
    return what


def show(st):
    return "[%s] ttl=%s covers=%s" % (",".join(r.label for r in st.items), st.ttl, st.covers)


def run_transition(cfg, history, ev):
    """Rebuild the state, execute one event, compare with the model.
    Returns (problems, successor canon or None, outcome label)."""
    probs = []
    env = build(cfg, history)
    names = [k for k in env if k != "L"]
    pre = {k: snap(cfg, env[k], probs) for k in names}
    X = ev[1]
    x_obj = env[X]
    held = {k: env[k] for k in names}
    out = model_outcome(cfg, pre, ev)
    exc, ret = do_event(cfg, env, ev)
    op = opname(ev)
    tag = cfg.tag()
    post = {k: snap(cfg, held[k], probs) for k in names}

    def bad(failure, text):
        probs.append(("sets/%s/%s/%s" % (tag, failure, op),
                      "%s after %s; event %s: %s [pre %s=%s%s]" % (
                          tag, list(map(list, history)), ev, text, X, show(pre[X]),
                          "" if len(ev) < 4 or ev[3] not in pre or ev[3] == X else " %s=%s" % (ev[3], show(pre[ev[3]])))))

    # exceptions
    if out.raises is None:
        if exc is not None:
            bad("unexpected-" + crash_sig(exc), "raised %s: %s" % (type(exc).__name__, exc))
    elif out.raises == sm.MAYRAISE:
        pass
    else:
        if exc is None:
            bad("accepted-" + out.raises, "did not raise (%s expected)" % out.raises)
        elif not exc_ok(out.raises, exc):
            bad("wrong-exception-" + out.raises, "raised %s instead" % type(exc).__name__)
    expected = out
    if out.ret_any_of is not None and exc is None:
        rec = {id(o): r for o, r in universe(cfg.profile).values()}.get(id(ret))
        if rec is None or rec.key not in sm.keys(out.ret_any_of):
            bad("pop-returned-non-member", "pop returned %r" % (ret,))
        else:
            expected = sm.after_pop(pre[X], rec)
    # receiver
    diff = same_value(post[X], expected.items, expected.ttls, expected.covers)
    if diff:
        if out.raises in (sm.INCOMPATIBLE, sm.COVERS) and diff == ["ttl"]:
            meth = {"|=": "union_update", "+=": "union_update", "^=": "symmetric_difference_update",
                    "|": "union", "+": "union", "^": "symmetric_difference", "addttl": "add"}.get(
                        ev[2] if ev[0] in ("iop", "cop") else ev[0], ev[2] if ev[0] in ("iop", "cop") else ev[0])
            probs.append(("sets/refused-but-ttl-changed/%s" % meth,
                          "%s after %s; event %s raised %s but left ttl=%s [pre %s=%s]" % (
                              tag, list(map(list, history)), ev, type(exc).__name__, post[X].ttl, X, show(pre[X]))))
        elif out.raises in (sm.IMMUTABLE, sm.MAYRAISE):
            bad("immutable-set-changed", "now %s" % show(post[X]))
        else:
            bad("-".join(diff) + "-wrong", "now %s, model: [%s] ttl in %s covers=%s" % (
                show(post[X]), ",".join(r.label for r in expected.items), sorted(expected.ttls), expected.covers))
    # every other set is untouched
    for k in names:
        if k != X and (canon_of(cfg, post[k]) != canon_of(cfg, pre[k])):
            bad("operand-changed", "%s changed from %s to %s" % (k, show(pre[k]), show(post[k])))
    # in-place operators return the receiver
    if ev[0] == "iop" and exc is None and ret is not x_obj:
        bad("inplace-returned-other-object", "the in-place form returned a different object")
    # results of copying forms
    if out.res is not None and exc is None and out.raises is None:
        rkind, ritems, rttls, rcovers = out.res
        if type(ret) is not KIND_CLASS[rkind]:
            bad("result-type", "returned a %s, expected %s" % (type(ret).__name__, KIND_CLASS[rkind].__name__))
        else:
            if any(ret is held[k] for k in names) or any(getattr(ret, "items", None) is held[k].items for k in names):
                bad("result-aliases-operand", "the result shares identity/storage with an operand")
            rs = snap(cfg, ret, probs)
            d2 = same_value(rs, ritems, rttls, rcovers)
            if d2:
                bad("result-" + "-".join(d2) + "-wrong", "result %s, model: [%s] ttl in %s covers=%s" % (
                    show(rs), ",".join(r.label for r in ritems), sorted(rttls), rcovers))
            if rkind == "rrset" and (ret.name != x_obj.name or ret.deleting != x_obj.deleting):
                bad("result-name", "the result lost the owner name / deleting of the receiver")
            if isinstance(ret, dns.rdataset.Rdataset) and (ret.rdclass != IN or ret.rdtype != cfg.t):
                bad("result-class-type", "the result has class/type %s/%s" % (ret.rdclass, ret.rdtype))
    label = "ok" if exc is None else "ok-refused:%s" % (out.raises or "?")
    if probs:
        return probs, None, label
    if exc is None and rebinds(ev):
        env[X] = ret
    succ = (cfg.tup(), canon_of(cfg, snap(cfg, env["S"])), canon_of(cfg, snap(cfg, env["T"])))
    return probs, succ, label


def fresh_like(cfg, which, st, order=None, ttl=None):
    """A new real set of the same kind holding the records of `st` (optionally in another
    order / with another TTL), built through the public constructor and add()."""
    uni = universe(cfg.profile)
    items = list(st.items) if order is None else order
    if cfg.kind == "set":
        s = dns.set.Set()
        for r in items:
            s.add(uni[r.label][0])
        return s
    if cfg.kind == "rrset":
        s = dns.rrset.RRset(dns.name.from_text(OWNER), IN, cfg.t, st.covers)
    else:
        s = dns.rdataset.Rdataset(IN, cfg.t, st.covers)
    s.update_ttl(st.ttl if ttl is None else ttl)
    for r in items:
        s.add(uni[r.label][0])
    if cfg.kind == "immutable":
        return dns.rdataset.ImmutableRdataset(s)
    return s


def run_queries(cfg, history):
    """Everything that is checked *at* a state (no transition)."""
    probs = []
    uni = universe(cfg.profile)
    env = build(cfg, history)
    names = [k for k in env if k != "L"]
    pre = {k: snap(cfg, env[k], probs) for k in names}
    tag = cfg.tag()
    n = 0

    def bad(failure, text):
        probs.append(("sets/%s/query/%s" % (tag, failure),
                      "%s after %s: %s [S=%s T=%s]" % (tag, list(map(list, history)), text, show(pre["S"]), show(pre["T"]))))

    # observation routes agree; membership is by value
    for X in ("S", "T"):
        obj, st = env[X], pre[X]
        n += 1
        try:
            lst = list(obj)
            ids = [id(o) for o in lst]
            want = [id(uni[r.label][0]) for r in st.items]
            if ids != want or len(obj) != len(want) or [id(obj[i]) for i in range(len(want))] != want:
                bad("observation", "iteration, len() and indexing disagree for %s" % X)
            for sl in SLICES + [(0, len(want), 1), (len(want), None, None)]:
                got = obj[slice(*sl)]
                if [id(o) for o in got] != want[slice(*sl)] or not isinstance(got, list):
                    bad("slice", "%s[%s:%s:%s] is wrong" % ((X,) + tuple(sl)))
            for lab in cfg.adds:
                o, rec = uni[lab]
                if (o in obj) != sm.has(st.items, rec):
                    bad("membership", "%r in %s is %s" % (lab, X, o in obj))
            if cfg.spec.kind != "set" and cfg.spec.singleton and len(lst) > 1:
                bad("singleton-invariant", "%s holds %d records of a singleton type" % (X, len(lst)))
            if len(set(sm.keys(st.items))) != len(st.items):
                bad("duplicate-invariant", "%s holds two equal records" % X)
        except Exception as e:
            bad("crash-" + crash_sig(e), "observing %s: %s" % (X, e))
    # relations
    pairs = [("S", "T"), ("T", "S"), ("S", "S")] + ([("S", "V"), ("V", "S"), ("S", "U")] if "V" in env else [])
    for A, B in pairs:
        a, b, sa, sb = env[A], env[B], pre[A], pre[B]
        n += 1
        try:
            exp = {"issubset": sm.q_subset(sa, sb), "issuperset": sm.q_subset(sb, sa), "isdisjoint": sm.q_disjoint(sa, sb)}
            for meth, e in exp.items():
                g = getattr(a, meth)(b)
                if g is not e:
                    bad(meth, "%s.%s(%s) is %r, set theory says %r" % (A, meth, B, g, e))
            e = sm.q_equal(spec_of(cfg, A), sa, spec_of(cfg, B), sb)
            g1, g2 = (a == b), (a != b)
            if g1 is g2:
                bad("ne-inconsistent", "%s == %s is %r and != is %r" % (A, B, g1, g2))
            if e is not None and g1 is not e:
                bad("equality", "%s == %s is %r, expected %r" % (A, B, g1, e))
        except Exception as e:
            bad("crash-" + crash_sig(e), "relations of %s,%s: %s" % (A, B, e))
    # equality ignores order (and an rrset's owner-name case), sees a missing record
    for X in ("S", "T"):
        st = pre[X]
        n += 1
        try:
            p = fresh_like(cfg, X, st, order=list(reversed(st.items)), ttl=7)
            if sm.keys(snap(cfg, p).items) == sm.keys(tuple(reversed(st.items))):
                if not (env[X] == p) or not (p == env[X]) or (env[X] != p):
                    bad("equality-order", "%s differs from a set holding the same records in reverse order" % X)
            if st.items and not (cfg.spec.kind != "set" and cfg.spec.singleton):
                q = fresh_like(cfg, X, st, order=list(st.items)[1:])
                if env[X] == q or q == env[X] or not (env[X] != q):
                    bad("equality-missing-record", "%s equals a set lacking one of its records" % X)
            if cfg.kind == "rrset":
                r = dns.rrset.RRset(dns.name.from_text("other.example."), IN, cfg.t, st.covers)
                for rec in st.items:
                    r.add(uni[rec.label][0])
                if env[X] == r or not (env[X] != r):
                    bad("equality-owner-name", "an RRset equals one with another owner name")
        except Exception as e:
            bad("crash-" + crash_sig(e), "equality probes of %s: %s" % (X, e))
    # results never share storage with operands; wrapping into an immutable set copies
    makers = [("copy()", lambda s, t: s.copy()), ("copy.copy", lambda s, t: copy.copy(s)),
              ("union", lambda s, t: s.union(t)), ("intersection", lambda s, t: s.intersection(t)),
              ("difference", lambda s, t: s.difference(t)), ("symmetric_difference", lambda s, t: s.symmetric_difference(t)),
              ("|", lambda s, t: s | t), ("&", lambda s, t: s & t), ("-", lambda s, t: s - t), ("^", lambda s, t: s ^ t),
              ("+", lambda s, t: s + t)]
    extra = uni["c"][0]
    for X, Y in (("S", "T"), ("T", "S")):
        for nm, mkr in makers:
            n += 1
            try:
                r = mkr(env[X], env[Y])
            except Exception:
                continue   # refusals are judged by the transitions
            try:
                if cfg.kind == "immutable":
                    if r.items is env[X].items or r.items is env[Y].items:
                        bad("isolation", "result of %s shares its items with an operand" % nm)
                else:
                    try:
                        r.add(extra)
                    except dns.exception.DNSException:
                        pass
                    r.discard(uni["a"][0])
                    r.discard(uni["b"][0])
                    if cfg.kind != "set":
                        r.update_ttl(0)
                    r.clear()
                for k in names:
                    if canon_of(cfg, snap(cfg, env[k])) != canon_of(cfg, pre[k]):
                        bad("isolation", "mutating the result of %s changed %s" % (nm, k))
            except Exception as e:
                bad("crash-" + crash_sig(e), "isolation probe %s: %s" % (nm, e))
    if cfg.kind in ("rdataset", "rrset"):
        for X in ("S", "T"):
            n += 1
            try:
                m = env[X].copy()
                im = dns.rdataset.ImmutableRdataset(m)
                before = canon_of(cfg, snap(cfg, im))
                if before != canon_of(cfg, pre[X])[:3]:
                    bad("immutable-wrap", "ImmutableRdataset(%s) does not hold the value of %s" % (X, X))
                try:
                    m.add(extra)
                except dns.exception.DNSException:
                    pass
                m.discard(uni["a"][0])
                m.discard(uni["b"][0])
                m.update_ttl(0)
                if canon_of(cfg, snap(cfg, im)) != before:
                    bad("immutable-wrap-shares", "mutating the wrapped rdataset changed the ImmutableRdataset")
                if not (im == env[X]) or (im != env[X]):
                    bad("immutable-wrap-equality", "ImmutableRdataset(%s) != %s" % (X, X))
            except Exception as e:
                bad("crash-" + crash_sig(e), "immutable wrap of %s: %s" % (X, e))
    if cfg.kind == "set":
        n += 1
        both = list(env["S"]) + list(env["T"])
        s = dns.set.Set(both)
        exp = sm.op_inplace(cfg.spec, pre["S"], "union_update", pre["T"])
        if sm.keys(snap(cfg, s).items) != exp.keys():
            bad("constructor", "Set(iterable) is not the ordered union of the iterable")
    for k in names:
        if canon_of(cfg, snap(cfg, env[k])) != canon_of(cfg, pre[k]):
            bad("query-changed-state", "%s changed while only queries ran" % k)
    return probs, n


# ------------------------------------------------------------------ exploration
def expand(state, col):
    ctup, history = state
    cfg = Cfg(*ctup)
    env = build(cfg, history)
    pre_s, pre_t = snap(cfg, env["S"]), snap(cfg, env["T"])
    col.nontrivial(("state", ctup, canon_of(cfg, pre_s), canon_of(cfg, pre_t)))
    col.max("max_items_in_a_set", max(len(pre_s.items), len(pre_t.items)))
    if len(history) == 3:
        col.sample({"part": "sets", "cfg": list(ctup), "history": [list(e) for e in history],
                    "S": show(pre_s), "T": show(pre_t)}, limit=1)
    case = {"part": "sets", "cfg": list(ctup), "history": [list(e) for e in history], "query": True}
    probs, nq = run_queries(cfg, history)
    col.count("evaluations", nq)
    col.count("queries", nq)
    col.outcome("query:" + ("ok" if not probs else probs[0][0]))
    for s, w in probs:
        col.violation("C07/" + s, w, case)
    for ev in events_for(cfg, env):
        case = {"part": "sets", "cfg": list(ctup), "history": [list(e) for e in history], "event": ev}
        probs, succ, label = run_transition(cfg, history, ev)
        col.count("evaluations")
        col.outcome("%s:%s" % (ev[0], label if not probs else "/".join(probs[0][0].split("/")[1:3])))
        for s, w in probs:
            col.violation("C07/" + s, w, case)
        if succ is not None:
            yield succ, (ctup, history + (tuple(ev),))


def task_values(task, col):
    part, key = task
    case = {"part": part, "spec": key}
    if part == "immut":
        probs, n, ninst = run_immut(case)
        col.count("evaluations", n)
        col.count("immutability_pokes_and_field_visits", n)
        col.count("instances_checked", ninst)
        col.outcome("immut:" + ("ok" if not probs else "violation"))
        col.nontrivial(("immut", key))
    else:
        probs, npairs, ndist, outcomes, nvals = run_value(case)
        col.count("evaluations", npairs)
        col.count("value_pairs", npairs)
        col.count("values_generated", nvals)
        for k, v in outcomes.items():
            col.outcome(k, v)
        col.nontrivial(("value", key, ndist))
        if key == "1/SRV":
            col.sample({"part": "value", "type": "SRV", "values": nvals, "pairs": npairs})
    seen = set()
    for s, w in probs:
        if (s, w) not in seen:
            seen.add((s, w))
            col.violation("C07/" + s, w, case)


def recheck(case):
    part = case["part"]
    if part == "immut":
        probs = run_immut(case)[0]
    elif part == "value":
        probs = run_value(case)[0]
    elif part == "coverage":
        probs = coverage_problems()
    else:
        cfg = Cfg(*case["cfg"])
        history = tuple(tuple(e) for e in case["history"])
        if case.get("query"):
            probs = run_queries(cfg, history)[0]
        else:
            probs = run_transition(cfg, history, list(case["event"]))[0]
    return [("C07/" + s, w) for s, w in probs]


def coverage_problems():
    cov = covered_classes()
    return [("immut/no-specimen/%s" % k, "Rdata class dns.rdtypes.%s has no specimen in the check" % k)
            for k, c in sorted(rdata_classes().items()) if c not in cov]


def run(ctx):
    ctx.rule = (
        "(i) every Rdata class under dns/rdtypes (plus GenericRdata, Name): instances from text specimens, "
        "reference wire templates, relativised and generic forms; every slot set/deleted, fresh attribute, "
        "recursive field walk.  (ii) all ordered pairs of the values generated per type (hand templates x name "
        "case {given,lower,upper} x {absolute, relativised, generic, from text} plus single-field variants) "
        "judged against the template's canonical encoding; distinct = distinct (canonical key, relativity) pair. "
        "(iii) BFS from two empty sets over the full event alphabet per (kind, profile); canon = ordered item "
        "identities + ttl + covers of both sets; a state is distinct when its canon is; every transition is "
        "rebuilt from its history on fresh real objects and compared with refs/setmodel.py.")
    ctx.assume("object.__setattr__, __setstate__ and direct __dict__ access are reflective bypasses, not rebinding")
    ctx.assume("names embedded in types outside the RFC 4034 6.2 list (NSEC per RFC 6840, NSAP-PTR, LP, CH A, "
               "IPSECKEY, AMTRELAY, HIP, SVCB/HTTPS, DSYNC, TKEY, TSIG) may compare consistently case-sensitively "
               "or consistently case-insensitively (C15 owns the canonical form itself)")
    ctx.assume("records holding relative names: equal iff equal when made absolute against the root (Rdata._cmp "
               "docstring), sort before absolute ones (doc/rdata-class.rst); their mutual order is only required "
               "to be coherent")
    ctx.assume("set TTL where the documentation is silent (merging an empty set, intersection): unchanged or "
               "minimised are both accepted; indexing only with in-range non-negative indices")
    ctx.assume("an immutable set must raise on a mutator that would change a mutable set; a mutator that would "
               "change nothing may raise or do nothing")
    # (i) + (ii)
    for s, w in coverage_problems():
        ctx.violation("C07/" + s, w, {"part": "coverage"})
    tasks = [("immut", "Name")] + [(p, s.key) for s in SPECS for p in ("immut", "value")]
    ctx.extra["rdata_classes_under_rdtypes"] = len(rdata_classes())
    ctx.extra["specimen_types"] = len(SPECS)
    ctx.pmap(task_values, tasks)
    # (iii)
    T3, T2 = (0, 5, 10), (0, 5)
    if ctx.quick:
        cfgs = [("set", "plain", 2, (), True), ("rdataset", "plain", 2, T3, True), ("rdataset", "single", 2, T3, True),
                ("rdataset", "covers", 2, T2, True), ("rrset", "plain", 2, T2, True), ("rrset", "single", 2, T3, True),
                ("rrset", "covers", 2, T2, True), ("immutable", "plain", 2, T2, True),
                ("immutable", "single", 2, T3, True)]
    else:
        cfgs = [("set", "plain", 3, (), False), ("rdataset", "plain", 3, T3, False), ("rdataset", "single", 3, T3, False),
                ("rdataset", "covers", 3, T3, False), ("rrset", "plain", 3, T3, False), ("rrset", "single", 3, T3, False),
                ("rrset", "covers", 2, T3, False), ("immutable", "plain", 3, T2, False),
                ("immutable", "single", 3, T3, False), ("immutable", "covers", 2, T3, False)]
    ctx.extra["set_configs"] = [dict(zip(("kind", "profile", "distinct_member_keys", "ttl_domain",
                                          "reduced_alphabet_for_foreign_operands"), c)) for c in cfgs]
    ctx.extra["bfs_depth"] = "to saturation (no depth cap)"
    init = []
    for c in cfgs:
        cfg = Cfg(*c)
        env = new_env(cfg)
        init.append(((c, canon_of(cfg, snap(cfg, env["S"])), canon_of(cfg, snap(cfg, env["T"]))), (c, ())))
    engines.bfs(ctx, init, expand, label="sets ")
    ctx.counts["traces_validated_against_impl"] = ctx.counts.get("evaluations", 0)
