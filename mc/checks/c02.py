"""C02: every record type's wire form round-trips and re-encodes byte-identically;
arbitrary octets either raise a format error or decode to a fixed point.

Exhaustive small-scope enumeration (E1) over the field schema in refs/rdschema.py: the
real dns.rdata.from_wire / Rdata.to_wire / constructors are run on every case and judged
by the schema's reference encoder/decoder (written from the RFC layouts, one-sided).
"""
from __future__ import annotations

import itertools
import json
import os
import traceback

import dns.exception
import dns.name
import dns.rdata
import dns.wire

from ..refs import rdschema as R

PROPERTY = "C02"
LEVEL = "exploration"

PREFIX = b"\x03abc\x00" + b"\x01r\x07example\x00"      # names at offsets 0, 5 (r.example.), 7
SUFFIX = b"\x00\x01a\x00"                               # readable octets after the rdata
ALPHA8 = (0x00, 0x01, 0x02, 0x04, 0x20, 0x80, 0xC0, 0xFF)
ALPHA10 = (0x00, 0x01, 0x02, 0x04, 0x07, 0x3F, 0x40, 0x80, 0xC0, 0xFF)
ALPHA24 = tuple(sorted(set(ALPHA8 + ALPHA10 + (0x03, 0x05, 0x06, 0x08, 0x09, 0x10, 0x1F, 0x21, 0x30, 0x41, 0x61, 0x7F, 0x81, 0xBF, 0xC1, 0xFE))))


WSIDE_POSITIONS = [0, 1, 12] + list(range(0x3FC0, 0x4006))


def crash_sig(e):
    tb = traceback.extract_tb(e.__traceback__)
    return "%s@%s" % (type(e).__name__, tb[-1].name if tb else "?")


def _slug(text):
    return "".join(c if c.isalnum() else "-" for c in text)[:60]


def _origin(flag):
    return R.ORIGIN if flag else None


def _lib_origin(origin):
    return dns.name.Name(origin) if origin is not None else None


def _fixed_point(spec, rdclass, r, lo, probs, tag):
    """w=r.to_wire(); from_wire(w)==r; from_wire(w).to_wire()==w.  Returns w or None."""
    try:
        w = r.to_wire(origin=lo)
    except Exception as e:
        probs.append(("%s/to_wire-crash/%s" % (tag, crash_sig(e)), "to_wire raised %s: %s" % (type(e).__name__, e)))
        return None
    try:
        r2 = dns.rdata.from_wire(rdclass, spec.rdtype, w, 0, len(w), lo)
    except Exception as e:
        probs.append(("%s/own-encoding-rejected/%s" % (tag, type(e).__name__),
                      "from_wire rejects the library's own encoding %s: %s" % (w.hex(), e)))
        return w
    try:
        if not (r2 == r) or (r2 != r):
            probs.append((tag + "/decode-of-own-encoding-not-equal", "from_wire(to_wire(r)) != r for %s" % w.hex()))
        w3 = r2.to_wire(origin=lo)
        if w3 != w:
            probs.append((tag + "/encoding-not-a-fixed-point", "%s re-encodes as %s" % (w.hex(), w3.hex())))
    except Exception as e:
        probs.append(("%s/compare-crash/%s" % (tag, crash_sig(e)), "%s: %s" % (type(e).__name__, e)))
    return w


def _check_attrs(spec, r, values, origin, probs, tag):
    for attr, kind, v in spec.attr_checks(values):
        try:
            got = getattr(r, attr)
        except AttributeError:
            probs.append(("%s/attr-missing/%s" % (tag, attr), "record has no attribute %s" % attr))
            continue
        if not kind.same(got, v, origin):
            probs.append(("%s/attr-mismatch/%s" % (tag, attr), "attribute %s is %r, built from %r" % (attr, got, v)))


def judge_wire(spec, rdclass, buf, off, rdlen, origin):
    """Decode buf[off:off+rdlen] with the library and with the reference; returns
    (outcome label, [(signature suffix, what)])."""
    T = spec.name
    probs = []
    ref = R.ref_decode(spec, buf, off, rdlen)
    lo = _lib_origin(origin)
    try:
        r = dns.rdata.from_wire(rdclass, spec.rdtype, buf, off, rdlen, lo)
    except dns.exception.FormError as e:
        if ref[0] == "ok" and not ref[2]:
            probs.append((T + "/from_wire/rejects-wellformed", "well-formed rdata %s rejected: %s: %s" % (
                bytes(buf[off:off + rdlen]).hex(), type(e).__name__, e)))
            return "wellformed-rejected", probs
        return ("hard-rejected" if ref[0] == "hard" else "soft-rejected" if ref[0] == "ok" else "unjudged-rejected"), probs
    except Exception as e:
        probs.append(("%s/from_wire/crash/%s" % (T, crash_sig(e)), "from_wire raised non-FormError %s: %s" % (type(e).__name__, e)))
        return "crash", probs
    # accepted
    if ref[0] == "hard":
        probs.append((T + "/from_wire/accepts-malformed", "rdata %s accepted although %s" % (bytes(buf[off:off + rdlen]).hex(), ref[1])))
    # consumed exactly rdlen: run the type's parser under our own end marker
    try:
        p = dns.wire.Parser(buf, off)
        p.end = off + rdlen
        dns.rdata.from_wire_parser(rdclass, spec.rdtype, p, lo)
        if p.current != off + rdlen:
            probs.append((T + "/from_wire/rdlen-not-consumed", "decoder consumed %d of %d octets of %s and from_wire accepted" % (
                p.current - off, rdlen, bytes(buf[off:off + rdlen]).hex())))
    except Exception as e:
        probs.append(("%s/from_wire_parser/disagrees/%s" % (T, type(e).__name__), "from_wire accepted but from_wire_parser raised %s" % e))
    if int(r.rdclass) != rdclass or int(r.rdtype) != spec.rdtype:
        probs.append((T + "/from_wire/wrong-class-or-type", "got class %d type %d" % (r.rdclass, r.rdtype)))
    if ref[0] == "ok":
        inclass = "/" + _slug(ref[2][0]) if ref[2] else ""
    else:
        inclass = "/ref-" + ref[0]
    w = _fixed_point(spec, rdclass, r, lo, probs, T + "/decoded" + inclass)
    label = "accepted-soft" if ref[0] == "ok" and ref[2] else "accepted-unjudged" if ref[0] != "ok" else "accepted-wellformed"
    if ref[0] == "ok" and not ref[2]:
        values = ref[1]
        _check_attrs(spec, r, values, origin, probs, T + "/from_wire")
        want = R.ref_encode(spec, values)
        if w is not None and w != want:
            probs.append((T + "/to_wire/differs-from-reference", "decoded %s, re-encoded %s, reference %s" % (
                bytes(buf[off:off + rdlen]).hex(), w.hex(), want.hex())))
        if origin is not None and w is not None:
            try:
                w0 = r.to_wire()
                if w0 != w:
                    probs.append((T + "/to_wire/no-origin-differs", "to_wire() without origin gives %s, with origin %s" % (w0.hex(), w.hex())))
            except dns.name.NeedAbsoluteNameOrOrigin:
                if not spec.has_names():
                    probs.append((T + "/to_wire/needs-origin-without-names", "NeedAbsoluteNameOrOrigin for a type without names"))
            except Exception as e:
                probs.append(("%s/to_wire/no-origin-crash/%s" % (T, crash_sig(e)), "%s: %s" % (type(e).__name__, e)))
        if want != bytes(buf[off:off + rdlen]):
            label = "accepted-wellformed-noncanonical-encoding"
    return label, probs


def judge_ctor(spec, rdclass, values, origin):
    """Path B: constructor(values) -> to_wire == reference -> from_wire == object."""
    T = spec.name
    probs = []
    lo = _lib_origin(origin)
    cls = dns.rdata.get_rdata_class(rdclass, spec.rdtype)
    want_generic = spec.impl is None
    if (cls is dns.rdata.GenericRdata) != want_generic:
        probs.append((T + "/dispatch", "class %d type %d dispatched to %s" % (rdclass, spec.rdtype, cls.__name__)))
        return "dispatch", probs
    try:
        obj = cls(rdclass, spec.rdtype, *spec.lib_args(values, origin))
    except Exception as e:
        probs.append(("%s/ctor/rejects-wellformed/%s" % (T, crash_sig(e)), "constructor raised %s: %s for %r" % (type(e).__name__, e, values)))
        return "ctor-rejected", probs
    _check_attrs(spec, obj, values, origin, probs, T + "/ctor")
    want = R.ref_encode(spec, values)
    w = _fixed_point(spec, rdclass, obj, lo, probs, T + "/constructed")
    if w is not None and w != want:
        probs.append((T + "/ctor/to_wire/differs-from-reference", "constructed from %r: to_wire %s, reference %s" % (values, w.hex(), want.hex())))
    return "constructed", probs


def judge_wside(spec, rdclass, values, pos):
    """Write side with a live compression table: the record is written twice into one buffer whose
    first copy starts at `pos` (so that names straddle the 14-bit pointer limit for pos near
    0x3FFF); both copies must decode - by the reference and by the library - to the same record."""
    import io
    T = spec.name
    probs = []
    cls = dns.rdata.get_rdata_class(rdclass, spec.rdtype)
    # two records whose names share a multi-label suffix but differ in the first label
    tail = (b"example", b"test", b"")
    vals = []
    for first in (b"www", b"mail"):
        vals.append(tuple(((first,) + tail) if type(f_.kind) is R.Name else v for f_, v in zip(spec.fields, values)))
    objs = [cls(rdclass, spec.rdtype, *spec.lib_args(v, None)) for v in vals]
    f = io.BytesIO()
    f.write(b"\x00" * pos)
    compress = {}
    spans = []
    try:
        for obj in objs:
            a = f.tell()
            obj.to_wire(f, compress, None)
            spans.append((a, f.tell() - a))
            f.write(b"\x00")
    except Exception as e:
        probs.append(("%s/to_wire-compress/crash/%s" % (T, crash_sig(e)), "to_wire(file at %d, compress) raised %s: %s" % (pos, type(e).__name__, e)))
        return "crash", probs
    buf = f.getvalue()
    for n, (a, ln) in enumerate(spans):
        values, obj = vals[n], objs[n]
        ref = R.ref_decode(spec, buf, a, ln)
        if ref[0] != "ok" or tuple(ref[1]) != tuple(values):
            probs.append(("%s/to_wire-compress/reference-decodes-differently/copy-%d" % (T, n),
                          "record %r written at %d with a compression table decodes (reference) to %r" % (values, a, ref[:2])))
        try:
            back = dns.rdata.from_wire(rdclass, spec.rdtype, buf, a, ln)
            if back != obj:
                probs.append(("%s/to_wire-compress/library-decodes-differently/copy-%d" % (T, n), "%s != %s (written at %d)" % (back, obj, a)))
        except Exception as e:
            probs.append(("%s/to_wire-compress/own-encoding-rejected/copy-%d" % (T, n), "%s: %s (written at %d)" % (type(e).__name__, e, a)))
    for k_, v_ in compress.items():
        if v_ > 0x3FFF:
            probs.append((T + "/to_wire-compress/table-offset-beyond-14-bits", "compress[%s] = %d" % (k_, v_)))
            break
    return "written", probs


# ------------------------------------------------------------------ case execution (shared with recheck)
def run_case(case):
    spec = R.BY_NAME[case["spec"]]
    mode = case["mode"]
    origin = _origin(case.get("origin"))
    buf = bytes(case["buf"])
    if mode == "W":
        ref = R.ref_decode(spec, buf, case["off"], case["rdlen"])
        assert ref[0] == "ok" and not ref[2], ref
        return judge_wside(spec, case["rdclass"], ref[1], case["pos"])
    if mode == "B":
        ref = R.ref_decode(spec, buf, case["off"], case["rdlen"])
        assert ref[0] == "ok" and not ref[2], ref
        return judge_ctor(spec, case["rdclass"], ref[1], origin)
    return judge_wire(spec, case["rdclass"], buf, case["off"], case["rdlen"], origin)


# ------------------------------------------------------------------ compression table after a Renderer rollback
def _rollback_relevant(sig):
    return sig.startswith(("renderer/refparse", "renderer/kept-sets-differ"))


def rollback_case(case):
    """The compression table handed to to_wire by a size-limited dns.renderer.Renderer that
    refused a record set and carried on: every name written afterwards must still decode to
    itself (c08.judge_renderer parses the output with the independent reference parser and
    compares the kept record sets)."""
    from . import c08
    probs, info = c08.judge_renderer(case)
    return [("C02/renderer-rollback/" + s.split("/", 1)[1], w) for s, w in probs if _rollback_relevant(s)], info


def w_rollback(task, col):
    _, mi, lo, hi = task
    for L in range(lo, hi):
        for tsig in (0, 3):
            case = {"mode": "renderer-rollback", "msg": mi, "L": L, "tsig": tsig}
            probs, info = rollback_case(case)
            col.count("evaluations")
            col.count("evaluations_renderer_rollback")
            col.outcome("renderer-rollback:%s" % (probs[0][0] if probs else info.get("outcome", "ok")))
            for s_, w_ in probs:
                col.violation(s_, "%s (message %d, max_size %d, tsig variant %d)" % (w_, mi, L, tsig), case)


def rollback_tasks():
    from . import c08
    out = []
    for mi in range(len(c08.MESSAGES)):
        full = c08.base_facts(mi)["full"]
        for lo in range(512, full + 20, 200):
            out.append(("rollback", mi, lo, min(lo + 200, full + 20)))
    return out


# ------------------------------------------------------------------ process history: which class decodes a type
_PH_SCRIPT = r"""
import json, sys
sys.path.insert(0, sys.argv[1])
import dns.rdata, dns.rdataclass, dns.rdatatype
order = sys.argv[2]
if order == "load_all_types":
    dns.rdata.load_all_types()
elif order == "load_all_types-dynamic-kept":
    dns.rdata.load_all_types(False)
elif order == "ANY-first":
    for t in dns.rdatatype.RdataType:
        dns.rdata.get_rdata_class(dns.rdataclass.ANY, t)
out = {}
for cls in (dns.rdataclass.IN, dns.rdataclass.CH):
    for t in dns.rdatatype.RdataType:
        c = dns.rdata.get_rdata_class(cls, t)
        out["%d/%d" % (cls, t)] = c.__module__ + "." + c.__name__
print(json.dumps(out))
"""
PH_ORDERS = ["load_all_types", "load_all_types-dynamic-kept", "ANY-first"]


def _ph_run(order):
    import subprocess
    import sys
    from .. import core
    r = subprocess.run([sys.executable, "-c", _PH_SCRIPT, core.REPO, order], capture_output=True, text=True,
                       env=dict(os.environ, PYTHONHASHSEED="0"), timeout=300)
    if r.returncode != 0:
        return None, r.stderr[-400:]
    return json.loads(r.stdout.strip().splitlines()[-1]), ""


def process_history_case(case):
    """A fresh interpreter that first calls dns.rdata.load_all_types() (or looks every type up in
    class ANY) must afterwards decode every (class, type) with the same implementation class as a
    fresh interpreter that does neither: which codec a record gets may not depend on what the
    process did before."""
    base, err = _ph_run("none")
    if base is None:
        return [("C02/process-history/none/crash", err)]
    got, err = _ph_run(case["order"])
    if got is None:
        return [("C02/process-history/%s/crash" % case["order"], err)]
    diff = sorted(k for k in base if got.get(k) != base[k])
    if not diff:
        return []
    k = diff[0]
    kind = "generic-instead-of-implementation" if got.get(k, "").endswith("GenericRdata") else "class-differs"
    return [("C02/process-history/%s/%s" % (case["order"], kind),
             "after %s, %d (class/type) pairs decode with another class than in a fresh process, e.g. %s: %s instead of %s"
             % (case["order"], len(diff), k, got.get(k), base[k]))]


def recheck(case):
    if case.get("mode") == "process-history":
        return process_history_case(case)
    if case.get("mode") == "renderer-rollback":
        return rollback_case(case)[0]
    _, probs = run_case(case)
    return [("C02/" + s, w) for s, w in probs]


def _do(col, case, nontrivial=True):
    label, probs = run_case(case)
    col.count("evaluations")
    col.outcome(case["mode"] + ":" + label)
    if nontrivial and (label.startswith("accepted") or label in ("constructed", "wellformed-rejected")):
        if case["mode"] == "oct":
            # distinct by construction (each octet string is enumerated once per type): counted, not hashed
            col.count("nontrivial_octet_strings_accepted")
        else:
            col.nontrivial((case["spec"], case["rdclass"], case["mode"], case.get("origin", 0), case["buf"], case["off"]))
    for s, w in probs:
        col.violation("C02/" + s, w, case)
    return label


# ------------------------------------------------------------------ enumeration
def capped_values(spec, tier, k, cap, cap1=None, cap3=3):
    """k-deviation; dimensions deviating together use only their first `cap` (pairs) / `cap3`
    (triples and above) alternatives; single deviations use every alternative, or the first `cap1`."""
    dims = spec.dims(tier)
    base = [d[0] for _, d in dims]
    n = len(dims)

    def build(choice):
        vals = [None] * len(spec.fields)
        for (idxs, _), tup in zip(dims, choice):
            for i, v in zip(idxs, tup):
                vals[i] = v
        return tuple(vals)

    yield build(base)
    for kk in range(1, min(k, n) + 1):
        for which in itertools.combinations(range(n), kk):
            doms = [(dims[w][1][1:] if cap1 is None else dims[w][1][1:1 + cap1]) if kk == 1 else
                    dims[w][1][1:1 + (cap if kk == 2 else cap3)] for w in which]
            for alts in itertools.product(*doms):
                c = list(base)
                for w, a in zip(which, alts):
                    c[w] = a
                yield build(c)


def compressed_variants(spec, values):
    """Encodings in which one plain name field is a pointer (whole name, or first label +
    pointer) into a prefix that precedes the rdata."""
    if type(spec) is not R.Spec:
        return
    for i, f in enumerate(spec.fields):
        if type(f.kind) is not R.Name:
            continue
        nm = values[i]
        parts = [g.kind.enc(v) for g, v in zip(spec.fields, values)]
        prefix = R.enc_name(nm) + b"\xff"
        yield prefix, b"".join(parts[:i]) + b"\xc0\x00" + b"".join(parts[i + 1:])
        if len(nm) >= 2:
            prefix = b"\xff\xff" + R.enc_name(nm[1:])
            yield prefix, b"".join(parts[:i]) + bytes([len(nm[0])]) + nm[0] + b"\xc0\x02" + b"".join(parts[i + 1:])


def task_values(task, col):
    name, rdclass, tier, k, cap = task
    spec = R.BY_NAME[name]
    first = True
    for values in capped_values(spec, tier, k, cap):
        # schema self-consistency (a failure here is a harness error, not a finding)
        assert not spec.issues(values), (name, values, spec.issues(values))
        w = R.ref_encode(spec, values)
        back = R.ref_decode(spec, w, 0, len(w))
        assert back == ("ok", values, []), (name, values, back)
        under = any(lab == R.ORIGIN[0] for lab in _labels_in(spec, values))
        for og in ((0, 1) if (spec.has_names() and (under or first)) else (0,)):
            base = {"spec": name, "rdclass": rdclass, "origin": og}
            buf = PREFIX + w + SUFFIX
            _do(col, dict(base, mode="A", buf=buf, off=len(PREFIX), rdlen=len(w)))
            _do(col, dict(base, mode="A", buf=w, off=0, rdlen=len(w)))
            _do(col, dict(base, mode="B", buf=w, off=0, rdlen=len(w)))
        for prefix, rd in compressed_variants(spec, values):
            _do(col, {"spec": name, "rdclass": rdclass, "origin": 0, "mode": "Ac", "buf": prefix + rd + SUFFIX,
                      "off": len(prefix), "rdlen": len(rd)})
        if first and type(spec) is R.Spec and any(type(f.kind) is R.Name for f in spec.fields):
            for pos in WSIDE_POSITIONS:
                _do(col, {"spec": name, "rdclass": rdclass, "origin": 0, "mode": "W", "buf": w, "off": 0, "rdlen": len(w), "pos": pos})
        if first:
            col.sample({"type": name, "rdclass": rdclass, "values": repr(values)[:200], "wire": w[:64]}, limit=1)
            first = False


def _labels_in(spec, values):
    for f, v in zip(spec.fields, values):
        if not f.kind.is_name:
            continue
        if isinstance(f.kind, R.Name):
            yield from v
        elif isinstance(f.kind, R.NameList):
            for n in v:
                yield from n
        elif isinstance(f.kind, R.GatewayKind) and v[0] == 3:
            yield from v[1]


def octet_strings(part, n8, full2):
    """part 0: lengths 0,1 and the 8-alphabet strings; parts 1..: a slice of the 2-octet space."""
    if part == 0:
        yield b""
        for a in range(256):
            yield bytes([a])
        for n in range(3, n8 + 1):
            for t in itertools.product(ALPHA8, repeat=n):
                yield bytes(t)
        if not full2:
            seen = set()
            for a in range(256):
                for b in ALPHA24:
                    seen.add((a, b))
                    seen.add((b, a))
            for a, b in sorted(seen):
                yield bytes([a, b])
    else:
        for a in range((part - 1) * 32, part * 32):
            for b in range(256):
                yield bytes([a, b])


def task_octets(task, col):
    name, rdclass, part, n8, full2 = task
    base = {"spec": name, "rdclass": rdclass, "origin": 0, "mode": "oct", "off": len(PREFIX)}
    for s in octet_strings(part, n8, full2):
        _do(col, dict(base, buf=PREFIX + s + SUFFIX, rdlen=len(s)))


def task_faults(task, col):
    name, rdclass, tier, cap, maxlen = task
    spec = R.BY_NAME[name]
    base = {"spec": name, "rdclass": rdclass, "origin": 0, "mode": "fault", "off": len(PREFIX)}
    seen = set()
    for values in capped_values(spec, tier, 1, cap, cap):
        w = R.ref_encode(spec, values)
        if len(w) > maxlen:
            col.count("fault_bases_skipped_too_long")
            continue
        col.count("fault_bases")
        muts = [w[:i] for i in range(len(w))]
        muts += [w + b"\x00", w + b"\xff", w + b"\x00\x00", w + b"\x01a"]
        for i in range(len(w)):
            for a in ALPHA10:
                if w[i] != a:
                    muts.append(w[:i] + bytes([a]) + w[i + 1:])
        for m in muts:
            if m in seen:
                continue
            seen.add(m)
            _do(col, dict(base, buf=PREFIX + m + SUFFIX, rdlen=len(m)))


def run(ctx):
    q = ctx.quick
    k = ctx.pick(2, 3)
    cap = ctx.pick(5, 12)
    n8 = ctx.pick(4, 6)
    full2 = not q
    fault_cap = ctx.pick(6, 40)
    fault_maxlen = ctx.pick(72, 400)
    tier = ctx.tier
    ctx.rule = (
        "per (class,type): k-deviation over the schema's per-field boundary domains (every value of every field once; "
        "pairs over the first `pair_cap` alternatives), each value through reference-wire->from_wire->attributes/"
        "to_wire (bare, embedded in a message, with origin, with compressed names) and constructor->to_wire->from_wire; "
        "each name-carrying type's base value written twice through to_wire(file, compress) at every start offset in "
        "{0,1,12} + [0x3FC0,0x4005] (names straddling the 14-bit pointer limit) and decoded by reference and library; "
        "arbitrary octets: all strings of length<=2 (quick: every pair with one octet in a 40-value alphabet), all "
        "strings of length<=n over an 8-octet alphabet, every truncation / single-octet substitution (10 values) / "
        "1-2 trailing octets of valid encodings.  A case is distinct by (type,class,mode,origin,octets); non-trivial "
        "= the library accepted the octets (or rejected reference-well-formed ones); accepted arbitrary-octet strings "
        "are distinct by construction and reported as the counter nontrivial_octet_strings_accepted instead of "
        "being hashed into distinct_nontrivial.")
    ctx.assume("reference decoder verdict 'hard' only for structural errors (field past RDLENGTH, leftover octets in a "
               "fixed layout, bad label type/pointer); value-level restrictions are 'soft' (either verdict allowed)")
    ctx.assume("names below the origin are spelled with the origin's exact case (RFC 4343: relativisation is case-insensitive)")
    ctx.assume("TSIG/TKEY algorithm names are never relative (meta records carry absolute names)")
    for order in PH_ORDERS:
        case = {"mode": "process-history", "order": order}
        res = process_history_case(case)
        ctx.count("evaluations")
        ctx.count("process_history_orders")
        ctx.outcome("process-history:" + ("same-classes" if not res else "differs"))
        for sig, what in res:
            ctx.violation(sig, what, case)
    cov = R.coverage()
    ctx.extra["types_implemented"] = cov["implemented"]
    ctx.extra["types_covered"] = cov["covered"]
    ctx.extra["types_not_covered"] = cov["not_covered"]
    ctx.extra["generic_unknown_cases"] = cov["generic_unknown"]
    ctx.extra["edns_option_codes"] = sorted({c for v in R.EdnsOptions().domain(tier) for c, _ in v})
    ctx.extra["bounds"] = {"k": k, "pair_cap": cap, "triple_cap": 3, "alphabet8_max_len": n8, "all_2_octet_strings": full2,
                           "fault_bases_per_dim": fault_cap, "fault_base_max_len": fault_maxlen, "origin": "example."}
    ctx.extra["domain_sizes"] = {s.name: [len(d) for _, d in s.dims(tier)] for s in R.SPECS}
    tasks = []
    for s in R.SPECS:
        for c in s.classes:
            tasks.append((task_values, (s.name, c, tier, k, cap)))
        c0 = s.classes[0]
        generic = s.impl is None
        tasks.append((task_octets, (s.name, c0, 0, n8 if not generic else 3, full2 and not generic)))
        if full2 and not generic:
            for part in range(1, 9):
                tasks.append((task_octets, (s.name, c0, part, n8, full2)))
        tasks.append((task_faults, (s.name, c0, tier, fault_cap, fault_maxlen)))
    tasks.extend((w_rollback, t) for t in rollback_tasks())
    ctx.pmap(_dispatch, tasks)


def _dispatch(task, col):
    fn, args = task
    fn(args, col)
