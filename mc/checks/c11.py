"""C11: versioned-zone readers see one immutable snapshot; version retention is sound.

Explicit-state BFS over interleaved histories of reader open (latest / by id / by serial,
incl. missing ones) / reader close / writer begin / write ops / commit / rollback /
set_max_versions / set_pruning_policy on the real dns.versioned.Zone and
dns.btreezone.Zone (single-threaded: C12 covers schedules).  State = event history
replayed on a fresh zone; canon = retained versions (ids relative to the newest, content),
pinned version of every open reader, policy, pending writer ops.
"""
from __future__ import annotations

import collections

import dns.btree
import dns.btreezone
from dns import _immutable_ctx
import dns.immutable
import dns.name
import dns.node
import dns.rdata
import dns.rdataclass
import dns.rdataset
import dns.rdatatype
import dns.transaction
import dns.versioned
import dns.zone

from .. import engines
from ..refs import zonemodel as zm

PROPERTY = "C11"
LEVEL = "model_checking"

ORIGIN = dns.name.from_text("example.")
KINDS = {"versioned": dns.versioned.Zone, "btree": dns.btreezone.Zone}
A1 = dns.rdata.from_text("IN", "A", "10.0.0.1")
A2 = dns.rdata.from_text("IN", "A", "10.0.0.2")
TXT = dns.rdata.from_text("IN", "TXT", '"t"')
NA = dns.name.from_text("a", None)
NB = dns.name.from_text("b.a", None)


def policy_even(zone, version):
    # prune odd ids only: an even id at the front stops pruning
    return version.id % 2 == 1


POLICIES = {
    "default": None,
    "even": policy_even,
}


class World:
    """Real zone + the harness's own bookkeeping (the reference)."""

    def __init__(self, kind, relativize):
        self.kind = kind
        self.z = KINDS[kind](ORIGIN, relativize=relativize)
        self.relativize = relativize
        self.history = []            # committed (id, snapshot)
        self.max_id = 0
        self.readers = []            # (txn, id) open readers, None when closed
        self.wtxn = None
        self.wops = []
        self.policy = ("default",)
        self.ref_versions = collections.deque()   # reference deque of retained ids
        self.problems = []
        self.kept = []               # caller-owned Rdataset objects handed to the zone
        self.poked = 0
        init_id = self.z._versions[-1].id
        self.ref_versions.append(init_id)
        self.contents = {init_id: {}}
        self.max_id = init_id
        with self.z.writer(True) as txn:
            txn.add(dns.name.empty, 10, dns.rdata.from_text("IN", "SOA", "m. r. 0 2 3 4 5"))
            txn.add(NA, 10, A1)
            txn.add(NB, 10, A2)
        self._committed()

    # ---- reference bookkeeping
    def _ref_policy(self, vid):
        p = self.policy
        if p[0] == "default":
            return True
        if p[0] == "never":
            return False
        if p[0] == "max":
            return len(self.ref_versions) > p[1]
        if p[0] == "even":
            return vid % 2 == 1
        raise AssertionError(p)

    def _ref_prune(self):
        pinned = [vid for t, vid in self.readers if t is not None]
        least_kept = min(pinned) if pinned else self.ref_versions[-1]
        while self.ref_versions[0] < least_kept and self._ref_policy(self.ref_versions[0]):
            self.ref_versions.popleft()

    def _committed(self):
        z = self.z
        vid = z._versions[-1].id
        if vid <= self.max_id:
            self.problems.append(("version-id-not-increasing", "new version id %d after max %d" % (vid, self.max_id)))
        self.max_id = max(self.max_id, vid)
        self.contents[vid] = zm.real_zone_snapshot(z)
        self.history.append(vid)
        self.ref_versions.append(vid)
        self._ref_prune()

    def retained(self):
        return [v.id for v in self.z._versions]

    # ---- events
    def apply(self, ev):
        z = self.z
        op = ev[0]
        trigger = False
        if op == "ropen":
            t = z.reader()
            self.readers.append((t, t.version.id))
            if t.version.id != self.retained()[-1]:
                self.problems.append(("reader-not-latest", "reader() pinned %d, newest %d" % (t.version.id, self.retained()[-1])))
        elif op == "ropen_id":
            ids = self.retained()
            k = ev[1]
            want = ids[k] if isinstance(k, int) and -len(ids) <= k < len(ids) else (self.max_id + 5 if k == "missing" else None)
            if want is None:
                return False
            try:
                t = z.reader(id=want)
                if want not in ids:
                    self.problems.append(("reader-id-ghost", "reader(id=%d) succeeded but retained ids are %s" % (want, ids)))
                elif t.version.id != want:
                    self.problems.append(("reader-id-wrong", "reader(id=%d) pinned %d" % (want, t.version.id)))
                self.readers.append((t, t.version.id))
            except KeyError:
                if want in ids:
                    self.problems.append(("reader-id-missing", "reader(id=%d) raised KeyError though retained %s" % (want, ids)))
        elif op == "ropen_serial":
            ids = self.retained()
            k = ev[1]
            if k == "missing":
                serial = 4000
            elif -len(ids) <= k < len(ids):
                serial = self._serial_of(ids[k])
            else:
                return False
            expect = None
            for vid in reversed(ids):
                if self._serial_of(vid) == serial:
                    expect = vid
                    break
            try:
                t = z.reader(serial=serial)
                if expect is None:
                    self.problems.append(("reader-serial-ghost", "reader(serial=%d) succeeded, retained serials %s" % (serial, [self._serial_of(i) for i in ids])))
                elif t.version.id != expect:
                    self.problems.append(("reader-serial-wrong", "reader(serial=%d) pinned id %d, newest retained with that serial is %d" % (serial, t.version.id, expect)))
                self.readers.append((t, t.version.id))
            except KeyError:
                if expect is not None:
                    self.problems.append(("reader-serial-missing", "reader(serial=%d) raised KeyError" % serial))
        elif op == "rclose":
            j = ev[1]
            open_idx = [i for i, (t, vid) in enumerate(self.readers) if t is not None]
            if j >= len(open_idx):
                return False
            i = open_idx[j]
            t, vid = self.readers[i]
            if ev[2] == "with":
                t.__exit__(None, None, None)
            else:
                t.rollback()
            self.readers[i] = (None, vid)
            trigger = True
        elif op == "wbegin":
            if self.wtxn is not None:
                return False
            self.wtxn = z.writer()
            self.wops = []
        elif op == "wop":
            if self.wtxn is None:
                return False
            x = ev[1]
            t = self.wtxn
            if x == "add_a2":
                t.add(NA, 10, A2)
            elif x == "del_a":
                t.delete(NA)
            elif x == "add_b":
                t.add(NB, 5, TXT)
            elif x == "serial":
                t.update_serial()
            elif x == "add_ns_a":
                # a zone cut at `a`: names beneath it (b.a) become glue (B-tree zones re-flag them)
                t.add(NA, 10, dns.rdata.from_text("IN", "NS", "ns.other."))
            elif x == "del_ns_a":
                t.delete(NA, "NS")
            elif x == "put_rds":
                # hand the zone a caller-owned mutable Rdataset object and keep it
                rds = dns.rdataset.Rdataset(dns.rdataclass.IN, dns.rdatatype.TXT, ttl=5)
                rds.add(TXT)
                t.replace(NB, rds)
                self.kept.append(rds)
            self.wops.append(x)
        elif op == "wcommit":
            if self.wtxn is None:
                return False
            before = self.retained()[-1]
            changed = self.wtxn.changed()
            self.wtxn.commit()
            self.wtxn = None
            self.wops = []
            after = self.retained()[-1]
            if changed:
                if after == before:
                    self.problems.append(("commit-no-version", "changed transaction committed but no new version"))
                else:
                    self._committed()
                    trigger = True
            elif after != before:
                self.problems.append(("empty-commit-new-version", "unchanged transaction created version %d" % after))
        elif op == "wrollback":
            if self.wtxn is None:
                return False
            before = self.retained()
            self.wtxn.rollback()
            self.wtxn = None
            self.wops = []
            if self.retained() != before:
                self.problems.append(("rollback-changed-versions", "%s -> %s" % (before, self.retained())))
        elif op == "poke":
            # the caller mutates its own Rdataset objects after the commit; committed
            # versions and open readers must not notice
            if not self.kept or self.wtxn is not None:
                return False
            self.poked += 1
            for rds in self.kept:
                rds.add(dns.rdata.from_text("IN", "TXT", '"poked%d"' % self.poked), 1)
        elif op == "maxv":
            z.set_max_versions(ev[1])
            self.policy = ("never",) if ev[1] is None else ("max", ev[1])
            self._ref_prune()
            trigger = True
        elif op == "policy":
            z.set_pruning_policy(POLICIES[ev[1]])
            self.policy = (ev[1],)
            self._ref_prune()
            trigger = True
        else:
            raise AssertionError(ev)
        if trigger and op == "rclose":
            self._ref_prune()
        self.check(trigger, ev)
        return True

    def _serial_of(self, vid):
        snap = self.contents[vid]
        for (n, t, c), (ttl, rds) in snap.items():
            if t == dns.rdatatype.SOA:
                return list(rds)[0].serial
        return None

    # ---- invariants
    def check(self, trigger, ev):
        z = self.z
        ids = self.retained()
        P = self.problems
        if ids != sorted(set(ids)):
            P.append(("ids-not-increasing", "retained ids %s" % ids))
        # contiguous run of committed history (+ the initial empty version)
        allids = sorted(self.contents)
        if ids:
            lo = allids.index(ids[0]) if ids[0] in allids else None
            if lo is None or allids[lo:lo + len(ids)] != ids:
                P.append(("retained-not-contiguous", "retained %s is not a contiguous run of history %s" % (ids, allids)))
            if ids[-1] != allids[-1]:
                P.append(("newest-not-retained", "retained %s, newest committed %d" % (ids, allids[-1])))
        for t, vid in self.readers:
            if t is not None and vid not in ids:
                P.append(("pinned-version-pruned", "open reader pins %d but retained %s" % (vid, ids)))
        if trigger and ids != list(self.ref_versions):
            P.append(("retention-differs-from-policy", "after %r retained %s, policy %s allows exactly %s" % (ev, ids, self.policy, list(self.ref_versions))))
        if not trigger and ids != list(self.ref_versions):
            # between triggers nothing may change
            P.append(("retention-changed-without-trigger", "after %r retained %s, expected %s" % (ev, ids, list(self.ref_versions))))
        # the newest committed version still holds exactly what was committed
        if ids and zm.real_zone_snapshot(z) != self.contents[ids[-1]]:
            P.append(("committed-version-changed", "after %r the newest committed version differs from what was committed: %s vs %s" % (
                ev, zm.fmt_snapshot(zm.real_zone_snapshot(z)), zm.fmt_snapshot(self.contents[ids[-1]]))))
        # zone.nodes is the newest version's map
        if z.nodes is not z._versions[-1].nodes:
            P.append(("published-map", "zone.nodes is not the newest version's map"))
        # every open reader sees exactly its version's recorded content, through every read API
        for t, vid in self.readers:
            if t is None:
                continue
            want = self.contents[vid]
            got = zm.zone_snapshot(list(t.iterate_rdatasets()), ORIGIN, self.relativize)
            if got != want:
                P.append(("snapshot-changed/iterate_rdatasets", "reader on %d sees %s, committed %s" % (vid, zm.fmt_snapshot(got), zm.fmt_snapshot(want))))
            names = {n.derelativize(ORIGIN) for n in t.iterate_names()}
            if names != {k[0] for k in want}:
                P.append(("snapshot-changed/iterate_names", "reader on %d" % vid))
            for nm in (dns.name.empty, NA, NB):
                absn = nm.derelativize(ORIGIN)
                for form in (nm, absn):
                    exists = any(k[0] == absn for k in want)
                    if t.name_exists(form) != exists:
                        P.append(("snapshot-changed/name_exists", "reader on %d name %s" % (vid, form)))
                    node = t.get_node(form)
                    if (node is not None) != exists:
                        P.append(("snapshot-changed/get_node", "reader on %d name %s" % (vid, form)))
                    for ty in (dns.rdatatype.A, dns.rdatatype.TXT, dns.rdatatype.SOA):
                        rds = t.get(form, ty)
                        w = want.get((absn, int(ty), 0))
                        g = None if rds is None else (rds.ttl, frozenset(rds))
                        if g != w:
                            P.append(("snapshot-changed/get", "reader on %d get(%s,%s)=%s want %s" % (vid, form, ty, g, w)))
        # the writer sees its own base + ops (read-your-writes is C10's business)

    def canon(self):
        ids = self.retained()
        newest = ids[-1]
        base_serial = self._serial_of(newest) or 0

        def ckey(vid):
            snap = self.contents[vid]
            return (tuple(sorted((str(k[0]), k[1], v[0], tuple(sorted(r.to_text() for r in v[1])))
                                 for k, v in snap.items() if k[1] != dns.rdatatype.SOA)),
                    (self._serial_of(vid) or 0) - base_serial)

        return (self.kind, self.relativize, tuple((vid - newest, ckey(vid)) for vid in ids),
                tuple(sorted(vid - newest for t, vid in self.readers if t is not None)),
                self.policy, None if self.wtxn is None else tuple(self.wops), newest % 2,
                (len(self.kept) > 0, self.poked))


def events(w, max_commits, max_readers):
    evs = []
    nopen = sum(1 for t, vid in w.readers if t is not None)
    nret = len(w.retained())
    if nopen < max_readers:
        evs.append(("ropen",))
        for k in range(nret - 1):      # older retained versions by position
            evs.append(("ropen_id", k))
            evs.append(("ropen_serial", k))
        evs.append(("ropen_id", "missing"))
        evs.append(("ropen_serial", "missing"))
    for j in range(nopen):
        evs.append(("rclose", j, "rollback" if j % 2 == 0 else "with"))
    if w.wtxn is None:
        if len(w.history) < max_commits:
            evs.append(("wbegin",))
    else:
        if len(w.wops) < 2:
            for x in ("add_a2", "del_a", "add_b", "serial", "put_rds", "add_ns_a", "del_ns_a"):
                evs.append(("wop", x))
        evs.append(("wcommit",))
        evs.append(("wrollback",))
    if w.kept and w.wtxn is None and w.poked < 1:
        evs.append(("poke",))
    for n in (1, 2, None):
        evs.append(("maxv", n))
    evs.append(("policy", "even"))
    evs.append(("policy", "default"))
    return evs


def replay(cfg, history):
    w = World(cfg["kind"], cfg["relativize"])
    for ev in history:
        w.apply(tuple(ev))
    return w


def crash_sig(e):
    import traceback
    tb = traceback.extract_tb(e.__traceback__)
    return "crash/%s@%s" % (type(e).__name__, tb[-1].name)


def run_step(case):
    cfg = case["cfg"]
    try:
        w = replay(cfg, case["history"])
        w.problems = []
        ok = w.apply(tuple(case["event"]))
    except Exception as e:
        return [(crash_sig(e), repr(e))], None, None
    if not ok:
        return [], None, None
    return list(w.problems), w.canon(), w


# ------------------------------------------------------------------ immutability surface
def digest_reader(t, relativize):
    return zm.zone_snapshot(list(t.iterate_rdatasets()), ORIGIN, relativize)


def mutator_calls(obj, kind):
    """(label, thunk) for every mutator we can find on obj by reflection."""
    calls = []
    other_rds = dns.rdataset.from_rdata(3, A2)

    def add(label, fn):
        calls.append((label, fn))

    if kind == "map":
        k_new = dns.name.from_text("zz", None)
        some = next(iter(obj.keys()), None)
        add("setitem-new", lambda: obj.__setitem__(k_new, dns.node.Node()))
        add("update", lambda: obj.update({k_new: dns.node.Node()}))
        add("setdefault-new", lambda: obj.setdefault(k_new, dns.node.Node()))
        if some is not None:
            add("setitem-existing", lambda: obj.__setitem__(some, dns.node.Node()))
            add("delitem", lambda: obj.__delitem__(some))
            add("pop", lambda: obj.pop(some))
            add("popitem", lambda: obj.popitem())
            add("clear", lambda: obj.clear())
    elif kind == "set":
        k_new = dns.name.from_text("zz", None)
        add("add", lambda: obj.add(k_new))
        add("discard-missing", lambda: obj.discard(k_new))
        add("ior", lambda: obj.__ior__({k_new}))
        some = next(iter(obj), None)
        if some is not None:
            add("discard", lambda: obj.discard(some))
            add("remove", lambda: obj.remove(some))
            add("pop", lambda: obj.pop())
            add("clear", lambda: obj.clear())
    elif kind == "node":
        IN = dns.rdataclass.IN
        add("find_rdataset-create", lambda: obj.find_rdataset(IN, dns.rdatatype.MX, create=True))
        add("get_rdataset-create", lambda: obj.get_rdataset(IN, dns.rdatatype.MX, create=True))
        add("delete_rdataset", lambda: obj.delete_rdataset(IN, obj.rdatasets[0].rdtype))
        add("replace_rdataset", lambda: obj.replace_rdataset(other_rds))
        add("rdatasets.append", lambda: obj.rdatasets.append(other_rds))
        add("rdatasets-setitem", lambda: obj.rdatasets.__setitem__(0, other_rds))
        add("_append_rdataset", lambda: obj._append_rdataset(other_rds))
    elif kind == "rdataset":
        first = next(iter(obj))
        for name in ("add", "discard", "remove"):
            add(name, (lambda n: lambda: getattr(obj, n)(A2 if n == "add" else first))(name))
        add("add-ttl", lambda: obj.add(first, 1))
        add("update_ttl", lambda: obj.update_ttl(1))
        add("pop", lambda: obj.pop())
        add("clear", lambda: obj.clear())
        for name in ("update", "union_update", "intersection_update", "difference_update",
                     "symmetric_difference_update", "__ior__", "__iand__", "__isub__", "__ixor__", "__iadd__"):
            if hasattr(obj, name):
                arg = other_rds if name not in ("difference_update", "__isub__") else dns.rdataset.from_rdata(3, first)
                if name in ("intersection_update", "__iand__"):
                    arg = other_rds
                add(name, (lambda n, a: lambda: getattr(obj, n)(a))(name, arg))
        add("delitem", lambda: obj.__delitem__(0))
        add("items-setitem", lambda: obj.items.__setitem__(A2, None))
        add("items-clear", lambda: obj.items.clear())
    # attribute surface: only for objects whose class is declared attribute-immutable
    # (@dns.immutable.immutable).  A frozen BTreeDict/BTreeSet protects its mapping/set API
    # (enumerated above); poking its private attributes (root, size, _immutable, cursors)
    # is not a "mutating call" of any public API, so it is not demanded to raise.
    if not isinstance(obj, _immutable_ctx._Immutable):
        return calls
    slots = set()
    for c in type(obj).__mro__:
        slots.update(getattr(c, "__slots__", ()) or ())
    slots.update(getattr(obj, "__dict__", {}).keys())
    for s in sorted(x for x in slots if isinstance(x, str)):
        add("setattr-" + s, (lambda s: lambda: setattr(obj, s, None))(s))
        add("delattr-" + s, (lambda s: lambda: delattr(obj, s))(s))
    add("setattr-fresh", lambda: setattr(obj, "zz_new_attribute", 1))
    return calls


def run_immutability(case):
    cfg = case["cfg"]
    probs = []
    w = replay(cfg, case["history"])
    for t, vid in w.readers:
        if t is None:
            continue
        base = digest_reader(t, w.relativize)
        version = t.version
        targets = [("version", version, "obj"), ("map", version.nodes, "map")]
        for name, node in list(version.nodes.items()):
            targets.append(("node", node, "node"))
            # objects handed out by the transaction API
            tn = t.get_node(name)
            if tn is not node:
                targets.append(("txn-node", tn, "node"))
            for rds in node.rdatasets:
                targets.append(("rdataset", rds, "rdataset"))
                for r in rds:
                    targets.append(("rdata", r, "obj"))
                g = t.get(name, rds.rdtype, rds.covers)
                if g is not rds:
                    targets.append(("txn-rdataset", g, "rdataset"))
            targets.append(("name", name, "obj"))
        for n2, rds in t.iterate_rdatasets():
            targets.append(("iter-rdataset", rds, "rdataset"))
        if hasattr(version, "delegations"):
            targets.append(("delegations", version.delegations, "set"))
        seen = set()
        for label, obj, kind in targets:
            if id(obj) in seen:
                continue
            seen.add(id(obj))
            for mname, fn in mutator_calls(obj, kind):
                raised = False
                try:
                    fn()
                except Exception:
                    raised = True
                after = digest_reader(t, w.relativize)
                if after != base:
                    probs.append(("immutability/changed/%s.%s" % (label, mname),
                                  "%s on %s (%s) changed the snapshot of version %d" % (mname, label, type(obj).__name__, vid)))
                    return probs
                if not raised:
                    # the call was accepted: only a defect if it is observable; attribute
                    # rebinding on a reachable object is observable by the next reader of it
                    probs.append(("immutability/accepted/%s.%s" % (label, mname),
                                  "%s on %s (%s) did not raise" % (mname, label, type(obj).__name__)))
        # the read transaction itself refuses writes
        for mname, fn in (("add", lambda: t.add(NA, 5, A2)), ("replace", lambda: t.replace(NA, 5, A2)),
                          ("delete", lambda: t.delete(NA)), ("delete_exact", lambda: t.delete_exact(NA)),
                          ("update_serial", lambda: t.update_serial())):
            try:
                fn()
                probs.append(("immutability/reader-accepts-" + mname, "reader transaction accepted %s" % mname))
            except dns.transaction.ReadOnly:
                pass
            except Exception as e:
                probs.append(("immutability/reader-wrong-exception-" + mname, repr(e)))
        # the zone's own mutators refuse
        z = w.z
        for mname, fn in (("find_node-create", lambda: z.find_node("q", create=True)), ("delete_node", lambda: z.delete_node("a")),
                          ("find_rdataset-create", lambda: z.find_rdataset("q", "A", create=True)),
                          ("get_rdataset-create", lambda: z.get_rdataset("q", "A", create=True)),
                          ("delete_rdataset", lambda: z.delete_rdataset("a", "A")),
                          ("replace_rdataset", lambda: z.replace_rdataset("a", dns.rdataset.from_rdata(3, A2)))):
            try:
                fn()
                probs.append(("immutability/zone-accepts-" + mname, "zone accepted %s outside a transaction" % mname))
            except dns.versioned.UseTransaction:
                pass
            except Exception as e:
                probs.append(("immutability/zone-wrong-exception-" + mname, repr(e)))
        if digest_reader(t, w.relativize) != base:
            probs.append(("immutability/changed-by-zone-api", "snapshot changed"))
        break  # first open reader is enough per state
    return probs


def recheck(case):
    if case["mode"] == "immut":
        return [("C11/" + s, w) for s, w in run_immutability(case)]
    if case["mode"] == "large-pinned":
        from . import c20
        return [("C11/" + s, w) for s, w in c20.run_large(dict(case, mode="large")) if s.startswith("large/pinned-version")]
    if case["mode"] == "btcow":
        return _btcow_recheck(case)
    if case["mode"] == "sched":
        from . import c12
        h, probs = c12.run_one(case["cfg"], case["choices"])
        return [("C11/sched/" + s, w) for s, w in probs]
    probs, _, _ = run_step(case)
    return [("C11/" + s, w) for s, w in probs]


_IMM_SEEN = set()


def expand(state, col):
    cfg, history, limits = state
    max_commits, max_readers, imm_depth = limits
    w = replay(cfg, history)
    hist_json = [list(e) for e in history]
    # the mutator surface depends on which objects a version holds, i.e. on the committed write
    # operations, not on the reader/pruning events: run it once per distinct (configuration,
    # committed write ops, pinned position) per worker, at every depth
    wkey = (cfg["kind"], cfg["relativize"], tuple(e[1] for e in history if e[0] == "wop"),
            tuple(e[0] for e in history if e[0] in ("wcommit", "wrollback", "poke")),
            tuple(sorted(vid - w.retained()[-1] for t, vid in w.readers if t is not None)))
    if any(t is not None for t, _ in w.readers) and wkey not in _IMM_SEEN:
        _IMM_SEEN.add(wkey)
        case = {"mode": "immut", "cfg": cfg, "history": hist_json}
        try:
            probs = run_immutability(case)
        except Exception as e:
            probs = [("immutability/" + crash_sig(e), repr(e))]
        col.count("evaluations")
        col.count("immutability_states")
        col.outcome("immut:" + (probs[0][0] if probs else "ok"))
        for s, ww in probs:
            col.violation("C11/" + s, ww, case)
    for ev in events(w, max_commits, max_readers):
        case = {"mode": "step", "cfg": cfg, "history": hist_json, "event": list(ev)}
        probs, cn, w2 = run_step(case)
        col.count("evaluations")
        col.outcome("%s:%s" % (ev[0], probs[0][0] if probs else "ok"))
        for s, ww in probs:
            col.violation("C11/" + s, ww, case)
        if cn is not None and not probs:
            col.nontrivial(cn)
            yield cn, (cfg, history + (ev,), limits)
    if len(history) in (3, 5):
        col.sample({"cfg": cfg, "history": hist_json}, limit=2)


def _sched_task(task, col):
    """Reader open racing a commit (line-level schedules, via the C12 harness): the version a
    reader pins must stay retained and its content fixed for the reader's whole life."""
    from . import c12
    from .. import sched as S
    cfg, prefix, bound = task
    keep = ("reader-version-not-retained", "reader-partial-state", "version-ids", "deadlock", "published-map-stale")

    def make(pfx):
        h, probs = c12.run_one(cfg, pfx)
        col.count("evaluations")
        col.count("schedules")
        col.count("transitions", h.sched.npoints)
        col.outcome("sched:" + (probs[0][0] if probs else "ok"))
        for s_, w_ in probs:
            if s_ in keep or s_.startswith("thread-exception"):
                col.violation("C11/sched/" + s_, "%s (schedule %s)" % (w_, h.sched.choices),
                              {"mode": "sched", "cfg": cfg, "choices": list(h.sched.choices)})
        return h.sched

    S.explore(make, bound, prefix)


def sched_part(ctx):
    from . import c12
    from .. import sched as S
    cfgs = []
    for kind in ("versioned", "btree"):
        for plan in (("commit",), ("commit", "commit")):
            name = "%s W%d R1 %s line" % (kind, len(plan), "/".join(plan))
            cfgs.append(({"name": name, "kind": kind, "W": len(plan), "R": 1, "plan": list(plan), "level": "line", "upoints": 1},
                         ctx.pick(1, 2) if len(plan) == 2 else 2))
    tasks = []
    for cfg, bound in cfgs:
        h, probs = c12.run_one(cfg, [])
        for k in S.children(h.sched, [], bound):
            tasks.append((cfg, k, bound))
    ctx.extra["schedule_configs"] = [c["name"] for c, b in cfgs]
    ctx.pmap(_sched_task, tasks)


class SmallTZone(dns.btreezone.Zone):
    """B-tree zone whose maps use the smallest branching factor, so that a handful of names
    already exercises node splits, steals and merges of the copy-on-write tree that the
    versions of a zone share."""
    map_factory = staticmethod(lambda: dns.btree.BTreeDict(t=3))


def _btree_cow_task(task, col):
    """Reader pinned on version 1 of an n-name zone; every single-name delete / add / replace
    transaction (committed or rolled back) must leave the reader's snapshot and, for
    rollbacks, the zone untouched, and commits must give exactly the expected content."""
    n, rel = task
    names = [dns.name.from_text("h%02d" % i, None) for i in range(n)]
    extra = [dns.name.from_text("h%02dx" % i, None) for i in range(-1, n)]

    def fresh():
        z = SmallTZone(ORIGIN, relativize=rel)
        with z.writer(True) as txn:
            txn.add(dns.name.empty, 10, dns.rdata.from_text("IN", "SOA", "m. r. 1 2 3 4 5"))
            for nm in names:
                txn.add(nm, 10, A1)
        return z

    ops = [("del", nm) for nm in names] + [("add", nm) for nm in extra] + [("rep", nm) for nm in names[::3]]
    for kind, nm in ops:
        for commit in (True, False):
            z = fresh()
            base = zm.real_zone_snapshot(z)
            rd = z.reader()
            txn = z.writer()
            if kind == "del":
                txn.delete(nm)
            elif kind == "add":
                txn.add(nm, 10, A2)
            else:
                txn.replace(nm, 10, A2)
            mid = zm.zone_snapshot(list(rd.iterate_rdatasets()), ORIGIN, rel)
            if commit:
                txn.commit()
            else:
                txn.rollback()
            after_reader = zm.zone_snapshot(list(rd.iterate_rdatasets()), ORIGIN, rel)
            col.count("evaluations")
            col.count("btree_cow_cases")
            case = {"mode": "btcow", "n": n, "relativize": rel, "op": kind, "name": nm.to_text(), "commit": commit}
            exp = dict(base)
            key = (nm.derelativize(ORIGIN), int(dns.rdatatype.A), 0)
            if kind == "del":
                exp.pop(key, None)
            else:
                exp[key] = (10, frozenset([A2]))
            now = zm.real_zone_snapshot(z)
            bad = None
            if mid != base:
                bad = ("btree-cow/reader-sees-open-writer", "reader's snapshot changed while a writer was open (%s %s)" % (kind, nm))
            elif after_reader != base:
                bad = ("btree-cow/reader-snapshot-changed", "reader's snapshot changed after %s of %s %s" % ("commit" if commit else "rollback", kind, nm))
            elif commit and now != exp:
                bad = ("btree-cow/commit-content", "zone after committing %s %s differs from the expected content" % (kind, nm))
            elif not commit and now != base:
                bad = ("btree-cow/rollback-content", "zone changed by a rolled-back %s %s" % (kind, nm))
            names_iter = [k.derelativize(ORIGIN) for k in z.nodes.keys()]
            if bad is None and names_iter != sorted(names_iter):
                bad = ("btree-cow/iteration-order", "names not in canonical order after %s %s" % (kind, nm))
            col.outcome("btcow:" + (bad[0] if bad else "ok"))
            if bad:
                col.violation("C11/" + bad[0], bad[1] + " [n=%d relativize=%s]" % (n, rel), case)
            rd.rollback()
    col.nontrivial(("btcow", n, rel))


def _large_pinned_task(task, col):
    """A reader pinned on a B-tree zone version with hundreds of delegation points (sizes at
    which nodes of the default-branching-factor trees fill up) while a writer adds more: what
    the pinned version holds (names, flags, delegation index, bounds) must not move.  Uses the
    C20 scenario and reference; only the pinned-version part is this property's business."""
    from . import c20
    n, rel = task
    for add in (["d9999"], ["d0100x", "d9999", "a0"]):
        for commit in (True, False):
            case = {"mode": "large", "n": n, "relativize": rel, "commit": commit, "add": add}
            try:
                probs = [p for p in c20.run_large(case) if p[0].startswith("large/pinned-version")]
            except Exception as e:
                probs = [("large/" + crash_sig(e), repr(e))]
            col.count("evaluations")
            col.count("large_pinned_cases")
            col.outcome("large-pinned:" + (probs[0][0] if probs else "ok"))
            col.nontrivial(("large-pinned", n, rel, tuple(add), commit))
            for s_, w_ in probs:
                col.violation("C11/" + s_, w_ + " [%d delegations, relativize=%s, %s]" % (n, rel, "commit" if commit else "rollback"),
                              dict(case, mode="large-pinned"))


def _btcow_recheck(case):
    col = __import__("mc.core", fromlist=["Collector"]).Collector()
    _btree_cow_task((case["n"], case["relativize"]), col)
    return [(s, v[0].what) for s, v in col.violations.items()]


def run(ctx):
    ctx.rule = ("BFS over event histories (reader open latest/by id/by serial incl. missing, reader close, writer "
                "begin/op/commit/rollback, set_max_versions 1|2|None, custom/default pruning policy) on the real "
                "versioned and B-tree zones; canon = retained versions (relative ids + content), pinned ids, policy, "
                "pending writer ops; distinct = distinct canon.  In every state all read APIs of every open reader are "
                "compared with the content recorded at commit; at states up to the stated depth the whole mutator "
                "surface reachable from a reader is enumerated by reflection")
    ctx.assume("single-threaded histories (schedules are C12); <= 3 open readers; <= 3-4 commits per history")
    ctx.assume("'exactly what the pruning policy allows' is evaluated at pruning triggers (commit, reader close, policy change)")
    limits = ctx.pick((2, 2, 4), (3, 3, 5))
    depth = ctx.pick(7, 9)
    ctx.extra["max_commits,max_readers,immutability_depth"] = list(limits)
    ctx.extra["bfs_depth"] = depth
    init = []
    for kind in ("versioned", "btree"):
        for rel in (True, False):
            if ctx.quick and kind == "btree" and not rel:
                continue
            cfg = {"kind": kind, "relativize": rel}
            init.append(((kind, rel, "init"), (cfg, (), limits)))
    engines.bfs(ctx, init, expand, max_depth=depth)
    sched_part(ctx)
    ctx.pmap(_btree_cow_task, [(n, rel) for n in range(5, ctx.pick(22, 40)) for rel in (True, False)])
    ctx.extra["btree_cow_names"] = [5, ctx.pick(21, 39)]
    sizes = ctx.pick([253, 254, 380, 381], [127, 128, 252, 253, 254, 255, 380, 381, 382, 507, 508])
    ctx.extra["large_pinned_delegation_counts"] = sizes
    ctx.pmap(_large_pinned_task, [(n, rel) for n in sizes for rel in (True, False)])
    # the depth cap is the stated bound, not an accident
    ctx.caps[:] = []
    ctx.extra["depth_bound_reached"] = True
    ctx.exhaustive = True
    ctx.counts["traces_validated_against_impl"] = ctx.counts.get("evaluations", 0)
