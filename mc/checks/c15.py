"""C15: key-free DNSSEC computations equal an independent RFC 4034/4035/4509/5155/6840/8976
reference (mc/refs/dnssec.py).

Six exhaustive sub-enumerations, all run on the real code:

  canon   Rdata.to_digestable of records of every implemented type, built from text
          specimens with every spelling of the embedded names (case mixes, escapes at the
          A-Z boundaries, relative / absolute / '@' / root) x origin x relativisation
  rrsig   dns.dnssec._make_rrsig_signature_data: RRsets x owners x EVERY Labels value
          x signer spelling x original TTL x rrset form x origin mode
  ds      make_ds / make_cds / dnskey_rdataset_to_cds_rdataset / make_ds_rdataset / key_id
  nsec3   nsec3_hash over names x salts x iterations
  zonemd  Zone.compute_digest / verify_digest on every zone over a small RRset universe
  nsec    sign_zone(rrset_signer=recorder, add_dnskey=False) on every zone over a small
          name universe (delegations, glue at and below the cut, nested cuts, ENTs, ...)
"""
from __future__ import annotations

import itertools
import traceback

import dns.btreezone
import dns.dnssec
import dns.exception
import dns.name
import dns.rdata
import dns.rdataclass
import dns.rdataset
import dns.rdatatype
import dns.rdtypes.ANY.RRSIG
import dns.rdtypes.ANY.ZONEMD
import dns.rrset
import dns.versioned
import dns.zone

from ..refs import dnssec as ref

PROPERTY = "C15"
LEVEL = "exploration"

# dnspython imports its rdata modules lazily; load them all now so that forked workers and
# the replay in the parent never import from the tree half-way through a run
for _c in (dns.rdataclass.IN, dns.rdataclass.CH, dns.rdataclass.ANY):
    for _t in dns.rdatatype.RdataType:
        dns.rdata.get_rdata_class(_c, _t)


def crash_sig(e):
    tb = traceback.extract_tb(e.__traceback__)
    return "crash/%s@%s" % (type(e).__name__, tb[-1].name if tb else "?")


def lib_labels(name, origin=None):
    """dns.name.Name -> absolute label tuple without the root label (data extraction)."""
    if not name.is_absolute():
        name = name.derelativize(origin)
    return tuple(name.labels[:-1])


def lib_name(labels):
    return dns.name.Name(tuple(labels) + (b"",))


# =========================================================================================
# specimens
# =========================================================================================
T20200101 = 1577836800   # 20200101000000
T20190101 = 1546300800   # 20190101000000
BM1 = ref.type_bitmap([1, 15, 46, 47, 1234])

# (label, rdclass text, rdtype text, rdtype int, text template, fields, flags)
# {0},{1} are replaced by name spellings; fields reference them as ('name', i).
NAME_SPECS = [
    ("NS", "IN", "NS", 2, "{0}", [("name", 0)], {}),
    ("CNAME", "IN", "CNAME", 5, "{0}", [("name", 0)], {}),
    ("PTR", "IN", "PTR", 12, "{0}", [("name", 0)], {}),
    ("DNAME", "IN", "DNAME", 39, "{0}", [("name", 0)], {}),
    ("NSAP-PTR", "IN", "NSAP-PTR", 23, "{0}", [("name", 0)], {}),
    ("SOA", "IN", "SOA", 6, "{0} {1} 2024010101 7200 3600 1209600 300",
     [("name", 0), ("name", 1), ("u32", 2024010101), ("u32", 7200), ("u32", 3600),
      ("u32", 1209600), ("u32", 300)], {}),
    ("MX", "IN", "MX", 15, "10 {0}", [("u16", 10), ("name", 0)], {}),
    ("AFSDB", "IN", "AFSDB", 18, "1 {0}", [("u16", 1), ("name", 0)], {}),
    ("RT", "IN", "RT", 21, "7 {0}", [("u16", 7), ("name", 0)], {}),
    ("KX", "IN", "KX", 36, "20 {0}", [("u16", 20), ("name", 0)], {}),
    ("LP", "IN", "LP", 107, "30 {0}", [("u16", 30), ("name", 0)], {}),
    ("RP", "IN", "RP", 17, "{0} {1}", [("name", 0), ("name", 1)], {}),
    ("PX", "IN", "PX", 26, "10 {0} {1}", [("u16", 10), ("name", 0), ("name", 1)], {}),
    ("SRV", "IN", "SRV", 33, "1 2 443 {0}",
     [("u16", 1), ("u16", 2), ("u16", 443), ("name", 0)], {}),
    ("NAPTR", "IN", "NAPTR", 35, '100 10 "Su" "SIP+D2U" "!^.*$!sip:Info@Example.COM!" {0}',
     [("u16", 100), ("u16", 10), ("str", b"Su"), ("str", b"SIP+D2U"),
      ("str", b"!^.*$!sip:Info@Example.COM!"), ("name", 0)], {}),
    ("RRSIG", "IN", "RRSIG", 46, "MX 8 2 3600 20200101000000 20190101000000 54321 {0} AUJDRA==",
     [("u16", 15), ("u8", 8), ("u8", 2), ("u32", 3600), ("u32", T20200101), ("u32", T20190101),
      ("u16", 54321), ("name", 0), ("hex", "01424344")], {}),
    ("SIG", "IN", "SIG", 24, "MX 8 2 3600 20200101000000 20190101000000 54321 {0} AUJDRA==",
     [("u16", 15), ("u8", 8), ("u8", 2), ("u32", 3600), ("u32", T20200101), ("u32", T20190101),
      ("u16", 54321), ("name", 0), ("hex", "01424344")], {}),
    ("NSEC", "IN", "NSEC", 47, "{0} A MX RRSIG NSEC TYPE1234", [("name", 0), ("raw", BM1)], {}),
    ("HIP", "IN", "HIP", 55, "2 200100107B1A74DF365639CC39F1D578 AwEAAQ== {0} {1}",
     [("u8", 16), ("u8", 2), ("u16", 4), ("hex", "200100107B1A74DF365639CC39F1D578"),
      ("hex", "03010001"), ("name", 0), ("name", 1)], {}),
    ("IPSECKEY", "IN", "IPSECKEY", 45, "10 3 2 {0} AwEAAQ==",
     [("u8", 10), ("u8", 3), ("u8", 2), ("name", 0), ("hex", "03010001")], {}),
    ("AMTRELAY", "IN", "AMTRELAY", 260, "10 1 3 {0}", [("u8", 10), ("u8", 0x83), ("name", 0)], {}),
    ("SVCB", "IN", "SVCB", 64, "1 {0} alpn=h2 port=443",
     [("u16", 1), ("name", 0), ("hex", "000100030268320003000201bb")], {}),
    ("HTTPS", "IN", "HTTPS", 65, "0 {0}", [("u16", 0), ("name", 0)], {}),
    ("DSYNC", "IN", "DSYNC", 66, "CDS NOTIFY 5359 {0}",
     [("u16", 59), ("u8", 1), ("u16", 5359), ("name", 0)], {}),
    ("CH-A", "CH", "A", 1, "{0} 177", [("name", 0), ("u16", 0o177)], {}),
    ("TKEY", "ANY", "TKEY", 249, "{0} 1609459200 1609462800 3 0 QUJDWg==",
     [("name", 0), ("u32", 1609459200), ("u32", 1609462800), ("u16", 3), ("u16", 0),
      ("u16", 4), ("hex", "4142435a"), ("u16", 0)], {"abs_only": True}),
    ("TSIG", "ANY", "TSIG", 250, "{0} 1609459200 300 4 QUJDWg== 12345 NOERROR 0",
     [("name", 0), ("u48", 1609459200), ("u16", 300), ("u16", 4), ("hex", "4142435a"),
      ("u16", 12345), ("u16", 0), ("u16", 0)], {"abs_only": True}),
    # types of the RFC 4034 s6.2 list that dnspython does not implement: only reachable
    # as RFC 3597 generic data ("\# len hex"), i.e. opaque to the library
    ("MB", "IN", "MB", 7, None, [("name", 0)], {"generic": True}),
    ("MG", "IN", "MG", 8, None, [("name", 0)], {"generic": True}),
    ("MR", "IN", "MR", 9, None, [("name", 0)], {"generic": True}),
    ("MD", "IN", "MD", 3, None, [("name", 0)], {"generic": True}),
    ("MF", "IN", "MF", 4, None, [("name", 0)], {"generic": True}),
    ("MINFO", "IN", "MINFO", 14, None, [("name", 0), ("name", 1)], {"generic": True}),
    ("NXT", "IN", "NXT", 30, None, [("name", 0), ("hex", "4000000000000002")], {"generic": True}),
    ("A6", "IN", "A6", 38, None, [("u8", 64), ("hex", "0000000000004142"), ("name", 0)],
     {"generic": True}),
    # an unknown type whose payload happens to look like a name (RFC 3597 s7: never touched)
    ("TYPE65280", "IN", "TYPE65280", 65280, None, [("name", 0)], {"generic": True, "unknown": True}),
]
NAME_SPEC_INDEX = {s[0]: i for i, s in enumerate(NAME_SPECS)}

# name spellings used for the placeholders (master-file syntax)
SPELL_Q = ["Mail", "mAiL.Sub", "@", "HOST.Example.ORG.", "Ns.OTHER.Net.", ".",
           "\\065\\090\\064\\091x", "\\192\\223q.T", "*.Wild"]
SPELL_T = SPELL_Q + ["host.EXAMPLE.org.", "ZZ", "a.B.c.D", "\\000\\255.Y.", "Org.", "x.Example.ORG"]
SPELL_X = SPELL_T + ["A", "Z", "\\064", "\\091", "Esc\\.Dot.Q", "X" * 63, "a.b.c.d.e.f.g.H", "ORG.", "example.ORG."]

ORIGINS = ["Example.ORG.", "."]
ORIGINS2 = ["Example.ORG.", "Other.Zone."]   # origin handed to to_digestable()

# specimens of types without embedded names: canonical form == uncompressed wire form.
# Upper-case letters are planted in the data so that stray down-casing shows.
PLAIN_SPECS = [
    ("IN", "A", "10.65.66.90"),
    ("IN", "AAAA", "2001:db8::4142:5a"),
    ("IN", "TXT", '"AbC" "Zz\\065" ""'),
    ("IN", "SPF", '"v=spf1 -ALL"'),
    ("IN", "HINFO", '"Cpu-X" "OS-Y"'),
    ("IN", "WKS", "10.0.0.1 6 25 80"),
    ("IN", "X25", '"31101234"'),
    ("IN", "ISDN", '"150862028003217" "004"'),
    ("IN", "NSAP", "0x47000580005a0000000001e133ffffff00016100"),
    ("IN", "GPOS", "-32.6882 116.8652 10.0"),
    ("IN", "LOC", "42 21 54 N 71 06 18 W -24m 30m"),
    ("IN", "KEY", "256 3 8 QUJDWg=="),
    ("IN", "DNSKEY", "257 3 8 QUJDWg=="),
    ("IN", "CDNSKEY", "257 3 13 QUJDWg=="),
    ("IN", "CERT", "PKIX 1 RSASHA256 QUJDWg=="),
    ("IN", "APL", "1:192.168.32.0/21 !1:192.168.38.0/28"),
    ("IN", "DS", "12345 8 2 " + "4A5B" * 16),
    ("IN", "CDS", "12345 8 2 " + "4A5B" * 16),
    ("IN", "DLV", "12345 8 2 " + "4A5B" * 16),
    ("IN", "SSHFP", "1 1 " + "4A5B" * 10),
    ("IN", "DHCID", "QUJDWkFCQ1o="),
    ("IN", "NSEC3", "1 1 12 aabbccdd 2t7b4g4vsa5smi47k61mv5bv1a22bojr MX DNSKEY NS SOA NSEC3PARAM RRSIG"),
    ("IN", "NSEC3PARAM", "1 0 12 AABBCCDD"),
    ("IN", "TLSA", "3 1 1 " + "4A5B" * 16),
    ("IN", "SMIMEA", "3 1 1 " + "4A5B" * 16),
    ("IN", "NINFO", '"AbC"'),
    ("IN", "OPENPGPKEY", "QUJDWg=="),
    ("IN", "CSYNC", "66 3 A NS AAAA"),
    ("IN", "ZONEMD", "2018031500 1 1 " + "4A5B" * 24),
    ("IN", "HHIT", "QUJDWg=="),
    ("IN", "BRID", "QUJDWg=="),
    ("IN", "NID", "10 0014:4fff:ff20:ee64"),
    ("IN", "L32", "10 10.1.2.0"),
    ("IN", "L64", "10 2001:0DB8:1140:1000"),
    ("IN", "EUI48", "00-00-5e-00-53-2a"),
    ("IN", "EUI64", "00-00-5e-ef-10-00-00-2a"),
    ("IN", "URI", '10 1 "http://Example.COM/Path"'),
    ("IN", "CAA", '0 Issue "CA.Example.NET"'),
    ("IN", "AVC", '"App=X"'),
    ("IN", "RESINFO", '"qnamemin" "exterr=15,16,17"'),
    ("IN", "WALLET", '"BTC" "AbC"'),
    ("IN", "NULL", "\\# 3 41425a"),
    ("IN", "TYPE65281", "\\# 4 41425a5b"),
    ("IN", "IPSECKEY", "10 1 2 192.0.2.38 QUJDWg=="),
    ("IN", "IPSECKEY", "10 0 2 . QUJDWg=="),
    ("IN", "AMTRELAY", "10 0 2 2001:db8::15"),
    ("CH", "TXT", '"VERSION.Bind"'),
]


def resolve_names(spells, origin1, mode, origin2):
    """Absolute label tuples of the embedded names as the record means them.

    mode 'abs'/'wire': spelling completed with origin1.
    mode 'rel': the reader relativises to origin1, the digest derelativises with origin2."""
    o1 = ref.name_from_text(origin1)
    out = []
    anyrel = False
    for sp in spells:
        labels = ref.name_from_text(sp, o1)
        if mode == "rel":
            kind, rest = ref.relativize_labels(labels, o1)
            if kind == "rel":
                anyrel = True
                labels = rest + ref.name_from_text(origin2)
        out.append(labels)
    return out, anyrel


def has_upper(labels_list):
    return any(0x41 <= c <= 0x5A for labels in labels_list for l in labels for c in l)


# =========================================================================================
# part 1: canonical RDATA
# =========================================================================================
def check_canon(case):
    """One (specimen, spellings, origin1, mode, origin2) case.  Returns (probs, outcome, key)."""
    spec = NAME_SPECS[NAME_SPEC_INDEX[case["spec"]]]
    label, rdclass, rdtype_t, rdtype, template, fields, flags = spec
    spells = case["spells"]
    o1, mode, o2 = case["o1"], case["mode"], case["o2"]
    probs = []
    names, anyrel = resolve_names(spells, o1, mode, o2)
    listed = rdtype in ref.LOWERCASE_TYPES
    try:
        plain = ref.enc_fields(fields, names, lower=False)
        exp = ref.enc_fields(fields, names, lower=listed)
        alt = ref.enc_fields(fields, names, lower=not listed)
    except ref.RefError:
        return [], "skipped:name-too-long", None
    # the layout-driven canonicaliser and the field encoder are two derivations of one value
    if ref.canonical_rdata(rdtype, plain) != exp:
        raise AssertionError("reference self-check failed for %s" % label)
    cls = dns.rdataclass.from_text(rdclass)
    typ = dns.rdatatype.from_text(rdtype_t)
    opaque = flags.get("generic") and not flags.get("unknown")
    gots = []
    try:
        if mode == "wire" or flags.get("generic"):
            if flags.get("generic") and mode != "wire":
                text = "\\# %d %s" % (len(plain), plain.hex())
                rd = dns.rdata.from_text(cls, typ, text)
            else:
                rd = dns.rdata.from_wire(cls, typ, plain, 0, len(plain))
            gots.append(("digestable()", rd.to_digestable()))
            gots.append(("digestable(origin)", rd.to_digestable(dns.name.from_text(o2))))
        elif mode == "abs":
            rd = dns.rdata.from_text(cls, typ, template.format(*spells),
                                     origin=dns.name.from_text(o1), relativize=False)
            gots.append(("digestable()", rd.to_digestable()))
            gots.append(("digestable(origin)", rd.to_digestable(dns.name.from_text(o2))))
        else:
            rd = dns.rdata.from_text(cls, typ, template.format(*spells),
                                     origin=dns.name.from_text(o1), relativize=True)
            gots.append(("digestable(origin)", rd.to_digestable(dns.name.from_text(o2))))
            if not anyrel:
                gots.append(("digestable()", rd.to_digestable()))
            else:
                try:
                    rd.to_digestable()
                    probs.append(("C15/canonical-rdata/%s/relative-name-digested-without-origin" % label,
                                  "%s %r: to_digestable() of a relative name returned a value" % (label, spells)))
                except dns.name.NeedAbsoluteNameOrOrigin:
                    pass
    except Exception as e:
        return [("C15/canonical-rdata/%s/%s" % (label, crash_sig(e)),
                 "%s %r mode=%s origin=%s: %s: %s" % (label, spells, mode, o1, type(e).__name__, e))], "crash", None
    upper = has_upper(names)
    outcome = None
    for how, got in gots:
        if got == exp:
            o = ("lowered" if listed else "case-kept") if upper else "no-upper-case"
        elif opaque and got == plain:
            # assumption: a listed type the library does not implement is RFC 3597 opaque data
            o = "unimplemented-listed-type-left-opaque"
        elif got == alt:
            o = "BAD"
            cl = "not-lowercased" if listed else "lowercased-unlisted-type"
            probs.append(("C15/canonical-rdata/%s/%s" % (label, cl),
                          "%s %s names=%r origin=%s mode=%s %s: got %s, RFC 4034 s6.2/RFC 6840 s5.1/RFC 3597 s7 form is %s"
                          % (rdclass, rdtype_t, spells, o1, mode, how, got.hex(), exp.hex())))
        else:
            o = "BAD"
            probs.append(("C15/canonical-rdata/%s/mismatch" % label,
                          "%s %s names=%r origin=%s/%s mode=%s %s: got %s expected %s"
                          % (rdclass, rdtype_t, spells, o1, o2, mode, how, got.hex(), exp.hex())))
        outcome = outcome or o
        if o == "BAD":
            outcome = "BAD"
    key = (label, tuple(spells), o1, mode, o2) if (upper or anyrel) else None
    return probs, "%s:%s" % ("listed" if listed else "unlisted", outcome), key


def check_plain(case):
    rdclass, rdtype_t, text = PLAIN_SPECS[case["i"]]
    cls = dns.rdataclass.from_text(rdclass)
    typ = dns.rdatatype.from_text(rdtype_t)
    probs = []
    try:
        rd = dns.rdata.from_text(cls, typ, text, origin=dns.name.from_text("Example.ORG."))
        wire = rd.to_wire()
        got = rd.to_digestable()
        got2 = dns.rdata.from_wire(cls, typ, wire, 0, len(wire)).to_digestable(dns.name.from_text("Example.ORG."))
    except Exception as e:
        return [("C15/canonical-rdata/%s/%s" % (rdtype_t, crash_sig(e)), "%s %s: %s" % (rdtype_t, text, e))], "crash", None
    if got != wire or got2 != wire:
        probs.append(("C15/canonical-rdata/%s/nameless-type-altered" % rdtype_t,
                      "%s %s %s: digestable %s / %s differs from the wire form %s"
                      % (rdclass, rdtype_t, text, got.hex(), got2.hex(), wire.hex())))
    return probs, "plain:" + ("identity" if not probs else "BAD"), (rdclass, rdtype_t, text)


def canon_cases(spec, quick):
    label, rdclass, rdtype_t, rdtype, template, fields, flags = spec
    n = 1 + max(v for k, v in fields if k == "name")
    if n == 1:
        spells = SPELL_T if quick else SPELL_X
    else:
        spells = SPELL_Q if quick else SPELL_T
    for combo in itertools.product(spells, repeat=n):
        if flags.get("generic"):
            for o1 in ORIGINS:
                for mode in ("wire", "generic-text"):
                    yield {"part": "canon", "spec": label, "spells": list(combo), "o1": o1, "mode": mode,
                           "o2": "Example.ORG."}
            continue
        for o1 in ORIGINS:
            if flags.get("abs_only"):
                if any(ref.is_relative_spelling(s) for s in combo):
                    continue
                modes = [("wire", "Example.ORG."), ("abs", "Example.ORG.")]
            else:
                modes = [("wire", "Example.ORG.")] + [("abs", o2) for o2 in ORIGINS2] + \
                        [("rel", o2) for o2 in ORIGINS2 + (["."] if not quick else [])]
            for mode, o2 in modes:
                yield {"part": "canon", "spec": label, "spells": list(combo), "o1": o1, "mode": mode, "o2": o2}


def work_canon(task, col):
    _, what, quick = task
    if what == "plain":
        for i in range(len(PLAIN_SPECS)):
            case = {"part": "plain", "i": i}
            probs, outcome, key = check_plain(case)
            col.count("evaluations")
            col.count("canon_cases")
            col.outcome("canon/" + outcome)
            col.nontrivial(("plain", key))
            for s, w in probs:
                col.violation(s, w, case)
        return
    spec = NAME_SPECS[NAME_SPEC_INDEX[what]]
    for case in canon_cases(spec, quick):
        probs, outcome, key = check_canon(case)
        col.count("evaluations")
        col.count("canon_cases")
        col.outcome("canon/" + outcome)
        if key is not None:
            col.nontrivial(("canon", key))
            if what in ("SOA", "NAPTR", "LP") and case["mode"] == "rel" and "\\" in case["spells"][0]:
                col.sample(case, limit=1)
        for s, w in probs:
            col.violation(s, w, case)


# =========================================================================================
# part 2: RRSIG signing input
# =========================================================================================
ORIGIN = "Example.ORG."


def _rd(typename, template, fields, spells=()):
    return (typename, template, fields, tuple(spells))


RR_A = lambda a: _rd("A", a, [("a4", a)])
RR_MX = lambda p, n: _rd("MX", "%d {0}" % p, [("u16", p), ("name", 0)], [n])
RR_NS = lambda n: _rd("NS", "{0}", [("name", 0)], [n])
RR_TXT = lambda *ss: _rd("TXT", " ".join('"%s"' % s for s in ss), [("str", s.encode()) for s in ss])
RR_GEN = lambda hx: _rd("TYPE65280", "\\# %d %s" % (len(hx) // 2, hx), [("hex", hx)])
RR_SRV = lambda n: _rd("SRV", "0 0 80 {0}", [("u16", 0), ("u16", 0), ("u16", 80), ("name", 0)], [n])
RR_SVCB = lambda n: _rd("SVCB", "1 {0} port=443", [("u16", 1), ("name", 0), ("hex", "0003000201bb")], [n])
RR_NSEC = lambda n: _rd("NSEC", "{0} A NSEC", [("name", 0), ("raw", ref.type_bitmap([1, 47]))], [n])
RR_DNSKEY = lambda fl, b64, hx: _rd("DNSKEY", "%d 3 13 %s" % (fl, b64),
                                   [("u16", fl), ("u8", 3), ("u8", 13), ("hex", hx)])
RR_SOA = lambda m, r: _rd("SOA", "{0} {1} 1 2 3 4 5", [("name", 0), ("name", 1)] + [("u32", i) for i in (1, 2, 3, 4, 5)], [m, r])
RR_CNAME = lambda n: _rd("CNAME", "{0}", [("name", 0)], [n])

TYPE_INT = {"A": 1, "MX": 15, "NS": 2, "TXT": 16, "TYPE65280": 65280, "SRV": 33, "SVCB": 64,
            "NSEC": 47, "DNSKEY": 48, "SOA": 6, "CNAME": 5, "DS": 43, "CAA": 257, "AAAA": 28,
            "RRSIG": 46, "ZONEMD": 63}

# (label, [rdatas], flags)
RRSETS = [
    ("A-unsorted", [RR_A("10.0.0.2"), RR_A("10.0.0.1"), RR_A("9.255.255.255"), RR_A("10.0.0.0")], {}),
    ("A-single", [RR_A("192.0.2.1")], {}),
    # raw octets order 'B' < 'a'; canonical order 'a' < 'b': sorting must follow down-casing
    ("MX-case-order", [RR_MX(10, "B.Example.ORG."), RR_MX(10, "a.Example.ORG."), RR_MX(5, "Zed"),
                       RR_MX(10, "C")], {}),
    # the same RR spelled in two letter cases: one RR (RFC 4034 s6.3 / RFC 2181 s5)
    ("MX-case-dup", [RR_MX(10, "MAIL.Example.ORG."), RR_MX(10, "mail.Example.ORG."), RR_MX(10, "Mail2")], {}),
    ("NS-mixed", [RR_NS("Ns2"), RR_NS("NS1.Other."), RR_NS("@")], {}),
    ("TXT-lengths", [RR_TXT("b"), RR_TXT("a", "c"), RR_TXT("A"), RR_TXT(""), RR_TXT("a")], {}),
    # prefix relations: absence of an octet sorts before a zero octet
    ("GEN-prefix", [RR_GEN("00"), RR_GEN("0000"), RR_GEN(""), RR_GEN("ff"), RR_GEN("00ff"), RR_GEN("01")], {}),
    ("SRV-one", [RR_SRV("Www.Example.ORG.")], {}),
    # SVCB is not in the s6.2 list: two case spellings are two different RRs
    ("SVCB-case", [RR_SVCB("svc.Example.ORG."), RR_SVCB("Svc.Example.ORG.")], {}),
    ("NSEC-one", [RR_NSEC("Next.Example.ORG.")], {}),
    ("DNSKEY-two", [RR_DNSKEY(257, "QUJDWg==", "4142435a"), RR_DNSKEY(256, "AQID", "010203")], {}),
    ("SOA-one", [RR_SOA("Ns.Example.ORG.", "Host\\.Master")], {}),
    ("CNAME-rel", [RR_CNAME("Target.Sub")], {}),
    # the same RR once relative and once absolute: duplicates only after derelativisation.
    # Such a set is not an RRset in the RFC 2181 sense; both the de-duplicated and the
    # verbatim result are accepted (see run(): assumptions).
    ("SRV-reldup", [RR_SRV("Www"), RR_SRV("Www.Example.ORG."), RR_SRV("Aaa")], {"reldup": True}),
]
RRSET_INDEX = {r[0]: i for i, r in enumerate(RRSETS)}

OWNERS_Q = ["Www", "WWW.Example.ORG.", "*", "*.Example.ORG.", "a.b.C", "@", ".", "x.*.Example.ORG.", "*.Sub",
            "\\192\\223\\064\\091Q"]
OWNERS_T = OWNERS_Q + ["Example.ORG.", "*.*", "a.B.c.d.E", "\\065\\090.Example.ORG.", "*.", "Org."]
SIGNERS_Q = ["Example.ORG.", "@", ".", "Sign", "\\192\\223\\064\\091Q.Example.ORG."]
SIGNERS_T = SIGNERS_Q + ["example.org.", "ORG.", "De.Ep"]
RRSIG_ALG, RRSIG_EXP, RRSIG_INC, RRSIG_TAG = 13, T20200101, T20190101, 0xBEEF


def parse_sigdata(data, signer_len):
    """Split signing input into (head18, signer, [(owner, fixed10, rdata)]); None if garbled."""
    try:
        head = data[:18]
        signer, pos = ref.read_name(data, 18)
        rrs = []
        while pos < len(data):
            owner, pos2 = ref.read_name(data, pos)
            fixed = data[pos2:pos2 + 10]
            ln = int.from_bytes(fixed[8:10], "big")
            rd = data[pos2 + 10:pos2 + 10 + ln]
            if len(fixed) != 10 or len(rd) != ln:
                return None
            rrs.append((owner, fixed[:8], rd))
            pos = pos2 + 10 + ln
        return head, signer, rrs
    except ref.RefError:
        return None


def classify_sigdata(got, exp):
    g = parse_sigdata(got, 0)
    e = parse_sigdata(exp, 0)
    if g is None:
        return "garbled"
    if g[0] != e[0]:
        return "rrsig-rdata-fields"
    if g[1] != e[1]:
        return "signer-name"
    go = set(r[0] for r in g[2])
    eo = set(r[0] for r in e[2])
    if go != eo:
        return "owner-name"
    if set(r[1] for r in g[2]) != set(r[1] for r in e[2]):
        return "type-class-ttl"
    if sorted(r[2] for r in g[2]) == sorted(r[2] for r in e[2]):
        return "rr-order"
    if set(r[2] for r in g[2]) == set(r[2] for r in e[2]):
        return "duplicate-rrs"
    return "rdata-form"


def check_rrsig(case):
    label, rdatas, flags = RRSETS[RRSET_INDEX[case["rrset"]]]
    owner_sp, signer_sp, L = case["owner"], case["signer"], case["labels"]
    ottl, form, mode = case["ottl"], case["form"], case["mode"]
    rds_ttl = 300
    probs = []
    O = ref.name_from_text(ORIGIN)
    Oname = dns.name.from_text(ORIGIN)
    typename = rdatas[0][0]
    rdtype = TYPE_INT[typename]
    typ = dns.rdatatype.from_text(typename)
    # ---- reference view (absolute)
    owner_l = ref.name_from_text(owner_sp, O)
    signer_l = ref.name_from_text(signer_sp, O)
    wires = []
    for (_t, template, fields, spells) in rdatas:
        names = [ref.name_from_text(s, O) for s in spells]
        if mode == "rel":
            # relativised then derelativised with the same origin: suffix takes the origin's case
            names = [(lambda kr: kr[1] + O if kr[0] == "rel" else kr[1])(ref.relativize_labels(n, O)) for n in names]
        wires.append(ref.enc_fields(fields, names))
    try:
        exp = ref.rrsig_signing_input(rdtype, RRSIG_ALG, L, ottl, RRSIG_EXP, RRSIG_INC, RRSIG_TAG,
                                      signer_l, owner_l, 1, wires)
        verdict = "value"
    except ref.Invalid:
        exp = None
        verdict = "must-raise"
    wild = ref.is_wild(owner_l)
    lenient = wild and L != len(owner_l) - 1 and verdict == "value"
    # ---- library objects
    try:
        if mode == "rel":
            # reldup sets: the odd-numbered rdatas keep their absolute spelling
            lrds = [dns.rdata.from_text("IN", typ, t.format(*sp), origin=Oname,
                                        relativize=not (flags.get("reldup") and i % 2 == 1))
                    for i, (_t, t, _f, sp) in enumerate(rdatas)]
            oname = dns.name.from_text(owner_sp, None)
            sname = dns.name.from_text(signer_sp, None)
            origin_arg = Oname
        else:
            lrds = [dns.rdata.from_text("IN", typ, t.format(*sp), origin=Oname, relativize=False)
                    for (_t, t, _f, sp) in rdatas]
            oname = dns.name.from_text(owner_sp, Oname)
            sname = dns.name.from_text(signer_sp, Oname)
            origin_arg = None if mode == "abs" else Oname
        if form == "rrset":
            rrset = dns.rrset.from_rdata_list(oname, rds_ttl, lrds)
        else:
            rrset = (oname, dns.rdataset.from_rdata_list(rds_ttl, lrds))
        rrsig = dns.rdtypes.ANY.RRSIG.RRSIG(dns.rdataclass.IN, dns.rdatatype.RRSIG, typ, RRSIG_ALG, L, ottl,
                                            RRSIG_EXP, RRSIG_INC, RRSIG_TAG, sname, b"\x01\x02")
    except Exception as e:
        raise AssertionError("harness: cannot build library objects for %r: %r" % (case, e))
    inputclass = []
    if mode == "rel" and ref.is_relative_spelling(signer_sp) and signer_sp != "@":
        inputclass.append("relative-nonempty-signer")
    if wild:
        inputclass.append("wild-owner")
    ic = ("/" + "+".join(inputclass)) if inputclass else ""
    try:
        got = dns.dnssec._make_rrsig_signature_data(rrset, rrsig, origin_arg)
    except dns.dnssec.ValidationFailure as e:
        if verdict == "must-raise":
            return probs, "rejected:labels>owner", (label, owner_sp, L, "raise")
        if lenient:
            return probs, "rejected:wild-owner-nonstandard-labels", (label, owner_sp, L, "raise")
        probs.append(("C15/rrsig-signing-input/rejected-valid-input" + ic,
                      "rrset=%s owner=%s labels=%d signer=%s mode=%s: ValidationFailure(%s) but RFC 4035 s5.3.2 defines the input"
                      % (label, owner_sp, L, signer_sp, mode, e)))
        return probs, "BAD", None
    except Exception as e:
        probs.append(("C15/rrsig-signing-input/" + crash_sig(e) + ic,
                      "rrset=%s owner=%s labels=%d signer=%s mode=%s form=%s: %s: %s"
                      % (label, owner_sp, L, signer_sp, mode, form, type(e).__name__, e)))
        return probs, "crash", None
    if verdict == "must-raise":
        probs.append(("C15/rrsig-signing-input/accepted-labels-gt-owner",
                      "rrset=%s owner=%s (%d labels) RRSIG labels=%d: produced signing input instead of failing"
                      % (label, owner_sp, len(owner_l), L)))
        return probs, "BAD", None
    if got == exp:
        oc = "equal:" + ("wildcard-reduced" if L < len(owner_l) else "full-owner")
        return probs, oc, (label, owner_sp, signer_sp, L, ottl, mode)
    if flags.get("reldup"):
        head = exp[:len(exp) - len(parse_and_tail(exp))]
        _h, _s, exprrs = parse_sigdata(exp, 0)
        oname_w = ref.name_wire(exprrs[0][0])
        tail = b""
        for rd in sorted(ref.canonical_rdata(rdtype, w) for w in wires):
            tail += oname_w + exprrs[0][1] + len(rd).to_bytes(2, "big") + rd
        if got == head + tail:
            return probs, "equal-but-duplicates-after-derelativisation-kept", (label, owner_sp, L, "dup")
    cl = classify_sigdata(got, exp)
    if cl == "signer-name":
        ic = "/relative-nonempty-signer" if "relative-nonempty-signer" in inputclass else ""
    probs.append(("C15/rrsig-signing-input/wrong-data/" + cl + ic,
                  "rrset=%s owner=%s labels=%d signer=%s origTTL=%d form=%s mode=%s:\n got      %s\n expected %s"
                  % (label, owner_sp, L, signer_sp, ottl, form, mode, got.hex(), exp.hex())))
    return probs, "BAD", None


def parse_and_tail(data):
    """The RR part of a signing input (everything after RRSIG_RDATA)."""
    _signer, pos = ref.read_name(data, 18)
    return data[pos:]


def rrsig_cases(label, owner_sp, quick):
    O = ref.name_from_text(ORIGIN)
    count = len(ref.name_from_text(owner_sp, O))
    signers = SIGNERS_Q if quick else SIGNERS_T
    for L in list(range(0, count + 2)) + ([255] if not quick else []):
        for signer_sp in signers:
            for ottl in (300, 86400):
                for form in ("rrset", "tuple"):
                    for mode in ("rel", "abs", "abs+origin"):
                        yield {"part": "rrsig", "rrset": label, "owner": owner_sp, "signer": signer_sp,
                               "labels": L, "ottl": ottl, "form": form, "mode": mode}


def work_rrsig(task, col):
    _, label, owner_sp, quick = task
    for case in rrsig_cases(label, owner_sp, quick):
        probs, outcome, key = check_rrsig(case)
        col.count("evaluations")
        col.count("rrsig_cases")
        col.outcome("rrsig/" + outcome)
        if key is not None:
            col.nontrivial(("rrsig", key))
        if outcome.startswith("equal:wild"):
            col.sample(case, limit=1)
        for s, w in probs:
            col.violation(s, w, case)


# =========================================================================================
# part 2b: canonical RR order through the rdata comparison operators
# =========================================================================================
def check_order(case):
    """sorted() of the rdatas of an RRset (Rdata._cmp: "the DNSSEC ordering") for one input
    permutation must be the RFC 4034 s6.3 order of their canonical forms."""
    label, rdatas, flags = RRSETS[RRSET_INDEX[case["rrset"]]]
    perm = case["perm"]
    O = ref.name_from_text(ORIGIN)
    Oname = dns.name.from_text(ORIGIN)
    typename = rdatas[0][0]
    rdtype = TYPE_INT[typename]
    typ = dns.rdatatype.from_text(typename)
    exp = sorted(ref.canonical_rdata(rdtype, ref.enc_fields(f, [ref.name_from_text(x, O) for x in sp]))
                 for (_t, _tmpl, f, sp) in rdatas)
    lrds = [dns.rdata.from_text("IN", typ, rdatas[i][1].format(*rdatas[i][3]), origin=Oname, relativize=False)
            for i in perm]
    try:
        got = [rd.to_digestable() for rd in sorted(lrds)]
        rds = dns.rdataset.from_rdata_list(300, lrds)
        got_set = sorted(rd.to_digestable() for rd in rds)
    except Exception as e:
        return [("C15/canonical-order/" + crash_sig(e), "%s perm %r: %s" % (label, perm, e))], "crash", None
    probs = []
    if got != exp:
        probs.append(("C15/canonical-order/sorted-rdatas-not-in-s6.3-order",
                      "%s input order %r: sorted() gives %s, RFC 4034 s6.3 order is %s"
                      % (label, perm, [g.hex() for g in got], [e.hex() for e in exp])))
    if got_set != sorted(set(exp)):
        probs.append(("C15/canonical-order/rdataset-duplicate-handling",
                      "%s input order %r: Rdataset holds %d RRs, %d distinct canonical RRs expected"
                      % (label, perm, len(got_set), len(set(exp)))))
    return probs, "order:" + ("ok" if not probs else "BAD") + (":dups" if len(set(exp)) < len(exp) else ""), (label, tuple(perm))


def work_order(task, col):
    _, label, quick = task
    n = len(RRSETS[RRSET_INDEX[label]][1])
    for perm in itertools.permutations(range(n)):
        case = {"part": "order", "rrset": label, "perm": list(perm)}
        probs, outcome, key = check_order(case)
        col.count("evaluations")
        col.count("order_cases")
        col.outcome("order/" + outcome)
        if n > 1:
            col.nontrivial(("order", key))
        for s, w in probs:
            col.violation(s, w, case)


# =========================================================================================
# part 3: key tag, DS, CDS
# =========================================================================================
def key_bytes(length, pattern):
    if pattern == "ff":
        return b"\xff" * length
    if pattern == "inc":
        return bytes((0x41 + 7 * i) & 0xFF for i in range(length))
    if pattern == "zero":
        return b"\x00" * length
    if pattern == "hi":
        return bytes((0xF0 + i) & 0xFF for i in range(length))
    raise AssertionError(pattern)


DS_OWNERS = ["Example.ORG.", "example.org.", ".", "A.b.C.Example.", "Sub", "\\065\\091.Example.", "\\192\\223\\064Z.Example."]
DS_DIGESTS = [(1, "SHA1"), (2, "SHA256"), (4, "SHA384")]


def check_ds(case):
    flags, proto, alg, klen, pat = case["flags"], case["proto"], case["alg"], case["klen"], case["pat"]
    owner_sp, dt, path, keytype = case["owner"], case["dt"], case["path"], case["keytype"]
    probs = []
    O = ref.name_from_text(ORIGIN)
    key = key_bytes(klen, pat)
    krdata = bytes([flags >> 8, flags & 0xFF, proto, alg]) + key
    owner_l = ref.name_from_text(owner_sp, O)
    relative = ref.is_relative_spelling(owner_sp)
    ktype = dns.rdatatype.from_text(keytype)
    lkey = dns.rdata.from_wire(dns.rdataclass.IN, ktype, krdata, 0, len(krdata))
    # --- key tag
    tag_defined = not (alg == 1 and klen < 3)
    dtname = dict(DS_DIGESTS)[dt]
    if path == "key_id":
        try:
            got = dns.dnssec.key_id(lkey)
        except Exception as e:
            return [("C15/key-tag/" + crash_sig(e), "DNSKEY %s: %s" % (krdata.hex(), e))], "crash", None
        if not tag_defined:
            return [], "keytag:alg1-short-key-undefined", None
        exp = ref.key_tag(krdata)
        if got != exp:
            cl = "alg1" if alg == 1 else ("odd-length" if len(krdata) % 2 else "even-length")
            probs.append(("C15/key-tag/wrong/" + cl, "DNSKEY rdata %s: key_id %d, RFC 4034 App. B gives %d"
                          % (krdata.hex(), got, exp)))
        return probs, "keytag:" + ("ok-alg1" if alg == 1 else "ok-carry" if sum(
            (c << 8 if i % 2 == 0 else c) for i, c in enumerate(krdata)) > 0xFFFF else "ok"), ("tag", krdata)
    if path == "to_cdnskey_rdataset":
        # key-free conversion DNSKEY RRset -> CDNSKEY RRset (RFC 7344 s3.2: same RDATA, type 60)
        try:
            res = dns.dnssec.dnskey_rdataset_to_cdnskey_rdataset(dns.rdataset.from_rdata(300, lkey))
        except Exception as e:
            return [("C15/ds/to_cdnskey_rdataset/" + crash_sig(e), "key %s: %s" % (krdata.hex(), e))], "crash", None
        for r in res:
            if r.to_wire() != krdata:
                probs.append(("C15/ds/to_cdnskey_rdataset/rdata-changed", "%s -> %s" % (krdata.hex(), r.to_wire().hex())))
            if int(res.rdtype) != 60 or int(r.rdtype) != 60:
                probs.append(("C15/ds/to_cdnskey_rdataset/result-rdtype-%s-instead-of-CDNSKEY" % dns.rdatatype.to_text(res.rdtype),
                              "dnskey_rdataset_to_cdnskey_rdataset returned an rdataset of type %s"
                              % dns.rdatatype.to_text(res.rdtype)))
        if len(res) != 1 or res.ttl != 300:
            probs.append(("C15/ds/to_cdnskey_rdataset/shape", "len %d ttl %d" % (len(res), res.ttl)))
        return probs, "ds:ok:to_cdnskey_rdataset" if not probs else "BAD", ("cdnskey", krdata)
    if not tag_defined:
        return [], "ds:alg1-short-key-undefined", None
    exp = ref.ds_rdata(owner_l, krdata, dt)
    Oname = dns.name.from_text(ORIGIN)
    if relative:
        name_arg = owner_sp          # relative owner: only as text + origin
        origin_arg = Oname
    else:
        name_arg = dns.name.from_text(owner_sp) if case.get("nameobj", True) else owner_sp
        origin_arg = None
    algarg = {0: dtname, 1: dtname.lower(), 2: dt}[case.get("algform", 0)]
    expect_denied = False
    try:
        if path == "make_ds":
            got = dns.dnssec.make_ds(name_arg, lkey, algarg, origin=origin_arg)
            expect_denied = (dt == 1)       # RFC 8624 s3.3: SHA-1 MUST NOT be used to create DS
            gots = [(got.rdtype, got)]
        elif path == "make_ds_validating":
            got = dns.dnssec.make_ds(name_arg, lkey, algarg, origin=origin_arg, validating=True)
            gots = [(got.rdtype, got)]
        elif path == "make_ds_allow_all":
            got = dns.dnssec.make_ds(name_arg, lkey, algarg, origin=origin_arg, policy=dns.dnssec.allow_all_policy)
            gots = [(got.rdtype, got)]
        elif path == "make_cds":
            expect_denied = (dt == 1)
            got = dns.dnssec.make_cds(name_arg, lkey, algarg, origin=origin_arg)
            gots = [(got.rdtype, got)]
        elif path == "to_cds_rdataset":
            expect_denied = (dt == 1)
            rds = dns.rdataset.from_rdata(300, lkey)
            res = dns.dnssec.dnskey_rdataset_to_cds_rdataset(name_arg, rds, algarg, origin=origin_arg)
            gots = [(res.rdtype, r) for r in res]
            if res.ttl != 300 or len(res) != 1:
                probs.append(("C15/ds/to_cds_rdataset/shape", "ttl %d len %d" % (res.ttl, len(res))))
        elif path == "make_ds_rdataset":
            expect_denied = (dt == 1)
            rds = dns.rdataset.from_rdata(300, lkey)
            nm = dns.name.from_text(owner_sp, Oname)
            res = dns.dnssec.make_ds_rdataset((nm, rds), {algarg}, origin=origin_arg)
            gots = [(res.rdtype, r) for r in res]
            if res.ttl != 300 or len(res) != 1:
                probs.append(("C15/ds/make_ds_rdataset/shape", "ttl %d len %d" % (res.ttl, len(res))))
        else:
            raise AssertionError(path)
    except dns.dnssec.DeniedByPolicy:
        if expect_denied or (dt == 1 and path in ("make_ds", "make_cds", "to_cds_rdataset", "make_ds_rdataset")):
            return probs, "ds:sha1-creation-denied-by-policy", ("denied", path)
        probs.append(("C15/ds/%s/denied-unexpectedly" % path, "digest type %d denied" % dt))
        return probs, "BAD", None
    except Exception as e:
        return [("C15/ds/%s/%s" % (path, crash_sig(e)), "key %s owner %s: %s: %s" % (krdata.hex(), owner_sp, type(e).__name__, e))], "crash", None
    if expect_denied:
        probs.append(("C15/ds/%s/sha1-created-under-default-policy" % path, "SHA-1 DS created by default policy"))
    want_type = 59 if path in ("make_cds", "to_cds_rdataset") else 43
    for rdtype, r in gots:
        w = r.to_wire()
        if w != exp:
            gt = int.from_bytes(w[:2], "big")
            et = int.from_bytes(exp[:2], "big")
            cl = "key-tag" if (gt != et and w[2:] == exp[2:]) else "digest" if w[:4] == exp[:4] else "fields"
            probs.append(("C15/ds/%s/wrong-%s" % (path, cl),
                          "owner=%s %s rdata=%s digest type %d: got %s expected %s"
                          % (owner_sp, keytype, krdata.hex(), dt, w.hex(), exp.hex())))
        if int(rdtype) != want_type or int(r.rdtype) != want_type:
            probs.append(("C15/ds/%s/result-rdtype-%s-instead-of-%s" % (
                path, dns.rdatatype.to_text(rdtype), dns.rdatatype.to_text(want_type)),
                "%s(%s ...) returned records of type %s" % (path, keytype, dns.rdatatype.to_text(rdtype))))
    return probs, "ds:ok:%s" % path, ("ds", krdata, owner_sp, dt, path)


def ds_cases(quick, shard):
    lens = [0, 1, 2, 3, 4, 5, 6, 7, 8, 9, 64, 65] if quick else list(range(0, 13)) + [63, 64, 65, 66, 255, 256, 257]
    pats = ["ff", "inc"] if quick else ["ff", "inc", "hi"]
    algs = [1, 8, 13, 15]
    flagsv = [256, 257] if quick else [256, 257, 0, 0xFFFF]
    protos = [3] if quick else [3, 255]
    paths = ["make_ds", "make_ds_validating", "make_ds_allow_all", "make_cds", "to_cds_rdataset", "make_ds_rdataset"]
    i = 0
    for flags, proto, alg, klen, pat in itertools.product(flagsv, protos, algs, lens, pats):
        i += 1
        if i % shard[1] != shard[0]:
            continue
        base = {"part": "ds", "flags": flags, "proto": proto, "alg": alg, "klen": klen, "pat": pat}
        for keytype in ("DNSKEY", "CDNSKEY"):
            yield dict(base, owner=".", dt=2, path="key_id", keytype=keytype)
        yield dict(base, owner=".", dt=2, path="to_cdnskey_rdataset", keytype="DNSKEY")
        for owner in DS_OWNERS:
            for dt, _ in DS_DIGESTS:
                for path in paths:
                    for keytype in (("DNSKEY", "CDNSKEY") if not quick or path in ("make_ds_validating", "make_ds_rdataset") else ("DNSKEY",)):
                        algform = (klen + dt) % 3
                        yield dict(base, owner=owner, dt=dt, path=path, keytype=keytype, algform=algform,
                                   nameobj=(klen % 2 == 0))


def work_ds(task, col):
    _, shard, quick = task
    for case in ds_cases(quick, shard):
        probs, outcome, key = check_ds(case)
        col.count("evaluations")
        col.count("ds_cases")
        col.outcome("ds/" + outcome)
        if key is not None:
            col.nontrivial(key)
            if case["klen"] == 65 and case["path"] == "make_ds_validating" and case["owner"] == "Sub":
                col.sample(case, limit=1)
        for s, w in probs:
            col.violation(s, w, case)


# =========================================================================================
# part 4: NSEC3 hash
# =========================================================================================
N3_NAMES = ["example", "Example.", "a.EXAMPLE.", ".", "*.w.example.", "\\065\\090\\091.example.",
            "x.y.w.example", "2t7b4g4vsa5smi47k61mv5bv1a22bojr.example.", "\\192\\223\\064\\091Q.Example."]
N3_SALTS = [("none", None), ("empty-bytes", b""), ("empty-str", ""), ("hex-str", "aabbccdd"),
            ("HEX-str", "AABBCCDD"), ("bytes1", b"\x00"), ("bytes4", b"\xaa\xbb\xcc\xdd"),
            ("bytes255", bytes(range(255)))]


def check_nsec3(case):
    name_sp, salt_label, it, algform = case["name"], case["salt"], case["iterations"], case["alg"]
    salt = dict(N3_SALTS)[salt_label]
    probs = []
    labels = ref.name_from_text(name_sp, ())
    rsalt = b"" if salt is None else bytes.fromhex(salt) if isinstance(salt, str) else salt
    exp = ref.nsec3_hash(labels, rsalt, it)
    name_arg = name_sp if case["namestr"] else dns.name.from_text(name_sp)
    algarg = {0: 1, 1: "SHA1", 2: "sha1"}[algform]
    try:
        got = dns.dnssec.nsec3_hash(name_arg, salt, it, algarg)
    except Exception as e:
        return [("C15/nsec3-hash/" + crash_sig(e), "%s salt=%s it=%d: %s" % (name_sp, salt_label, it, e))], "crash", None
    if not isinstance(got, str) or got.upper() != exp:
        cl = "iterations" if isinstance(got, str) and got.upper() in (
            ref.nsec3_hash(labels, rsalt, it + 1), ref.nsec3_hash(labels, rsalt, max(0, it - 1))) else "value"
        probs.append(("C15/nsec3-hash/wrong-" + cl,
                      "nsec3_hash(%r, salt=%s, iterations=%d): got %s, RFC 5155 s5 gives %s"
                      % (name_sp, salt_label, it, got, exp)))
    return probs, "nsec3:" + ("ok" if not probs else "BAD") + (":it0" if it == 0 else ""), (name_sp, salt_label, it)


def work_nsec3(task, col):
    _, its, quick = task
    for name_sp in N3_NAMES:
        for salt_label, _s in N3_SALTS:
            for it in its:
                for algform in (0, 1, 2):
                    for namestr in (False, True):
                        case = {"part": "nsec3", "name": name_sp, "salt": salt_label, "iterations": it,
                                "alg": algform, "namestr": namestr}
                        probs, outcome, key = check_nsec3(case)
                        col.count("evaluations")
                        col.count("nsec3_cases")
                        col.outcome("nsec3/" + outcome)
                        col.nontrivial(("n3", key))
                        for s, w in probs:
                            col.violation(s, w, case)
    # unsupported algorithm must be refused
    for alg in (0, 2, "SHA256"):
        try:
            dns.dnssec.nsec3_hash("example.", None, 0, alg)
            col.violation("C15/nsec3-hash/unknown-algorithm-accepted", "algorithm %r accepted" % (alg,),
                          {"part": "nsec3alg", "alg": alg})
            col.outcome("nsec3/BAD")
        except ValueError:
            col.outcome("nsec3/unknown-algorithm-refused")
        col.count("evaluations")


# =========================================================================================
# zone descriptions shared by parts 5 and 6
# =========================================================================================
def zrr(owner, ttl, rd):
    return (owner, ttl, rd)


def RR_DS():
    return _rd("DS", "12345 13 2 " + "ab" * 32, [("u16", 12345), ("u8", 13), ("u8", 2), ("hex", "ab" * 32)])


def RR_AAAA():
    return _rd("AAAA", "2001:db8::1", [("hex", "20010db8000000000000000000000001")])


def RR_CAA():
    return _rd("CAA", '0 issue "ca.example"', [("u8", 0), ("str", b"issue"), ("raw", b"ca.example")])


def RR_RRSIG(covered, covered_int, signer="Example.ORG."):
    return _rd("RRSIG", covered + " 13 2 300 20200101000000 20190101000000 4660 {0} AQID",
               [("u16", covered_int), ("u8", 13), ("u8", 2), ("u32", 300), ("u32", T20200101),
                ("u32", T20190101), ("u16", 4660), ("name", 0), ("hex", "010203")], [signer])


def RR_ZONEMD(serial, scheme, alg, hexdigest):
    return _rd("ZONEMD", "%d %d %d %s" % (serial, scheme, alg, hexdigest),
               [("u32", serial), ("u8", scheme), ("u8", alg), ("hex", hexdigest)])


def zone_text(rrs):
    lines = []
    for owner, ttl, (typename, template, _f, spells) in rrs:
        lines.append("%s %d IN %s %s" % (owner, ttl, typename, template.format(*spells)))
    return "\n".join(lines) + "\n"


def zone_ref_rrs(rrs, relativized):
    """[(owner labels, rdtype, 1, ttl, plain wire)] as the zone means them."""
    O = ref.name_from_text(ORIGIN)
    out = []
    for owner, ttl, (typename, _template, fields, spells) in rrs:
        names = [ref.name_from_text(s, O) for s in spells]
        if relativized:
            names = [(lambda kr: kr[1] + O if kr[0] == "rel" else kr[1])(ref.relativize_labels(n, O)) for n in names]
        out.append((ref.name_from_text(owner, O), TYPE_INT[typename], 1, ttl, ref.enc_fields(fields, names)))
    return out


ZONE_CLASSES = [("plain", dns.zone.Zone), ("versioned", dns.versioned.Zone), ("btree", dns.btreezone.Zone)]


def load_zone(rrs, relativize, zcls):
    return dns.zone.from_text(zone_text(rrs), origin=ORIGIN, relativize=relativize,
                              zone_factory=dict(ZONE_CLASSES)[zcls], check_origin=True)


# =========================================================================================
# part 5: ZONEMD
# =========================================================================================
ZM_BASE = [
    zrr("@", 3600, RR_SOA("Ns1", "Host\\.Master.Example.ORG.")),
    zrr("@", 3600, RR_NS("Ns1")),
    zrr("@", 3600, RR_NS("ns2.Other.NET.")),
]
ZM_OPTIONS = [
    ("apex-zonemd", [zrr("@", 3600, RR_ZONEMD(1, 1, 1, "00" * 48))]),
    ("apex-rrsig-zonemd", [zrr("@", 3600, RR_RRSIG("ZONEMD", 63))]),
    # the RRSIG rdatasets of one owner are listed in descending order of the covered type: the digest
    # must order them by covered type (RFC 4034 s6.3 order of the RRSIG RRset), not by load order
    ("apex-rrsig-soa+dnskey", [zrr("@", 3600, RR_RRSIG("DNSKEY", 48, "example.ORG.")),
                               zrr("@", 3600, RR_RRSIG("SOA", 6, "EXAMPLE.org.")),
                               zrr("@", 3600, RR_DNSKEY(257, "QUJDWg==", "4142435a"))]),
    ("www-a", [zrr("Www", 300, RR_A("10.0.0.2")), zrr("WWW", 300, RR_A("10.0.0.1"))]),
    ("mail-mx", [zrr("mail", 600, RR_MX(10, "B.Example.ORG.")), zrr("mail", 600, RR_MX(10, "a")),
                 zrr("mail", 600, RR_MX(10, "C.Other."))]),
    ("nonapex-zonemd", [zrr("zm.sub", 60, RR_ZONEMD(7, 1, 1, "33" * 48))]),
    ("upper-owner", [zrr("UPPER", 300, RR_TXT("Text")), zrr("a.UPPER", 300, RR_SVCB("Svc.Example.ORG.")),
                     zrr("\\192\\223\\064\\091Q", 300, RR_TXT("high octets are not letters"))]),
    ("delegation+glue", [zrr("sub", 86400, RR_NS("Ns.Sub")), zrr("ns.sub", 86400, RR_A("192.0.2.53"))]),
    ("apex-zonemd-2", [zrr("@", 3600, RR_ZONEMD(1, 1, 2, "11" * 64)), zrr("@", 3600, RR_ZONEMD(1, 240, 241, "22" * 12))]),
    ("nonapex-rrsig-zonemd", [zrr("zm.sub", 60, RR_RRSIG("ZONEMD", 63))]),
    ("wild", [zrr("*.w", 300, RR_TXT("wild")), zrr("Z", 1, RR_GEN("00")), zrr("Z", 1, RR_GEN(""))]),
    ("nsec", [zrr("@", 5, RR_NSEC("Mail.Example.ORG.")), zrr("@", 5, RR_RRSIG("NSEC", 47))]),
]


def zm_rrs(bits):
    rrs = list(ZM_BASE)
    for i, (_l, extra) in enumerate(ZM_OPTIONS):
        if bits >> i & 1:
            rrs += extra
    return rrs


def check_zonemd(case):
    bits, rel, zcls, alg = case["bits"], case["rel"], case["zcls"], case["alg"]
    probs = []
    rrs = zm_rrs(bits)
    O = ref.name_from_text(ORIGIN)
    exp = ref.zonemd_simple_digest(O, zone_ref_rrs(rrs, rel), alg)
    tag = "rel" if rel else "abs"
    try:
        z = load_zone(rrs, rel, zcls)
        got = z.compute_digest(alg)
    except Exception as e:
        return [("C15/zonemd/compute_digest/" + crash_sig(e), "zone bits=%d %s %s: %s: %s" % (bits, tag, zcls, type(e).__name__, e))], "crash", None
    opts = [ZM_OPTIONS[i][0] for i in range(len(ZM_OPTIONS)) if bits >> i & 1]
    if (got.serial, int(got.scheme), int(got.hash_algorithm), int(got.rdtype)) != (1, 1, alg, 63):
        probs.append(("C15/zonemd/compute_digest/fields", "serial/scheme/alg/type = %r" % (
            (got.serial, int(got.scheme), int(got.hash_algorithm), int(got.rdtype)),)))
    if got.digest != exp:
        # which rule? recompute reference variants to name the failure class
        cl = "value"
        refrrs = zone_ref_rrs(rrs, rel)
        if got.digest == ref.zonemd_simple_digest((b"\x00nonexistent",), refrrs, alg):
            cl = "apex-zonemd-or-its-rrsig-included"
        probs.append(("C15/zonemd/compute_digest/wrong-" + cl,
                      "zone with %s (%s, %s) alg %d: digest %s, RFC 8976 s3 SIMPLE gives %s"
                      % (opts, tag, zcls, alg, got.digest.hex(), exp.hex())))
    outcome = "zonemd:" + ("ok" if not probs else "BAD")
    # verify_digest: a ZONEMD carrying the reference digest must verify; a wrong one must not
    if case.get("verify"):
        ZM = dns.rdtypes.ANY.ZONEMD
        good = ZM.ZONEMD(dns.rdataclass.IN, dns.rdatatype.ZONEMD, 1, 1, alg, exp)
        badd = bytes([exp[0] ^ 1]) + exp[1:]
        bad = ZM.ZONEMD(dns.rdataclass.IN, dns.rdatatype.ZONEMD, 1, 1, alg, badd)
        try:
            z.verify_digest(good)
        except dns.zone.DigestVerificationFailure:
            probs.append(("C15/zonemd/verify_digest/rejects-correct-digest", "zone with %s (%s, %s)" % (opts, tag, zcls)))
        except Exception as e:
            probs.append(("C15/zonemd/verify_digest/" + crash_sig(e), str(e)))
        try:
            z.verify_digest(bad)
            probs.append(("C15/zonemd/verify_digest/accepts-wrong-digest", "zone with %s (%s, %s)" % (opts, tag, zcls)))
        except dns.zone.DigestVerificationFailure:
            pass
        except Exception as e:
            probs.append(("C15/zonemd/verify_digest/" + crash_sig(e), str(e)))
        # RFC 8976 s4 step 4c (serial must match the SOA) is verification protocol, not digest
        # computation: observed and reported as an outcome only
        try:
            z.verify_digest(ZM.ZONEMD(dns.rdataclass.IN, dns.rdatatype.ZONEMD, 2, 1, alg, exp))
            outcome += "+serial-mismatch-accepted"
        except dns.zone.DigestVerificationFailure:
            outcome += "+serial-mismatch-rejected"
        # in-zone ZONEMD: replace placeholder(s) by [wrong, right]; the apex ZONEMD RRset is not
        # part of the digest, so the zone must verify from its own records
        try:
            with z.writer() as txn:
                txn.replace(z.origin if not rel else dns.name.empty,
                            dns.rdataset.from_rdata(3600, bad, good))
            z.verify_digest()
            outcome += "+verified-in-zone"
        except dns.zone.DigestVerificationFailure:
            probs.append(("C15/zonemd/verify_digest/in-zone-correct-digest-rejected", "zone with %s (%s, %s)" % (opts, tag, zcls)))
        except Exception as e:
            probs.append(("C15/zonemd/verify_digest/in-zone/" + crash_sig(e), "%s: %s" % (type(e).__name__, e)))
    return probs, outcome if not probs else "BAD", (bits, rel, alg)


def work_zonemd(task, col):
    _, bits_list, quick = task
    for bits in bits_list:
        for rel in (True, False):
            for zcls, _c in ZONE_CLASSES:
                for alg in (1, 2):
                    case = {"part": "zonemd", "bits": bits, "rel": rel, "zcls": zcls, "alg": alg,
                            "verify": alg == 1}
                    probs, outcome, key = check_zonemd(case)
                    col.count("evaluations")
                    col.count("zonemd_cases")
                    col.outcome("zonemd/" + outcome)
                    col.nontrivial(("zm", key))
                    if bits == 0b01111101 and alg == 1:
                        col.sample({"part": "zonemd", "zone": zone_text(zm_rrs(bits)), "rel": rel, "zcls": zcls,
                                    "outcome": outcome}, limit=1)
                    for s, w in probs:
                        col.violation(s, w, case)


# =========================================================================================
# part 6: NSEC chain via sign_zone
# =========================================================================================
NS_BASE = [
    zrr("@", 3600, RR_SOA("Ns1", "Host\\.Master")),      # minimum = 5
    zrr("@", 3600, RR_NS("Ns1")),
]
NS_OPTIONS = [
    ("a/A", [zrr("a", 300, RR_A("10.0.0.1"))]),
    ("b.a/A", [zrr("b.a", 300, RR_A("10.0.0.2"))]),
    # (CAA = type 257: a second bitmap window, shorter than the first)
    ("*.w/TXT+CAA", [zrr("*.w", 300, RR_TXT("wild")), zrr("*.w", 300, RR_CAA())]),
    ("sub/NS", [zrr("sub", 300, RR_NS("Ns.Sub")), zrr("sub", 300, RR_NS("x.Sub"))]),
    ("sub/DS", [zrr("sub", 300, RR_DS())]),
    ("sub/A(glue at cut)", [zrr("sub", 300, RR_A("10.0.0.9"))]),
    ("x.sub/A(glue)", [zrr("x.sub", 300, RR_A("10.0.0.3"))]),
    ("d.sub/NS(nested)", [zrr("d.sub", 300, RR_NS("x.Sub"))]),
    ("Z/A+RRSIG(A)", [zrr("Z", 300, RR_A("10.0.0.4")), zrr("Z", 300, RR_RRSIG("A", 1))]),
    ("tub/NS", [zrr("tub", 300, RR_NS("Ns.Elsewhere."))]),
    # thorough only below
    ("b.a/CAA", [zrr("b.a", 300, RR_CAA())]),
    ("sub/AAAA(glue at cut)", [zrr("sub", 300, RR_AAAA())]),
    ("e.d.sub/A", [zrr("e.d.sub", 300, RR_A("10.0.0.5"))]),
    ("@/MX", [zrr("@", 300, RR_MX(10, "Mail"))]),
    ("sub/TXT(at cut)", [zrr("sub", 300, RR_TXT("occluded"))]),
    ("*.sub/A", [zrr("*.sub", 300, RR_A("10.0.0.6"))]),
    ("subz/A", [zrr("subz", 300, RR_A("10.0.0.7")), zrr("\\000.sub", 300, RR_A("10.0.0.8"))]),
    ("a/RRSIG(A)+\\192/TXT", [zrr("a", 300, RR_RRSIG("A", 1)), zrr("\\192\\223", 300, RR_TXT("hi"))]),
]
NS_NQUICK = 10


def ns_rrs(bits):
    rrs = list(NS_BASE)
    for i, (_l, extra) in enumerate(NS_OPTIONS):
        if bits >> i & 1:
            rrs += extra
    return rrs


def check_nsec(case):
    bits, rel, zcls = case["bits"], case["rel"], case["zcls"]
    probs = []
    rrs = ns_rrs(bits)
    O = ref.name_from_text(ORIGIN)
    Oname = dns.name.from_text(ORIGIN)
    refrrs = zone_ref_rrs(rrs, rel)
    chain, signed = ref.nsec_chain(O, [(o, t) for o, t, _c, _ttl, _w in refrrs])
    opts = [NS_OPTIONS[i][0] for i in range(len(NS_OPTIONS)) if bits >> i & 1]
    tag = "%s,%s" % ("relativized" if rel else "absolute", zcls)
    desc = "zone{apex SOA NS%s} (%s)" % ("".join(", " + o for o in opts), tag)
    calls = []

    def recorder(txn, rrset):
        calls.append((ref.lower_name(lib_labels(rrset.name, Oname)), int(rrset.rdtype), rrset.ttl,
                      sorted(rd.to_wire(origin=Oname) for rd in rrset)))

    try:
        z = load_zone(rrs, rel, zcls)
        before = snapshot_zone(z, Oname)
        dns.dnssec.sign_zone(z, rrset_signer=recorder, add_dnskey=False)
        after = snapshot_zone(z, Oname)
    except Exception as e:
        return [("C15/nsec-chain/" + crash_sig(e), "%s: %s: %s" % (desc, type(e).__name__, e))], "crash", None
    apex_only = len(chain) == 1
    inputclass = ("/apex-only-%s-zone" % ("relativized" if rel else "absolute")) if apex_only else ""
    # ---- NSEC records in the zone
    got_nsec = {}
    for (owner, rdtype), (ttl, wires) in after.items():
        if rdtype == 47:
            got_nsec[owner] = (ttl, wires)
    exp_owners = {ref.lower_name(o): (o, n, ts) for o, n, ts in chain}
    cuts = set(k for k, (o, n, ts) in exp_owners.items() if 2 in ts and k != ref.lower_name(O))
    for owner in sorted(set(got_nsec) - set(exp_owners), key=ref.name_order_key):
        below = any(ref.is_strictly_below(owner, c) for c in cuts)
        probs.append(("C15/nsec-chain/extra-nsec/" + ("below-cut" if below else "other"),
                      "%s: NSEC at %s which is not an authoritative name" % (desc, show(owner))))
    for owner in sorted(set(exp_owners) - set(got_nsec), key=ref.name_order_key):
        probs.append(("C15/nsec-chain/missing-nsec" + inputclass,
                      "%s: no NSEC at %s (RFC 4035 s2.3: every name with authoritative data or a delegation NS RRset has one)"
                      % (desc, show(owner))))
    for owner, (ttl, wires) in sorted(got_nsec.items()):
        if owner not in exp_owners:
            continue
        _o, nxt, types = exp_owners[owner]
        if len(wires) != 1:
            probs.append(("C15/nsec-chain/multiple-nsec-rrs", "%s: %d NSEC RRs at %s" % (desc, len(wires), show(owner))))
            continue
        try:
            gnext, pos = ref.read_name(wires[0], 0)
            gtypes = ref.parse_type_bitmap(wires[0][pos:])
        except ref.RefError as e:
            probs.append(("C15/nsec-chain/malformed-nsec-rdata", "%s at %s: %s" % (desc, show(owner), e)))
            continue
        if not ref.same_name(gnext, nxt):
            probs.append(("C15/nsec-chain/wrong-next", "%s: NSEC at %s points to %s, canonical successor is %s"
                          % (desc, show(owner), show(gnext), show(nxt))))
        if wires[0][pos:] != ref.type_bitmap(gtypes):
            probs.append(("C15/nsec-chain/bitmap-encoding", "%s at %s: non-minimal bitmap %s" % (desc, show(owner), wires[0][pos:].hex())))
        if gtypes != types:
            present = set(t for (o, t) in before if o == owner)
            extra = gtypes - types
            if owner in cuts and extra and not (types - gtypes) and extra <= present:
                cl = "bitmap/non-authoritative-type-at-delegation"
            elif owner in cuts:
                cl = "bitmap/wrong-at-delegation"
            else:
                cl = "bitmap/wrong"
            probs.append(("C15/nsec-chain/" + cl,
                          "%s: NSEC at %s lists %s, RFC 4035 s2.3 requires %s"
                          % (desc, show(owner), tnames(gtypes), tnames(types))))
        if ttl not in (5, min(5, 3600)):
            probs.append(("C15/nsec-chain/ttl", "%s: NSEC TTL %d, SOA minimum 5" % (desc, ttl)))
    # ---- nothing else changed
    for k in set(before) | set(after):
        if k[1] == 47 and k not in before:
            continue
        if before.get(k) != after.get(k):
            probs.append(("C15/nsec-chain/zone-content-changed", "%s: RRset %s/%s changed by signing"
                          % (desc, show(k[0]), k[1])))
    # ---- what the signer was asked to sign
    seen = {}
    for owner, rdtype, ttl, wires in calls:
        seen[(owner, rdtype)] = seen.get((owner, rdtype), 0) + 1
        if (owner, rdtype) in after and rdtype != 47:
            if after[(owner, rdtype)] != (ttl, wires):
                probs.append(("C15/nsec-chain/signer-got-partial-rrset", "%s: %s/%d" % (desc, show(owner), rdtype)))
    for k, n in sorted(seen.items()):
        if n > 1:
            probs.append(("C15/nsec-chain/signer/rrset-signed-twice", "%s: %s/%d x%d" % (desc, show(k[0]), k[1], n)))
        if k not in signed:
            owner, rdtype = k
            below = any(ref.is_strictly_below(owner, c) for c in cuts)
            cl = "glue-or-occluded-below-cut" if below else (
                "ns-at-delegation" if owner in cuts and rdtype == 2 else
                "non-authoritative-at-delegation" if owner in cuts else "other")
            probs.append(("C15/nsec-chain/signer/signed-non-authoritative/" + cl,
                          "%s: signer called for %s/%s (RFC 4035 s2.2: only authoritative RRsets are signed)"
                          % (desc, show(owner), tnames([rdtype]))))
    for k in sorted(signed - set(seen)):
        if k[1] == 47 and k[0] not in got_nsec:
            continue  # already reported as missing-nsec
        probs.append(("C15/nsec-chain/signer/authoritative-rrset-not-signed" + inputclass,
                      "%s: signer never called for %s/%s" % (desc, show(k[0]), tnames([k[1]]))))
    # ---- sign again after the zone changed: the chain must be the chain of the *new* content
    # (every owner exactly one NSEC; stale NSEC records replaced, not kept beside the new ones)
    if not probs and case.get("resign", True):
        probs += check_resign(z, rrs, rel, zcls, desc, Oname, O)
    ncuts = len(cuts)
    outcome = "nsec:ok:cuts=%d:%s" % (ncuts, "ents" if (bits & 3) == 2 or (bits >> 2 & 1) else "no-ents") if not probs else "BAD"
    return probs, outcome, (bits, rel)


RESIGN_ADD = [zrr("m", 300, RR_A("10.0.0.77")), zrr("0", 300, RR_TXT("first"))]


def check_resign(z, rrs, rel, zcls, desc, Oname, O):
    """Modify the signed zone (two new names, one of them sorting first; toggle `a/A`), sign it
    again and compare the NSEC records with the reference chain of the new content."""
    probs = []
    had_a = any(o == "a" and rd[0] == "A" for o, _t, rd in rrs)
    rrs2 = [r for r in rrs if r[0] != "a"] if had_a else rrs + [zrr("a", 300, RR_A("10.0.0.1"))]
    rrs2 = rrs2 + RESIGN_ADD
    try:
        target = load_zone(rrs2, rel, zcls)
        with z.writer() as txn:
            for name, node in target.nodes.items():
                for rds in node.rdatasets:
                    if txn.get(name, rds.rdtype, rds.covers) is None:
                        txn.add(name, rds)
            if had_a:
                # the name goes away as a whole (its old NSEC/RRSIG records with it)
                txn.delete(dns.name.from_text("a", None if rel else Oname))
        dns.dnssec.sign_zone(z, rrset_signer=lambda txn, rrset: None, add_dnskey=False)
        after = snapshot_zone(z, Oname)
    except Exception as e:
        return [("C15/nsec-chain/resign/" + crash_sig(e), "%s re-signed after a change: %s: %s" % (desc, type(e).__name__, e))]
    refrrs = zone_ref_rrs(rrs2, rel)
    chain, _signed = ref.nsec_chain(O, [(o, t) for o, t, _c, _ttl, _w in refrrs])
    exp = {ref.lower_name(o): (n, ts) for o, n, ts in chain}
    got = {owner: wires for (owner, rdtype), (ttl, wires) in after.items() if rdtype == 47}
    for owner in sorted(set(got) - set(exp), key=ref.name_order_key):
        probs.append(("C15/nsec-chain/resign/stale-nsec-owner", "%s: after re-signing NSEC still at %s" % (desc, show(owner))))
    for owner in sorted(set(exp) - set(got), key=ref.name_order_key):
        probs.append(("C15/nsec-chain/resign/missing-nsec", "%s: after re-signing no NSEC at %s" % (desc, show(owner))))
    for owner, wires in sorted(got.items()):
        if owner not in exp:
            continue
        if len(wires) != 1:
            probs.append(("C15/nsec-chain/resign/multiple-nsec-rrs", "%s: %d NSEC RRs at %s after re-signing (the old one was kept)" % (
                desc, len(wires), show(owner))))
            continue
        try:
            gnext, pos = ref.read_name(wires[0], 0)
            gtypes = ref.parse_type_bitmap(wires[0][pos:])
        except ref.RefError as e:
            probs.append(("C15/nsec-chain/resign/malformed-nsec-rdata", "%s at %s: %s" % (desc, show(owner), e)))
            continue
        nxt, types = exp[owner]
        if not ref.same_name(gnext, nxt):
            probs.append(("C15/nsec-chain/resign/wrong-next", "%s: after re-signing NSEC at %s points to %s, successor is %s" % (
                desc, show(owner), show(gnext), show(nxt))))
        if gtypes != types:
            probs.append(("C15/nsec-chain/resign/bitmap", "%s: after re-signing NSEC at %s lists %s, expected %s" % (
                desc, show(owner), tnames(gtypes), tnames(types))))
    return probs


def show(labels):
    if not labels:
        return "."
    return ".".join("".join(chr(c) if 0x21 <= c < 0x7F and c not in b'."\\' else "\\%03d" % c for c in l) for l in labels) + "."


def tnames(types):
    return "{" + " ".join(dns.rdatatype.to_text(t) for t in sorted(types)) + "}"


def snapshot_zone(z, Oname):
    out = {}
    with z.reader() as txn:
        for name, rds in txn.iterate_rdatasets():
            k = (ref.lower_name(lib_labels(name, Oname)), int(rds.rdtype) if rds.rdtype != 46 else 46 + (int(rds.covers) << 16))
            out[k] = (rds.ttl, sorted(rd.to_wire(origin=Oname) for rd in rds))
    return out


def work_nsec(task, col):
    _, bits_list, quick = task
    for bits in bits_list:
        for rel in (True, False):
            for zcls, _c in ZONE_CLASSES:
                case = {"part": "nsec", "bits": bits, "rel": rel, "zcls": zcls}
                probs, outcome, key = check_nsec(case)
                col.count("evaluations")
                col.count("nsec_zones")
                col.outcome("nsec/" + outcome)
                col.nontrivial(("nsec", key))
                if bits == 0b101011001:
                    col.sample({"zone": zone_text(ns_rrs(bits)), "rel": rel, "zcls": zcls}, limit=1)
                for s, w in probs:
                    col.violation(s, w, case)


# =========================================================================================
# framework glue
# =========================================================================================
CHECKERS = {"canon": check_canon, "plain": check_plain, "rrsig": check_rrsig, "order": check_order, "ds": check_ds,
            "nsec3": check_nsec3, "zonemd": check_zonemd, "nsec": check_nsec}


def recheck(case):
    part = case["part"]
    if part == "nsec3alg":
        try:
            dns.dnssec.nsec3_hash("example.", None, 0, case["alg"])
            return [("C15/nsec3-hash/unknown-algorithm-accepted", "accepted")]
        except ValueError:
            return []
    probs, _o, _k = CHECKERS[part](case)
    return probs


def worker(task, col):
    kind = task[0]
    {"canon": work_canon, "rrsig": work_rrsig, "order": work_order, "ds": work_ds, "nsec3": work_nsec3,
     "zonemd": work_zonemd, "nsec": work_nsec}[kind](task, col)


def selftest_reference():
    """Published vectors keep the reference honest (harness assertion, not a library check)."""
    import base64
    # RFC 4034 s5.4 / RFC 4509 s2.3
    key = base64.b64decode(
        "AQOeiiR0GOMYkDshWoSKz9XzfwJr1AYtsmx3TGkJaNXVbfi/2pHm822aJ5iI9BMzNXxeYCmZDRD99WYwYqUSdjMmmAphXdvx"
        "egXd/M5+X7OrzKBaMbCVdFLUUh6DhweJBjEVv5f2wwjM9XzcnOf+EPbtG9DMBmADjFDc2w/rljwvFw==")
    rdata = bytes([1, 0, 3, 5]) + key
    owner = ref.name_from_text("dskey.example.com.")
    assert ref.key_tag(rdata) == 60485, ref.key_tag(rdata)
    assert ref.ds_rdata(owner, rdata, 1)[4:].hex().upper() == "2BB183AF5F22588179A53B0A98631FAD1A292118"
    assert ref.ds_rdata(owner, rdata, 2)[4:].hex().upper() == \
        "D4B7D520E7BB5F0F67674A0CCEB1E3E0614B93C4F9E99B8383F6A1E4469DA50A"
    # RFC 5155 Appendix A
    salt = bytes.fromhex("aabbccdd")
    for n, h in [("example.", "0p9mhaveqvm6t7vbl5lop2u3t2rp3tom"), ("a.example.", "35mthgpgcu1qg68fab165klnsnk3dpvl"),
                 ("*.w.example.", "r53bq7cc2uvmubfu5ocmm6pers9tk9en"), ("x.y.w.example.", "2vptu5timamqttgl4luu9kg21e0aor3s")]:
        assert ref.nsec3_hash(ref.name_from_text(n), salt, 12).lower() == h, n
    # RFC 8976 A.1
    O = ref.name_from_text("example.")
    zone = [
        ("@", 86400, RR_SOA("ns1", "admin")),
        ("@", 86400, RR_NS("ns1")), ("@", 86400, RR_NS("ns2")),
        ("@", 86400, RR_ZONEMD(2018031900, 1, 1, "00" * 48)),
        ("ns1", 3600, RR_A("203.0.113.63")),
        ("ns2", 3600, _rd("AAAA", "", [("hex", "20010db8000000000000000000000063")])),
    ]
    rrs = []
    for owner, ttl, (typename, _t, fields, spells) in zone:
        names = [ref.name_from_text(s, O) for s in spells]
        if typename == "SOA":
            fields = [("name", 0), ("name", 1)] + [("u32", v) for v in (2018031900, 1800, 900, 604800, 86400)]
        rrs.append((ref.name_from_text(owner, O), TYPE_INT[typename], 1, ttl, ref.enc_fields(fields, names)))
    d = ref.zonemd_simple_digest(O, rrs, 1).hex()
    assert d == ("c68090d90a7aed716bc459f9340e3d7c1370d4d24b7e2fc3a1ddc0b9a87153b9"
                 "a9713b3c9ae5cc27777f98b8e730044c"), d
    # RFC 4034 s6.1 example order
    order = ["example.", "a.example.", "yljkjljk.a.example.", "Z.a.example.", "zABC.a.EXAMPLE.", "z.example.",
             "\\001.z.example.", "*.z.example.", "\\200.z.example."]
    names = [ref.name_from_text(n) for n in order]
    assert sorted(reversed(names), key=ref.name_order_key) == names
    assert ref.base32hex_nopad(b"foobar") == "CPNMUOJ1E8"


def chunks(seq, n):
    seq = list(seq)
    return [seq[i::n] for i in range(n) if seq[i::n]]


def run(ctx):
    selftest_reference()
    q = ctx.quick
    ctx.rule = (
        "six exhaustive products on the real code, each case compared with mc/refs/dnssec.py: "
        "(canon) specimen of every implemented type x every tuple of name spellings x origin x "
        "{from wire, text absolute, text relativized} x digest origin - non-trivial = an embedded name "
        "has an upper-case letter or is relative; (rrsig) RRset x owner x every Labels value 0..n+1 x "
        "signer spelling x original TTL x rrset form x origin mode; (ds) key flags x protocol x algorithm "
        "x key length x octet pattern x owner x digest type x entry point; (nsec3) name x salt x "
        "iterations x argument forms; (zonemd) every subset of an RRset universe x relativize x zone "
        "class x hash; (nsec) every subset of a name/RRset universe x relativize x zone class. "
        "Distinct = distinct tuple of the listed dimensions.")
    ctx.assume("types of the RFC 4034 s6.2 list that dnspython does not implement (MD MF MB MG MR MINFO NXT A6) "
               "are RFC 3597 opaque data to it; their down-casing is not demanded (outcome "
               "'unimplemented-listed-type-left-opaque')")
    ctx.assume("RRSIG Labels on a wildcard owner other than (owner labels - 1): RFC 4035 s5.3.2 read literally "
               "defines a value, RFC 4034 s3.1.3 calls the RRSIG malformed; both the value and ValidationFailure "
               "are accepted")
    ctx.assume("an rdataset holding the same RR once with a relative and once with an absolute name is not an "
               "RRset (RFC 2181 s5); signing input with or without the duplicate is accepted")
    ctx.assume("NSEC TTL: SOA minimum (RFC 4035 s2.3) or min(SOA minimum, SOA TTL) (RFC 9077) accepted; NSEC "
               "next-name compared case-insensitively")
    ctx.assume("alg-1 key tag only for keys with >= 3 octets (RFC 4034 App. B.1 needs 24 bits of modulus)")
    ctx.assume("private keys are out of scope (cryptography absent): signatures are never produced or verified")
    tasks = []
    # canon
    for spec in NAME_SPECS:
        tasks.append(("canon", spec[0], q))
    tasks.append(("canon", "plain", q))
    # rrsig
    owners = OWNERS_Q if q else OWNERS_T
    for label, _r, _f in RRSETS:
        for o in owners:
            tasks.append(("rrsig", label, o, q))
    for label, _r, _f in RRSETS:
        tasks.append(("order", label, q))
    # ds
    nshard = 16 if q else 64
    for s in range(nshard):
        tasks.append(("ds", (s, nshard), q))
    # nsec3
    its = [0, 1, 2, 10, 150] if q else [0, 1, 2, 3, 10, 12, 150, 500, 2500]
    for it in its:
        tasks.append(("nsec3", [it], q))
    # zonemd
    zm_n = 8 if q else len(ZM_OPTIONS)
    zm_all = range(1 << zm_n)
    for c in chunks(zm_all, 32 if q else 128):
        tasks.append(("zonemd", c, q))
    # nsec
    ns_n = NS_NQUICK if q else len(NS_OPTIONS)
    ns_all = list(range(1 << NS_NQUICK))
    if not q:
        # full product over the quick universe x (none or one) of the thorough-only groups, plus every
        # pair of thorough-only groups on the delegation-related part of the universe (groups 3..7)
        nx = len(NS_OPTIONS) - NS_NQUICK
        singles = [0] + [1 << i for i in range(nx)]
        pairs = [(1 << i) | (1 << j) for i in range(nx) for j in range(i)]
        deleg = [b << 3 for b in range(32)]
        ns_all = [b | (x << NS_NQUICK) for x in singles for b in ns_all] + \
                 [b | (x << NS_NQUICK) for x in pairs for b in deleg]
    for c in chunks(ns_all, 64 if q else 512):
        tasks.append(("nsec", c, q))
    ctx.extra["bounds"] = {
        "canon": {"name_bearing_specimens": len(NAME_SPECS), "nameless_specimens": len(PLAIN_SPECS),
                  "spellings_one_name_types": len(SPELL_T if q else SPELL_X),
                  "spellings_two_name_types": "%d^2" % len(SPELL_Q if q else SPELL_T), "reader_origins": ORIGINS, "digest_origins": ORIGINS2},
        "rrsig": {"rrsets": len(RRSETS), "owners": len(owners), "signers": len(SIGNERS_Q if q else SIGNERS_T),
                  "labels": "0..owner labels+1" + ("" if q else " and 255"), "original_ttl": [300, 86400],
                  "forms": 2, "origin_modes": 3},
        "ds": {"key_lengths": "0-9,64,65" if q else "0-12,63-66,255-257", "algorithms": [1, 8, 13, 15],
               "digests": [1, 2, 4], "owners": len(DS_OWNERS), "entry_points": 8},
        "nsec3": {"names": len(N3_NAMES), "salts": len(N3_SALTS), "iterations": its},
        "zonemd": {"optional_rrset_groups": zm_n, "zones": 1 << zm_n, "x": "relativize(2) x zone classes(3) x hash(2)"},
        "nsec": {"optional_rrset_groups": ns_n, "zones": len(ns_all),
                 "enumeration": "full product of %d groups" % NS_NQUICK + ("" if q else
                                " x (none|one) of the %d remaining groups + all pairs of those on the 5 "
                                "delegation groups" % (len(NS_OPTIONS) - NS_NQUICK)), "x": "relativize(2) x zone classes(3)"},
    }
    ctx.pmap(worker, tasks)
