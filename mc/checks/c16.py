"""C16: stub resolution reaches the documented outcome under every fault sequence.

The complete *outcome tree* of the real Resolver.resolve() loop (sync) and of
dns.asyncresolver.Resolver.resolve() (async, driven by coro.send without an event loop)
is explored: nameservers are scripted dns.nameserver.Nameserver subclasses that take the
next per-query outcome from the explorer; a script is extended only when the resolver
asks for one more outcome, so every branch runs until the resolver itself terminates.
Clock = virtual (dns.resolver.time / dns.asyncresolver.time rebound).
"""
from __future__ import annotations

import dns.asyncbackend
import dns.asyncresolver
import dns.exception
import dns.flags
import dns.message
import dns.name
import dns.nameserver
import dns.rcode
import dns.rdata
import dns.rdataclass
import dns.rdatatype
import dns.resolver

PROPERTY = "C16"
LEVEL = "model_checking"

IN = dns.rdataclass.IN
A = dns.rdatatype.A


class NeedMore(BaseException):
    """The resolver asked for an outcome beyond the script: branch here."""


class Clock:
    def __init__(self):
        self.now = 5000.0
        self.sleeps = []

    def time(self):
        return self.now

    def sleep(self, s):
        self.sleeps.append(round(s, 6))
        self.now += s


class Env:
    def __init__(self, script):
        self.script = list(script)
        self.pos = 0
        self.clock = Clock()
        self.queries = []    # (server index, tcp, qname text, timeout)

    def next(self):
        if self.pos >= len(self.script):
            raise NeedMore()
        o = self.script[self.pos]
        self.pos += 1
        return o


def chain_names(qname, n):
    return [qname] + [dns.name.from_text("c%d.target." % i) for i in range(1, n + 1)]


def make_reply(outcome, request):
    """Build the response message (or exception) a server gives for `outcome`."""
    q = request.question[0]
    qname = q.name
    r = dns.message.make_response(request)
    if outcome == "answer":
        rrs = r.find_rrset(r.answer, qname, q.rdclass, q.rdtype, create=True)
        if q.rdtype == A and q.rdclass == IN:
            rrs.add(dns.rdata.from_text("IN", "A", "10.0.0.1"), 30)
        else:
            rrs.add(dns.rdata.from_text(q.rdclass, q.rdtype, '"10.0.0.1"'), 30)
    elif outcome.startswith("chain"):
        n = int(outcome[5:])
        names = chain_names(qname, n)
        for i in range(n):
            rrs = r.find_rrset(r.answer, names[i], IN, dns.rdatatype.CNAME, create=True)
            rrs.add(dns.rdata.from_text("IN", "CNAME", names[i + 1].to_text()), 20 + i)
        rrs = r.find_rrset(r.answer, names[n], IN, q.rdtype, create=True)
        rrs.add(dns.rdata.from_text("IN", "A", "10.0.0.2"), 25)
    elif outcome in ("dangling-nodata", "dangling-nx", "danglingL-nodata", "danglingL-nx"):
        # CNAME (TTL 3) to a name without data in ANOTHER zone; SOA (TTL 40, minimum 7) of that
        # zone in the authority section: the negative TTL is min(3, 40, 7) = 3; the L variants
        # have a long-lived CNAME (TTL 50): min(50, 40, 7) = 7, i.e. the SOA decides
        tgt = dns.name.from_text("c1.target.")
        rrs = r.find_rrset(r.answer, qname, IN, dns.rdatatype.CNAME, create=True)
        rrs.add(dns.rdata.from_text("IN", "CNAME", tgt.to_text()), 50 if outcome.startswith("danglingL") else 3)
        rrs = r.find_rrset(r.authority, dns.name.from_text("target."), IN, dns.rdatatype.SOA, create=True)
        rrs.add(dns.rdata.from_text("IN", "SOA", "m. r. 1 2 3 4 7"), 40)
        if outcome.endswith("-nx"):
            r.set_rcode(dns.rcode.NXDOMAIN)
    elif outcome == "nodata":
        rrs = r.find_rrset(r.authority, qname.parent(), q.rdclass, dns.rdatatype.SOA, create=True)
        rrs.add(dns.rdata.from_text(q.rdclass, "SOA", "m. r. 1 2 3 4 7"), 40)
    elif outcome == "nodata-nosoa":
        pass
    elif outcome == "nxdomain":
        r.set_rcode(dns.rcode.NXDOMAIN)
        rrs = r.find_rrset(r.authority, qname.parent(), q.rdclass, dns.rdatatype.SOA, create=True)
        rrs.add(dns.rdata.from_text(q.rdclass, "SOA", "m. r. 1 2 3 4 9"), 40)
    elif outcome == "nx-with-answer":
        r.set_rcode(dns.rcode.NXDOMAIN)
        rrs = r.find_rrset(r.answer, qname, IN, q.rdtype, create=True)
        rrs.add(dns.rdata.from_text("IN", "A", "10.0.0.3"), 30)
    elif outcome == "servfail":
        r.set_rcode(dns.rcode.SERVFAIL)
    elif outcome == "refused":
        r.set_rcode(dns.rcode.REFUSED)
    elif outcome == "notimp":
        r.set_rcode(dns.rcode.NOTIMP)
    elif outcome == "yxdomain":
        r.set_rcode(dns.rcode.YXDOMAIN)
    else:
        raise AssertionError(outcome)
    return r


EXC_OUTCOMES = {"formerr": dns.exception.FormError, "oserror": OSError, "eof": EOFError,
                "truncated": dns.message.Truncated, "timeout": dns.exception.Timeout}


class ScriptedNS(dns.nameserver.Nameserver):
    def __init__(self, env, index, always_max=False):
        super().__init__()
        self.env = env
        self.index = index
        self.always_max = always_max

    def __str__(self):
        return "ns%d" % self.index

    def kind(self):
        return "scripted"

    def is_always_max_size(self):
        return self.always_max

    def answer_nameserver(self):
        return "ns%d" % self.index

    def answer_port(self):
        return 53

    def _do(self, request, timeout, max_size):
        env = self.env
        o = env.next()
        env.queries.append((self.index, bool(max_size), request.question[0].name.to_text(), round(timeout, 6)))
        if o in EXC_OUTCOMES:
            if o == "timeout":
                env.clock.now += timeout
            raise EXC_OUTCOMES[o]()
        return make_reply(o, request)

    def query(self, request, timeout, source, source_port, max_size=False, **kw):
        return self._do(request, timeout, max_size)

    async def async_query(self, request, timeout, source, source_port, max_size, backend, **kw):
        return self._do(request, timeout, max_size)


class FakeBackend(dns.asyncbackend.Backend):
    def __init__(self, clock):
        self.clock = clock

    def name(self):
        return "fake"

    async def sleep(self, interval):
        self.clock.sleep(interval)


# ------------------------------------------------------------------ running the real resolver
def make_resolver(cfg, env, is_async):
    dns.resolver.time = env.clock
    dns.asyncresolver.time = env.clock
    cls = dns.asyncresolver.Resolver if is_async else dns.resolver.Resolver
    r = cls(configure=False)
    r.nameservers = [ScriptedNS(env, i, always_max=(cfg.get("always_max") == i)) for i in range(cfg["servers"])]
    r.timeout = cfg["timeout"]
    r.lifetime = cfg["lifetime"]
    r.retry_servfail = cfg["retry_servfail"]
    r.search = [dns.name.from_text(s) for s in cfg["search"]]
    r.domain = dns.name.from_text(cfg.get("domain", "."))
    r.ndots = cfg["ndots"]
    r.use_search_by_default = cfg.get("use_search_by_default", False)
    r.rotate = False
    if cfg["cache"] == "cache":
        r.cache = dns.resolver.Cache()
    elif cfg["cache"] == "lru":
        r.cache = dns.resolver.LRUCache(4)
    else:
        r.cache = None
    return r


def preload_cache(cfg, r, env):
    """Seed entries; returns list of (key, kind)."""
    out = []
    for ent in cfg.get("preload", []):
        cand, kind = ent
        name = dns.name.from_text(cand)
        q = dns.message.make_query(name, A)
        if kind == "hit":
            resp = make_reply("answer", q)
            key = (name, A, IN)
            ans = dns.resolver.Answer(name, A, IN, resp)
        elif kind == "nodata":
            resp = make_reply("nodata", q)
            key = (name, A, IN)
            ans = dns.resolver.Answer(name, A, IN, resp)
        elif kind == "nx":
            resp = make_reply("nxdomain", q)
            key = (name, dns.rdatatype.ANY, IN)
            ans = dns.resolver.Answer(name, dns.rdatatype.ANY, IN, resp)
        r.cache.put(key, ans)
        out.append((key, kind, ans))
    return out


def describe_result(res, exc, clock):
    if exc is not None:
        d = {"kind": type(exc).__name__}
        if isinstance(exc, dns.resolver.NXDOMAIN):
            d["qnames"] = [n.to_text() for n in exc.kwargs.get("qnames", [])]
        return d
    d = {"kind": "Answer", "qname": res.qname.to_text(), "canonical": res.canonical_name.to_text(),
         "rrset": None if res.rrset is None else sorted(x.to_text() for x in res.rrset),
         "ttl_left": round(res.expiration - clock.now, 6), "ns": res.nameserver}
    return d


def run_real(cfg, script, is_async):
    """Run one resolution; returns dict observation or raises NeedMore."""
    env = Env(script)
    r = make_resolver(cfg, env, is_async)
    seeded = preload_cache(cfg, r, env) if r.cache is not None else []
    start = env.clock.now
    res = exc = None
    kwargs = dict(tcp=cfg["tcp"], raise_on_no_answer=cfg["raise_on_no_answer"], search=cfg["search_arg"])
    qtype = cfg.get("rdtype", "A")
    if cfg.get("rdclass"):
        kwargs["rdclass"] = cfg["rdclass"]
    if "call_lifetime" in cfg:
        kwargs["lifetime"] = cfg["call_lifetime"]
    try:
        if is_async:
            coro = r.resolve(cfg["qname"], qtype, backend=FakeBackend(env.clock), **kwargs)
            try:
                coro.send(None)
                raise AssertionError("coroutine suspended")
            except StopIteration as si:
                res = si.value
        else:
            res = r.resolve(cfg["qname"], qtype, **kwargs)
    except NeedMore:
        raise
    except (dns.exception.DNSException,) as e:
        exc = e
    except Exception as e:
        # an undocumented exception escaping resolve() from library code is a result (one the
        # model never predicts); anything raised by the harness itself stays a harness error
        import os
        import traceback
        tb = traceback.extract_tb(e.__traceback__)
        if not tb or (os.sep + "dns" + os.sep) not in tb[-1].filename:
            raise
        exc = e
    obs = {"queries": env.queries, "sleeps": env.clock.sleeps, "result": describe_result(res, exc, env.clock),
           "elapsed": round(env.clock.now - start, 6), "consumed": env.pos}
    # cache contents
    if r.cache is not None:
        keys = []
        for k in list(r.cache.data.keys()):
            keys.append((k[0].to_text(), dns.rdatatype.to_text(k[1]), dns.rdataclass.to_text(k[2])))
        obs["cache_keys"] = sorted(keys)
        if cfg.get("rdclass") and exc is None or isinstance(exc, (dns.resolver.NXDOMAIN, dns.resolver.NoAnswer)):
            # results are cached under the queried *class*: the same name and type in class IN
            # must not be answered (or denied) from what was cached for another class
            if cfg.get("rdclass"):
                k2 = dict(kwargs, rdclass="IN")
                pos0 = env.pos
                try:
                    if is_async:
                        c2 = r.resolve(cfg["qname"], qtype, backend=FakeBackend(env.clock), **k2)
                        try:
                            c2.send(None)
                        except StopIteration:
                            pass
                    else:
                        r.resolve(cfg["qname"], qtype, **k2)
                    obs["other_class_probe"] = "served-without-query"
                except NeedMore:
                    obs["other_class_probe"] = "queried"
                except dns.exception.DNSException as e:
                    obs["other_class_probe"] = "raised-without-query:" + type(e).__name__
        # a second resolution right away must be served from the cache with no query
        if exc is None or isinstance(exc, (dns.resolver.NXDOMAIN, dns.resolver.NoAnswer)):
            env2_pos = env.pos
            nq = len(env.queries)
            try:
                if is_async:
                    coro = r.resolve(cfg["qname"], qtype, backend=FakeBackend(env.clock), **kwargs)
                    try:
                        coro.send(None)
                    except StopIteration as si:
                        res2, exc2 = si.value, None
                else:
                    res2, exc2 = r.resolve(cfg["qname"], qtype, **kwargs), None
            except NeedMore:
                res2, exc2 = None, "queried-again"
            except dns.exception.DNSException as e:
                res2, exc2 = None, e
            except Exception as e:
                import os
                import traceback
                tb = traceback.extract_tb(e.__traceback__)
                if not tb or (os.sep + "dns" + os.sep) not in tb[-1].filename:
                    raise
                res2, exc2 = None, e
            if exc2 == "queried-again":
                obs["second"] = "queried-again"
            elif exc is None:
                obs["second"] = "same-answer" if res2 is res else "different:%r" % (describe_result(res2, exc2, env.clock),)
            else:
                obs["second"] = "same-exception" if type(exc2) is type(exc) else "different:%s" % type(exc2).__name__
            del env.queries[nq:]
    return obs


# ------------------------------------------------------------------ reference model
def ref_candidates(cfg):
    qname = dns.name.from_text(cfg["qname"], None)
    if qname.is_absolute():
        return [qname]
    absq = qname.concatenate(dns.name.root)
    search = cfg["search_arg"]
    if search is None:
        search = cfg.get("use_search_by_default", False)
    if not search:
        return [absq]
    if cfg["search"]:
        sl = [dns.name.from_text(s) for s in cfg["search"]]
    elif cfg.get("domain", ".") != ".":
        sl = [dns.name.from_text(cfg["domain"])]
    else:
        sl = []
    ndots = 1 if cfg["ndots"] is None else cfg["ndots"]
    cands = [qname.concatenate(s) for s in sl]
    dots = len(qname.labels) - 1
    if dots >= ndots:
        return [absq] + cands
    return cands + [absq]


def ref_outcome_payload(o, cand):
    """(rrset present, canonical name, min ttl) for NOERROR outcomes; None if the
    response is unusable (server broken)."""
    if o == "answer":
        return (True, cand, 30)
    if o.startswith("chain"):
        n = int(o[5:])
        if n >= 16:
            return None
        return (True, chain_names(cand, n)[n], min([20 + i for i in range(n)] + [25]))
    if o == "dangling-nodata":
        return (False, dns.name.from_text("c1.target."), min(3, 40, 7))
    if o == "danglingL-nodata":
        return (False, dns.name.from_text("c1.target."), min(50, 40, 7))
    if o == "nodata":
        return (False, cand, min(40, 7))
    if o == "nodata-nosoa":
        return (False, cand, 2 ** 32 - 1)  # no SOA: nothing bounds the negative TTL
    return None


def ref_resolve(cfg, script):
    """Independent statement of the stub algorithm.  Returns observation dict or None if
    the script is too short."""
    import dns.ttl
    clock, sleeps, queries = 0.0, [], []
    pos = 0
    lifetime = cfg.get("call_lifetime", cfg["lifetime"])
    cands = ref_candidates(cfg)
    cache = {}
    if cfg["cache"] != "none":
        for cand, kind in cfg.get("preload", []):
            cache[(dns.name.from_text(cand).to_text(), "A" if kind != "nx" else "ANY")] = kind
    nservers = cfg["servers"]
    nx = []

    def done(kind, **kw):
        d = {"queries": queries, "sleeps": sleeps, "result": dict(kind=kind, **kw), "elapsed": round(clock, 6), "consumed": pos}
        if cfg["cache"] != "none":
            d["cache_keys"] = sorted((k[0], k[1] if k[1] == "ANY" else cfg.get("rdtype", "A"), cfg.get("rdclass", "IN")) for k in cache.keys())
        return d

    for cand in cands:
        ct = cand.to_text()
        if cfg["cache"] != "none":
            k = cache.get((ct, "A"))
            if k == "hit":
                return done("Answer", qname=ct, canonical=ct, rrset=["10.0.0.1"], ttl_left=round(30.0 - clock, 6), ns=None)
            if k == "nodata":
                if cfg["raise_on_no_answer"]:
                    return done("NoAnswer")
                return done("Answer", qname=ct, canonical=ct, rrset=None, ttl_left=round(7.0 - clock, 6), ns=None)
            if k is not None and k != "hit":
                # an answer stored by this very resolution cannot exist yet
                pass
            if cache.get((ct, "ANY")) == "nx":
                nx.append(ct)
                continue
        usable = list(range(nservers))
        rnd = list(usable)
        backoff = 0.1
        retry_tcp = None
        while True:
            if retry_tcp is not None:
                server, tcp = retry_tcp, True
                retry_tcp = None
                was_retry = True
            else:
                was_retry = False
                if not rnd:
                    if not usable:
                        return done("NoNameservers")
                    rnd = list(usable)
                    sleeps.append(round(backoff, 6))
                    clock += backoff
                    backoff = min(backoff * 2, 2)
                server = rnd.pop(0)
                tcp = cfg["tcp"] or cfg.get("always_max") == server
            if clock >= lifetime:
                return done("LifetimeTimeout")
            timeout = min(lifetime - clock, cfg["timeout"])
            if pos >= len(script):
                return None
            o = script[pos]
            pos += 1
            queries.append((server, tcp, ct, round(timeout, 6)))
            if o in ("formerr", "oserror", "eof"):
                usable.remove(server)
            elif o == "truncated":
                if tcp:
                    usable.remove(server)
                else:
                    retry_tcp = server
            elif o == "timeout":
                clock += timeout
            elif o in ("answer", "nodata", "nodata-nosoa", "dangling-nodata", "danglingL-nodata") or o.startswith("chain"):
                p = ref_outcome_payload(o, cand)
                if p is None:
                    usable.remove(server)
                    continue
                has, canon, ttl = p
                if cfg["cache"] != "none":
                    cache[(ct, "A")] = "stored"
                if not has and cfg["raise_on_no_answer"]:
                    return done("NoAnswer")
                rr = None
                if has:
                    rr = ["10.0.0.1"] if o == "answer" else ["10.0.0.2"]
                    if cfg.get("rdtype", "A") != "A" and o == "answer":
                        rr = ['"10.0.0.1"']
                return done("Answer", qname=ct, canonical=canon.to_text(), rrset=rr, ttl_left=float(ttl), ns="ns%d" % server)
            elif o in ("nxdomain", "dangling-nx", "danglingL-nx"):
                nx.append(ct)
                if cfg["cache"] != "none":
                    cache[(ct, "ANY")] = "nx"
                break
            elif o == "nx-with-answer":
                usable.remove(server)
            elif o == "yxdomain":
                return done("YXDOMAIN")
            elif o == "servfail":
                if not cfg["retry_servfail"]:
                    usable.remove(server)
            elif o in ("refused", "notimp"):
                usable.remove(server)
            else:
                raise AssertionError(o)
    return done("NXDOMAIN", qnames=[c.to_text() for c in cands])


# ------------------------------------------------------------------ property-level invariants (model independent)
BREAKING = {"formerr", "oserror", "eof", "nx-with-answer", "refused", "notimp", "chain16", "chain17"}


def invariants(cfg, script, obs):
    probs = []
    q = obs["queries"]
    lifetime = cfg.get("call_lifetime", cfg["lifetime"])
    if obs["elapsed"] > lifetime + cfg["timeout"] + 2.0 + 1e-6:
        probs.append(("terminates-late", "elapsed %.2f > lifetime %.2f + timeout" % (obs["elapsed"], lifetime)))
    broken = {}
    for i, (srv, tcp, name, to) in enumerate(q):
        if (srv, name) in broken:
            probs.append(("broken-server-asked-again", "server %d asked again for %s after outcome %s" % (srv, name, broken[(srv, name)])))
        o = script[i]
        if o in BREAKING or (o == "servfail" and not cfg["retry_servfail"]) or (o == "truncated" and tcp):
            broken[(srv, name)] = o
        if o == "truncated" and not tcp:
            if i + 1 < len(q):
                n = q[i + 1]
                if (n[0], n[1], n[2]) != (srv, True, name):
                    probs.append(("truncation-not-retried-over-tcp", "after truncated UDP reply from %d next query was %r" % (srv, n)))
        if to <= 0 or to > cfg["timeout"] + 1e-9:
            probs.append(("bad-timeout", "query timeout %r outside (0, %r]" % (to, cfg["timeout"])))
    res = obs["result"]
    cands = [c.to_text() for c in ref_candidates(cfg)]
    if [n for n in dict.fromkeys(x[2] for x in q)] != [c for c in cands if c in {x[2] for x in q}]:
        probs.append(("candidate-order", "queried names %s not in candidate order %s" % (list(dict.fromkeys(x[2] for x in q)), cands)))
    if res["kind"] == "NXDOMAIN":
        nxnames = {q[i][2] for i, o in enumerate(script[:len(q)]) if o in ("nxdomain", "dangling-nx", "danglingL-nx")}
        nxnames |= {dns.name.from_text(c).to_text() for c, k in cfg.get("preload", []) if k == "nx" and cfg["cache"] != "none"}
        if set(cands) - nxnames:
            probs.append(("nxdomain-without-all-candidates", "NXDOMAIN raised but %s never got NXDOMAIN" % sorted(set(cands) - nxnames)))
    if res["kind"] == "Answer" and q and res["rrset"] is not None and not cfg.get("preload"):
        last = script[len(q) - 1]
        if not (last == "answer" or last.startswith("chain")):
            probs.append(("answer-from-nowhere", "Answer returned but last outcome was %s" % last))
    return probs


def compare(a, b, what):
    probs = []
    for k in ("queries", "sleeps", "result", "elapsed", "consumed", "cache_keys"):
        if k in a or k in b:
            va, vb = a.get(k), b.get(k)
            if k == "queries":
                va, vb = [tuple(x) for x in va], [tuple(x) for x in vb]
            if k == "cache_keys":
                va, vb = [tuple(x) for x in va], [tuple(x) for x in vb]
                # the model does not track entries that expired or the preloaded ones' kind
            if k == "result" and va.get("kind") == "Answer" and vb.get("kind") == "Answer" and vb.get("ns") is None:
                va = dict(va, ns=None)
            if va != vb:
                probs.append(("%s/%s" % (what, k if k != "result" else "result-%s-vs-%s" % (va.get("kind"), vb.get("kind"))),
                              "%s: %r vs %r" % (k, va, vb)))
                break
    return probs


def judge(cfg, script):
    """All checks for one complete script.  Raises NeedMore if the script is short."""
    sync = run_real(cfg, script, False)
    probs = []
    if sync["consumed"] != len(script):
        return None, [("harness/script-not-consumed", "script %s consumed %d" % (script, sync["consumed"]))]
    try:
        asy = run_real(cfg, script, True)
    except NeedMore:
        return sync, [("sync-async/async-asks-more", "async resolver asked for more outcomes than sync after %s" % script)]
    probs += compare(asy, sync, "sync-async")
    if sync.get("second") not in (None, "same-answer", "same-exception"):
        if not (sync["result"]["kind"] == "Answer" and sync["result"]["ttl_left"] <= 0):
            probs.append(("cache/second-resolution-" + str(sync.get("second")).split(":")[0],
                          "second identical resolution right after: %s" % sync.get("second")))
    if sync.get("other_class_probe", "queried") != "queried":
        probs.append(("cache/other-class-" + sync["other_class_probe"].split(":")[0],
                      "after resolving in class %s, the same name/type in class IN was %s" % (cfg.get("rdclass"), sync["other_class_probe"])))
    ref = ref_resolve(cfg, script)
    if ref is None:
        probs.append(("model/real-terminated-early", "real resolver ended after %d outcomes, model wants more" % len(script)))
    else:
        ck = dict(sync)
        if "cache_keys" in ck:
            ck["cache_keys"] = sorted(ck["cache_keys"])
            ref = dict(ref, cache_keys=sorted(tuple(k) for k in ref["cache_keys"]))
        probs += compare(ck, ref, "model")
    probs += invariants(cfg, script, sync)
    return sync, probs


def recheck(case):
    try:
        _, probs = judge(case["cfg"], case["script"])
    except NeedMore:
        return []
    return [("C16/" + s, w) for s, w in probs]


def _tree_task(task, col):
    cfg, prefix = task
    alphabet = cfg["alphabet"]
    stack = [list(prefix)]
    budget = cfg.get("max_executions_per_shard", SHARD_CAP[0])
    n = 0
    nviol = 0
    while stack:
        script = stack.pop()
        n += 1
        if n > budget:
            # only reachable when the tree is far larger than on the unchanged code
            col.cap("outcome tree of config %r exceeded %d nodes in one shard; exploration cut" % (cfg["name"], budget))
            break
        try:
            obs, probs = judge(cfg, script)
        except NeedMore:
            col.count("transitions", len(alphabet))
            for o in reversed(alphabet):
                stack.append(script + [o])
            col.count("states")
            continue
        col.count("evaluations")
        col.count("states")
        col.max("max_depth", len(script))
        col.max("max_shard_nodes", n)
        if probs:
            nviol += 1
            if nviol >= 25:
                col.cap("shard of config %r stopped after 25 violating scripts" % cfg["name"])
                break
        kind = obs["result"]["kind"] if obs else "?"
        col.outcome("%s:%s" % (cfg["name"].split()[0], kind))
        col.nontrivial((cfg["name"], tuple(script)))
        if len(script) >= 3:
            col.sample({"config": cfg["name"], "script": script, "result": obs["result"] if obs else None,
                        "queries": obs["queries"] if obs else None}, limit=2)
        for s, w in probs:
            col.violation("C16/" + s, "%s (config %s, outcome script %s)" % (w, cfg["name"], script),
                          {"cfg": cfg, "script": script})


SHARD_CAP = [12000]

FULL = ["answer", "chain1", "nodata", "nxdomain", "servfail", "refused", "yxdomain", "formerr", "truncated",
        "timeout", "oserror", "eof", "nx-with-answer"]


def configs(ctx):
    base = dict(servers=2, timeout=1.0, lifetime=3.0, retry_servfail=False, search=[], ndots=None, qname="www.example.",
                tcp=False, raise_on_no_answer=True, search_arg=None, cache="none", alphabet=FULL)
    out = []

    def add(name, **kw):
        c = dict(base, **kw)
        c["name"] = name
        out.append(c)

    add("base 2 servers full alphabet")
    add("retry_servfail lifetime 1", retry_servfail=True, lifetime=1.0,
        alphabet=["answer", "nxdomain", "servfail", "timeout", "formerr", "truncated"])
    add("search www + [a., b.] 1 server", servers=1, qname="www", search=["a.", "b."], search_arg=True,
        alphabet=["answer", "nodata", "nxdomain", "servfail", "formerr", "timeout", "nx-with-answer"])
    add("search ndots2 a.b + [s.] 2 servers", qname="a.b", search=["s."], ndots=2, search_arg=True, lifetime=2.0,
        alphabet=["answer", "nxdomain", "refused", "truncated", "timeout"])
    add("search ndots2 a.b.c + [s.]", servers=1, qname="a.b.c", search=["s."], ndots=2, search_arg=True,
        alphabet=["answer", "nxdomain", "refused", "timeout"])
    add("domain fallback", servers=1, qname="www", domain="dom.", search_arg=True, alphabet=["answer", "nxdomain", "eof"])
    add("use_search_by_default", servers=1, qname="www", search=["a."], use_search_by_default=True, alphabet=["answer", "nxdomain", "oserror"])
    add("search disabled", servers=1, qname="www", search=["a."], search_arg=False, alphabet=["answer", "nxdomain", "formerr"])
    add("search arg False overrides use_search_by_default", servers=1, qname="www", search=["a."], use_search_by_default=True,
        search_arg=False, alphabet=["answer", "nxdomain", "formerr"])
    add("ndots 0", servers=1, qname="www", search=["s."], ndots=0, search_arg=True, alphabet=["answer", "nxdomain", "refused"])
    add("tcp", tcp=True, lifetime=2.0, alphabet=["answer", "truncated", "servfail", "timeout", "nxdomain", "formerr"])
    add("always_max_size server0", always_max=0, lifetime=2.0, alphabet=["answer", "truncated", "timeout", "refused"])
    add("no raise on no answer", raise_on_no_answer=False, alphabet=["answer", "nodata", "nodata-nosoa", "nxdomain", "refused", "chain2", "dangling-nodata", "dangling-nx", "danglingL-nodata"])
    add("dangling chains with cache", raise_on_no_answer=False, cache="cache", servers=1, alphabet=["dangling-nodata", "dangling-nx", "danglingL-nodata", "danglingL-nx", "answer", "timeout"])
    add("cname chains", servers=1, alphabet=["chain1", "chain15", "chain16", "chain17", "answer", "timeout"])
    add("cache Cache", cache="cache", qname="www", search=["a.", "b."], search_arg=True, servers=1,
        alphabet=["answer", "nodata", "nxdomain", "refused", "timeout", "chain1"])
    add("cache LRU 2 servers", cache="lru", alphabet=["answer", "nodata", "nxdomain", "servfail", "truncated", "chain2"])
    add("cache preload nx first candidate", cache="cache", qname="www", search=["a.", "b."], search_arg=True, servers=1,
        preload=[["www.a.", "nx"]], alphabet=["answer", "nxdomain", "refused"])
    add("cache preload hit second candidate", cache="lru", qname="www", search=["a.", "b."], search_arg=True, servers=1,
        preload=[["www.b.", "hit"]], alphabet=["answer", "nxdomain", "refused", "timeout"])
    add("cache preload nodata", cache="cache", preload=[["www.example.", "nodata"]], alphabet=["answer"])
    add("cache preload nodata no raise", cache="cache", raise_on_no_answer=False, preload=[["www.example.", "nodata"]], alphabet=["answer"])
    add("call lifetime override", call_lifetime=1.5, alphabet=["answer", "timeout", "servfail", "truncated"], retry_servfail=True)
    add("class CH TXT with cache", rdclass="CH", rdtype="TXT", cache="cache", servers=1, qname="www", search=["a."], search_arg=True,
        alphabet=["answer", "nodata", "nxdomain", "refused"])
    add("class CH TXT LRU no raise", rdclass="CH", rdtype="TXT", cache="lru", servers=1, raise_on_no_answer=False,
        alphabet=["answer", "nodata", "nxdomain", "timeout"])
    add("short timeout", timeout=0.4, lifetime=1.0, servers=1, alphabet=["answer", "timeout", "formerr"])
    add("3 servers short alphabet", servers=3, lifetime=2.0, alphabet=["answer", "servfail", "formerr", "truncated", "timeout"])
    add("2 candidates 2 servers retry_servfail", qname="www", search=["a."], search_arg=True, retry_servfail=True, lifetime=1.0,
        alphabet=["answer", "nxdomain", "servfail", "eof", "timeout"])
    add("async-relevant: tcp + always_max server1", tcp=False, always_max=1, lifetime=2.0, alphabet=["answer", "truncated", "servfail", "timeout", "oserror"])
    if not ctx.quick:
        add("3 servers", servers=3, lifetime=2.0,
            alphabet=["answer", "nxdomain", "servfail", "refused", "formerr", "truncated", "timeout"])
        add("retry_servfail lifetime 3 (2 servers)", retry_servfail=True, lifetime=3.0,
            alphabet=["answer", "servfail", "timeout", "formerr"])
        add("3 candidates 2 servers", qname="www", search=["a.", "b."], search_arg=True, lifetime=2.0,
            alphabet=["answer", "nxdomain", "servfail", "formerr", "timeout"])
        add("3 servers full alphabet lifetime 2", servers=3, lifetime=2.0, alphabet=FULL)
        add("2 servers full alphabet retry_servfail lifetime 1.5", retry_servfail=True, lifetime=1.5, alphabet=FULL)
        add("3 candidates 2 servers cache LRU", qname="www", search=["a.", "b."], search_arg=True, lifetime=2.0, cache="lru",
            alphabet=["answer", "nodata", "nxdomain", "servfail", "truncated", "timeout", "dangling-nx"])
        add("4 servers", servers=4, lifetime=1.5, alphabet=["answer", "servfail", "formerr", "truncated", "timeout"])
    return out


def run(ctx):
    ctx.rule = ("complete outcome tree of the real resolve() loop per configuration: a script of per-query outcomes is "
                "extended by every alphabet member whenever the resolver asks for one more outcome, until the resolver "
                "itself terminates (no depth cap; the virtual lifetime closes the tree); each complete script is run "
                "through the sync and the async resolver, compared with each other, with mc reference model of the stub "
                "algorithm and with model-independent invariants; distinct = distinct (config, complete script)")
    ctx.assume("nameservers are scripted dns.nameserver.Nameserver subclasses; dns.resolver.time/dns.asyncresolver.time are a virtual clock; a timeout outcome consumes exactly the offered timeout")
    ctx.assume("rotate off; no TSIG/EDNS variation (they do not influence the loop)")
    SHARD_CAP[0] = ctx.pick(12000, 400000)
    cfgs = configs(ctx)
    ctx.extra["shard_node_cap"] = SHARD_CAP[0]
    ctx.extra["configs"] = [{k: v for k, v in c.items()} for c in cfgs]
    tasks = []
    for c in cfgs:
        # shard on the first outcome (a resolution answered from the cache needs none)
        try:
            judge(c, [])
            tasks.append((c, []))
        except NeedMore:
            for a in c["alphabet"]:
                tasks.append((c, [a]))
    ctx.pmap(_tree_task, tasks, chunksize=1)
    ctx.counts["traces_validated_against_impl"] = 2 * ctx.counts.get("evaluations", 0)
