"""C13: inbound AXFR/IXFR converges to the server's zone or leaves the zone untouched.

Fault enumeration (E4).  Base scenarios are response streams for version chains over a small
record universe; every division into messages; every single fault at every position.  Each
case is fed to the real dns.xfr.Inbound the way dns.query._inbound_xfr does it (render ->
from_wire(xfr=True, origin, one_rr_per_rrset=is_ixfr) -> process_message inside `with`) on
three zone classes x relativize, and - a subset - through the real dns.query.inbound_xfr
with scripted sockets.  The judge is mc/refs/xfr.py (RFC 5936 / RFC 1995 interpreter).
"""
from __future__ import annotations

import copy
import itertools
import os
import socket
import struct
import threading

import dns.btreezone
import dns.exception
import dns.flags
import dns.message
import dns.name
import dns.query
import dns.rdata
import dns.rdataclass
import dns.rdataset
import dns.rdatatype
import dns.rrset
import dns.versioned
import dns.xfr
import dns.zone

from ..refs import xfr as ref

PROPERTY = "C13"
LEVEL = "fault_enumeration"

ORIGIN = dns.name.from_text("example.")
IN = dns.rdataclass.IN
MOD = 1 << 32

ZONE_KINDS = [("plain", True), ("plain", False), ("versioned", True), ("versioned", False),
              ("btree", True), ("btree", False)]
ZONE_CLASSES = {"plain": dns.zone.Zone, "versioned": dns.versioned.Zone,
                "btree": dns.btreezone.Zone}


# ---------------------------------------------------------------- hang protection
class HarnessDeadlock(BaseException):
    """A second writer was requested while the first is still open (would block forever)."""


class _Event:
    def __init__(self):
        self._f = False

    def set(self):
        self._f = True

    def is_set(self):
        return self._f

    def wait(self, timeout=None):
        if not self._f:
            raise HarnessDeadlock("writer requested while the previous write transaction is open")
        return True


class _Threading:
    Lock = threading.Lock
    RLock = threading.RLock
    Event = _Event

    def __getattr__(self, name):
        return getattr(threading, name)


dns.versioned.threading = _Threading()


# ---------------------------------------------------------------- record universe
def soa(serial, minimum=60, ttl=3600):
    return ("@", "SOA", ttl, ("ns1.example.", "admin.example.", serial, 7200, 900, 1209600, minimum))


NS1 = ("@", "NS", 300, "ns1.example.")
NS2 = ("@", "NS", 300, "ns2.example.")
A1 = ("a", "A", 300, "10.0.0.1")
A2 = ("a", "A", 300, "10.0.0.2")
A1L = ("a", "A", 900, "10.0.0.1")      # TTL change of the whole RRset
A2L = ("a", "A", 900, "10.0.0.2")
TX = ("b.a", "TXT", 600, '"t"')
MX = ("*.w", "MX", 300, "10 mail.example.")
EXTRA = ("x", "A", 300, "10.9.9.9")    # never part of any version: the surplus record
UNIVERSE = [NS1, NS2, A1, A2, TX, MX]
# signatures: RRsets that differ only in the covered type (a whole RRSIG RRset of one covered
# type disappears / is replaced in an incremental step, as in a re-signed zone)
SIGA = ("a", "RRSIG", 300, "A 8 2 300 20300101000000 20000101000000 1 example. AAAA")
SIGA2 = ("a", "RRSIG", 300, "A 8 2 300 20310101000000 20010101000000 2 example. BBBB")
SIGT = ("a", "RRSIG", 300, "TXT 8 2 300 20300101000000 20000101000000 1 example. CCCC")
SIGNS = ("@", "RRSIG", 300, "NS 8 1 300 20300101000000 20000101000000 1 example. DDDD")

CHAINS = {
    # adds, a changed record inside an RRset, an SOA-only step with a serial gap
    "A": [(soa(1), [NS1, A1]), (soa(2), [NS1, A1, TX]), (soa(3), [NS1, A2, TX]),
          (soa(5), [NS1, A2, TX])],
    # serial wrap 2^32-1 -> 0 -> 1 (serial 0 is a legal base serial and a falsy value), TTL change,
    # SOA ttl/minimum change, delete
    "B": [(soa(MOD - 1, 60, 3600), [NS1, NS2, A1]), (soa(0, 61, 1800), [NS1, NS2, A1L]),
          (soa(1, 61, 1800), [NS1, A1L, A2L])],
    # partial RRset deletion, several adds incl. wildcard owner / compressible rdata
    "C": [(soa(10), [NS1, A1, A2]), (soa(11), [NS1, A2]), (soa(12), [NS1, NS2, A2, TX, MX])],
    # signed zone: all signatures covering one type removed, then re-signed
    "D": [(soa(20), [NS1, SIGNS, A1, SIGA, SIGT]), (soa(21), [NS1, SIGNS, A1, SIGT]),
          (soa(22), [NS1, SIGNS, A1, SIGA2, SIGT])],
}


def order(recs):
    return sorted(recs, key=lambda r: (r[0] != "@", r[0], r[1], repr(r[3])))


def axfr_stream(ver):
    s, recs = ver
    return [s] + order(recs) + [s]


def ixfr_stream(path):
    out = [path[-1][0]]
    for old, new in zip(path, path[1:]):
        dels = [r for r in order(old[1]) if r not in new[1]]
        adds = [r for r in order(new[1]) if r not in old[1]]
        out += [old[0]] + dels + [new[0]] + adds
    out.append(path[-1][0])
    return out


def version_records(ver):
    return [ver[0]] + list(ver[1])


def scenarios(tier):
    """Base (fault-free) scenarios: dict(name, pre, serial, qtype, udp, stream)."""
    out = []

    def sc(name, pre, qtype, udp, stream):
        pre_recs = version_records(pre) if pre else []
        serial = pre[0][3][2] if (pre and qtype == "IXFR") else None
        out.append({"name": name, "pre": pre_recs, "serial": serial, "qtype": qtype,
                    "udp": udp, "stream": list(stream)})

    for cname, ch in CHAINS.items():
        v1, v2, v3 = ch[0], ch[1], ch[2]
        sc(cname + "/axfr-into-empty", None, "AXFR", False, axfr_stream(v3))
        sc(cname + "/axfr-over-v1", v1, "AXFR", False, axfr_stream(v3))
        sc(cname + "/ixfr-1delta", v1, "IXFR", False, ixfr_stream([v1, v2]))
        sc(cname + "/ixfr-2delta", v1, "IXFR", False, ixfr_stream([v1, v2, v3]))
        if len(ch) > 3:
            sc(cname + "/ixfr-3delta", v1, "IXFR", False, ixfr_stream(ch[:4]))
        sc(cname + "/ixfr-condensed", v1, "IXFR", False, ixfr_stream([v1, v3]))
        sc(cname + "/ixfr-axfrstyle", v1, "IXFR", False, axfr_stream(v3))
        sc(cname + "/ixfr-uptodate", v1, "IXFR", False, [v1[0]])
        sc(cname + "/udp-ixfr-1delta", v1, "IXFR", True, ixfr_stream([v1, v2]))
        sc(cname + "/udp-ixfr-2delta", v1, "IXFR", True, ixfr_stream([v1, v2, v3]))
        sc(cname + "/udp-ixfr-condensed", v1, "IXFR", True, ixfr_stream([v1, v3]))
        sc(cname + "/udp-ixfr-axfrstyle", v1, "IXFR", True, axfr_stream(v3))
        sc(cname + "/udp-ixfr-uptodate", v1, "IXFR", True, [v1[0]])
        sc(cname + "/udp-ixfr-usetcp", v1, "IXFR", True, [v3[0]])
        if cname == "B":
            # transfers whose base serial is 0 (the second version of the wrap chain)
            sc(cname + "/ixfr-from-serial-0", v2, "IXFR", False, ixfr_stream([v2, v3]))
            sc(cname + "/udp-ixfr-from-serial-0", v2, "IXFR", True, ixfr_stream([v2, v3]))
            sc(cname + "/ixfr-uptodate-serial-0", v2, "IXFR", False, [v2[0]])
    return out


def diff_scenarios(nrec):
    """Every ordered pair (S1, S2) of subsets of the first `nrec` universe records as a
    one-step IXFR (serial 7 -> 8) and as an AXFR of S2 over S1: every diff content."""
    uni = [NS1, A1, A2, TX, MX][:nrec]
    out = []
    subsets = [[r for i, r in enumerate(uni) if m >> i & 1] for m in range(1 << len(uni))]
    for i1, s1 in enumerate(subsets):
        for i2, s2 in enumerate(subsets):
            v1, v2 = (soa(7), s1), (soa(8), s2)
            out.append({"name": "D/ixfr %d->%d" % (i1, i2), "pre": version_records(v1), "serial": 7,
                        "qtype": "IXFR", "udp": False, "stream": ixfr_stream([v1, v2])})
            if s2:     # an SOA-only AXFR-style answer is the ambiguous SOA SOA form
                out.append({"name": "D/ixfr-axfrstyle %d->%d" % (i1, i2), "pre": version_records(v1),
                            "serial": 7, "qtype": "IXFR", "udp": False, "stream": axfr_stream(v2)})
            out.append({"name": "D/axfr %d->%d" % (i1, i2), "pre": version_records(v1), "serial": None,
                        "qtype": "AXFR", "udp": False, "stream": axfr_stream(v2)})
    return out


# ---------------------------------------------------------------- splits and faults
def all_splits(n):
    """Every division of n records into consecutive non-empty messages, as cut tuples."""
    if n <= 1:
        return [()]
    out = []
    for mask in range(1 << (n - 1)):
        out.append(tuple(i + 1 for i in range(n - 1) if mask >> i & 1))
    return out


def reduced_splits(n, maxcuts):
    if n <= 1:
        return [()]
    out = [()]
    for k in range(1, maxcuts + 1):
        out += list(itertools.combinations(range(1, n), k))
    full = tuple(range(1, n))
    if full not in out:
        out.append(full)
    return out


def splits_for(scn, n, mode, maxcuts=1):
    """Divisions to enumerate for a stream of n records.  Over UDP exactly one datagram is
    read, so divisions are enumerated by the length of the first datagram only."""
    if scn["udp"]:
        return [()] + [(p,) for p in range(1, n)]
    if mode == "all":
        return all_splits(n)
    return reduced_splits(n, maxcuts)


def cut(stream, cuts):
    msgs = []
    prev = 0
    for c in list(cuts) + [len(stream)]:
        msgs.append(stream[prev:c])
        prev = c
    return msgs


_generic_cache = {}


def generic_rdata(rec):
    """The same rdata octets under the private type TYPE65280 (RFC 3597 text form)."""
    key = (rec[1], rec[3])
    if key not in _generic_cache:
        w = rdata_obj(rec[1], rec[3]).to_wire()
        _generic_cache[key] = "\\# %d %s" % (len(w), w.hex()) if w else "\\# 0"
    return _generic_cache[key]


def with_serial(rec, serial):
    rd = list(rec[3])
    rd[2] = serial % MOD
    return (rec[0], rec[1], rec[2], tuple(rd))


def stream_faults(scn):
    """Every single stream-level fault at every position: (label, class, faulted stream)."""
    s = scn["stream"]
    n = len(s)
    base = scn["serial"]
    out = []
    for p in range(n):
        out.append(("drop@%d" % p, "drop", s[:p] + s[p + 1:]))
        out.append(("dup@%d" % p, "duplicate", s[:p + 1] + [s[p]] + s[p + 1:]))
        if p + 1 < n:
            out.append(("swap@%d" % p, "swap", s[:p] + [s[p + 1], s[p]] + s[p + 2:]))
        out.append(("trunc@%d" % p, "truncate", s[:p]))
    for what, rec in (("rec", EXTRA), ("soa", s[-1]), ("zonerec", s[1] if n > 2 else NS1)):
        out.append(("surplus-%s" % what, "surplus", s + [rec]))
    for p in range(n):
        r = s[p]
        if r[1] == "SOA":
            ser = r[3][2]
            alts = [("+1", ser + 1), ("-1", ser - 1), ("back2^31-1", ser - ((1 << 31) - 1)),
                    ("back2^31+1", ser - ((1 << 31) + 1)), ("half", ser + (1 << 31))]
            if base is not None:
                alts.append(("base", base))
            alts.append(("target", s[0][3][2]))
            for lab, v in alts:
                if v % MOD != ser:
                    out.append(("serial%s@%d" % (lab, p), "serial", s[:p] + [with_serial(r, v)] + s[p + 1:]))
        out.append(("owner-inzone@%d" % p, "owner", s[:p] + [("zz",) + r[1:]] + s[p + 1:]))
        out.append(("owner-apex@%d" % p, "owner", s[:p] + [("@",) + r[1:]] + s[p + 1:]))
        out.append(("owner-outofzone@%d" % p, "owner", s[:p] + [("other.",) + r[1:]] + s[p + 1:]))
        out.append(("type-generic@%d" % p, "type",
                    s[:p] + [(r[0], "TYPE65280", r[2], generic_rdata(r))] + s[p + 1:]))
        if r[1] != "SOA":
            out.append(("type-soa@%d" % p, "type", s[:p] + [(r[0], "SOA", r[2], s[0][3])] + s[p + 1:]))
    seen = {repr(s)}
    uniq = []
    for lab, cls, st in out:
        k = repr(st)
        if k in seen:
            continue
        seen.add(k)
        uniq.append((lab, cls, st))
    return uniq


SIBLING = {"A": "10.9.9.8", "NS": "nsx.example.", "TXT": '"zz"', "MX": "99 mx9.example."}


def sibling_faults(scn):
    """After every non-SOA record one more record of the same owner, type and TTL that no version
    holds: in a deletion part the pair is a deletion RRset that only partly matches the zone."""
    s = scn["stream"]
    out = []
    for p, r in enumerate(s):
        if r[1] in SIBLING:
            out.append(("sibling@%d" % p, "sibling", s[:p + 1] + [(r[0], r[1], r[2], SIBLING[r[1]])] + s[p + 1:]))
            out.append(("sibling-before@%d" % p, "sibling", s[:p] + [(r[0], r[1], r[2], SIBLING[r[1]])] + s[p:]))
    return out


# every route is judged by the strict reading of deletions (a deletion of a record the zone never held
# and the stream never deleted makes the stream invalid); C13_STRICT_ALL=0 restores the older reading
# ("either") on the one-RR-per-RRset routes for comparison
STRICT_ALL = os.environ.get("C13_STRICT_ALL", "1") != "0"
RCODES = [5, 2, 9]


def build_messages(stream, cuts, qmode, qtype):
    msgs = []
    for i, recs in enumerate(cut(stream, cuts)):
        q = None
        if qmode == "all" or (qmode == "first" and i == 0):
            q = ("@", qtype)
        msgs.append({"rcode": 0, "question": q, "records": [list(r) for r in recs]})
    return msgs


def message_faults(msgs, qtype, rcodes=RCODES):
    """Message-level single faults: rcode / wrong question on message k."""
    out = []
    other = "AXFR" if qtype == "IXFR" else "IXFR"
    for k in range(len(msgs)):
        for rc in rcodes:
            m = [dict(x) for x in msgs]
            m[k]["rcode"] = rc
            out.append(("rcode%d@m%d" % (rc, k), "rcode", m))
        for lab, q in (("qname", ("zz", qtype)), ("qtype", ("@", other)), ("qtype-soa", ("@", "SOA"))):
            m = [dict(x) for x in msgs]
            m[k]["question"] = q
            out.append(("%s@m%d" % (lab, k), "question", m))
    return out


# ---------------------------------------------------------------- dnspython glue
_rd_cache = {}


def rdata_obj(rtype, rdata):
    key = (rtype, rdata if not isinstance(rdata, list) else tuple(rdata))
    rd = _rd_cache.get(key)
    if rd is None:
        text = " ".join(str(x) for x in rdata) if isinstance(rdata, (tuple, list)) else rdata
        rd = dns.rdata.from_text(IN, rtype, text, origin=ORIGIN, relativize=False)
        _rd_cache[key] = rd
    return rd


def owner_name(owner):
    if owner == "@":
        return ORIGIN
    if owner.endswith("."):
        return dns.name.from_text(owner)
    return dns.name.from_text(owner, ORIGIN)


def name_owner(name):
    n = name.derelativize(ORIGIN)
    if n.is_subdomain(ORIGIN):
        r = n.relativize(ORIGIN)
        return "@" if len(r) == 0 else r.to_text().lower()
    return n.to_text().lower()


def rdata_key(rd):
    if rd.rdtype == dns.rdatatype.SOA:
        return (rd.mname.derelativize(ORIGIN).to_text().lower(),
                rd.rname.derelativize(ORIGIN).to_text().lower(),
                rd.serial, rd.refresh, rd.retry, rd.expire, rd.minimum)
    return rd.to_text(origin=ORIGIN, relativize=False)


_canon_cache = {}


def canon_record(rec):
    """Case record -> the canonical tuple the reference and the read-back use."""
    c = _canon_cache.get(rec)
    if c is None:
        owner, rtype, ttl, rdata = rec
        rd = rdata_obj(rtype, rdata)
        c = _canon_cache[rec] = (owner, dns.rdatatype.to_text(rd.rdtype), ttl, rdata_key(rd))
    return c


_wire_cache = {}


def render(msg):
    key = repr(msg)
    w = _wire_cache.get(key)
    if w is not None:
        return w
    m = dns.message.QueryMessage(id=0x1234)
    m.flags = dns.flags.QR | dns.flags.AA
    m.set_rcode(msg["rcode"])
    q = msg.get("question")
    if q is not None:
        m.question.append(dns.rrset.RRset(owner_name(q[0]), IN, dns.rdatatype.from_text(q[1])))
    for owner, rtype, ttl, rdata in msg["records"]:
        m.answer.append(dns.rrset.from_rdata(owner_name(owner), ttl, rdata_obj(rtype, rdata)))
    w = m.to_wire()
    if len(_wire_cache) > 20000:
        _wire_cache.clear()
    _wire_cache[key] = w
    return w


_pre_cache = {}


def pre_parts(relativize, pre):
    """Pre-state as two lists of (name, prebuilt rdataset); built once per pre-state."""
    key = (relativize, repr(pre))
    parts = _pre_cache.get(key)
    if parts is None:
        parts = []
        half = (len(pre) + 1) // 2
        for part in (pre[:half], pre[half:]):
            groups = {}
            for owner, rtype, ttl, rdata in part:
                name = owner_name(owner)
                rd = rdata_obj(rtype, rdata)
                if relativize:
                    name = name.relativize(ORIGIN)
                    rd = dns.rdata.from_text(IN, rtype, rd.to_text(), origin=ORIGIN,
                                             relativize=True, relativize_to=ORIGIN)
                g = groups.setdefault((name, rd.rdtype, rd.covers()),
                                      [name, dns.rdataset.Rdataset(IN, rd.rdtype, rd.covers())])
                g[1].add(rd, ttl)
            parts.append(list(groups.values()))
        _pre_cache[key] = parts
    return parts


def make_zone(kind, relativize, pre):
    z = ZONE_CLASSES[kind](ORIGIN, relativize=relativize)
    if kind != "plain":
        z.set_max_versions(3)
    if pre:
        # two transactions, so that versioned zones start with some history.  The first one
        # is a replacement (as a zone load does): on the e4ca1f6 snapshot a fresh
        # dns.btreezone.Zone could not open a plain writer - not this property's business.
        for i, part in enumerate(pre_parts(relativize, pre)):
            if not part:
                continue
            with z.writer(i == 0) as txn:
                for name, rds in part:
                    txn.add(name, rds.copy())
    return z


# read-back keys are cached per *object* (names and rdatas are immutable and shared between
# versions, snapshots and cached parsed messages); the object is kept alive with its key
_idcache = {}


def _cached(obj, fn):
    e = _idcache.get(id(obj))
    if e is None or e[0] is not obj:
        if len(_idcache) > 200000:
            _idcache.clear()
        e = (obj, fn(obj))
        _idcache[id(obj)] = e
    return e[1]


def nodes_content(nodes):
    out = []
    for name, node in nodes.items():
        o = _cached(name, name_owner)
        for rds in node.rdatasets:
            t = dns.rdatatype.to_text(rds.rdtype)
            for rd in rds:
                out.append((o, t, rds.ttl, _cached(rd, rdata_key)))
    return sorted(out, key=repr)


def snapshot(zone):
    """(content via a reader, version list identity+content)."""
    with zone.reader() as txn:
        content = sorted(((_cached(n, name_owner), dns.rdatatype.to_text(rds.rdtype), rds.ttl,
                           _cached(rd, rdata_key))
                          for n, rds in txn.iterate_rdatasets() for rd in rds), key=repr)
    versions = None
    if hasattr(zone, "_versions"):
        # the version objects themselves are kept (identity comparison, ids cannot be reused)
        versions = [(v, v.id, nodes_content(v.nodes)) for v in zone._versions]
    return content, versions


def writer_state(zone):
    if hasattr(zone, "_write_txn"):
        if zone._write_txn is not None:
            return "write transaction still open"
        if zone._write_waiters or zone._write_event is not None:
            return "writer queue not empty"
        if zone._readers:
            return "reader still registered"
    return None


class _EndOfScript(Exception):
    pass


_parse_cache = {}


def parse(w, origin, udp, is_ixfr):
    """dns.message.from_wire exactly as dns.query._inbound_xfr calls it.  The parse of one
    wire image is reused (Inbound only reads the message; parse errors are not cached)."""
    key = (w, origin is None, udp, is_ixfr)
    r = _parse_cache.get(key)
    if r is None:
        r = dns.message.from_wire(w, xfr=True, origin=origin, multi=(not udp),
                                  one_rr_per_rrset=is_ixfr)
        if len(_parse_cache) > 20000:
            _parse_cache.clear()
        _parse_cache[key] = r
    return r


def group_adjacent(msg):
    """The same message with adjacent answer RRs of one owner/class/type/covered type (SOA
    excepted) held as one RRset, as a caller that builds or regroups messages itself hands them
    to Inbound.process_message: the order of the records is what it was."""
    out = []
    for rrset in msg.answer:
        last = out[-1] if out else None
        if (last is not None and rrset.rdtype != dns.rdatatype.SOA and last.name == rrset.name
                and last.rdclass == rrset.rdclass and last.rdtype == rrset.rdtype
                and last.covers == rrset.covers and last.ttl == rrset.ttl):
            merged = dns.rrset.RRset(last.name, last.rdclass, last.rdtype, last.covers)
            merged.update(last)
            merged.update(rrset)
            out[-1] = merged
        else:
            out.append(rrset)
    m2 = copy.copy(msg)
    m2.sections = [msg.sections[0], out, msg.sections[2], msg.sections[3]]
    return m2


def drive_direct(zone, case, states):
    """The route of dns.query._inbound_xfr without the socket."""
    qtype = case["qtype"]
    rdtype = dns.rdatatype.from_text(qtype)
    is_ixfr = qtype == "IXFR"
    udp = case["udp"]
    origin = zone.from_wire_origin()
    wires = [render(m) for m in case["messages"]]
    try:
        with dns.xfr.Inbound(zone, rdtype, case["serial"], udp) as inbound:
            done = False
            for w in wires:
                r = parse(w, origin, udp, is_ixfr)
                if case.get("grouped"):
                    r = group_adjacent(r)
                try:
                    done = inbound.process_message(r)
                finally:
                    states.append((inbound.incremental, inbound.delete_mode, inbound.expecting_SOA,
                                   inbound.done, inbound.txn is None))
                if done:
                    break
            if not done:
                raise _EndOfScript()
    except _EndOfScript:
        return "unfinished", None
    except HarnessDeadlock as e:
        return "exception", e
    except Exception as e:
        return "exception", e
    return "done", None


# ---- scripted sockets for the real dns.query.inbound_xfr
class ScriptedStream:
    type = socket.SOCK_STREAM
    family = socket.AF_INET

    def __init__(self, wires, chunk):
        self.buf = b"".join(struct.pack("!H", len(w)) + w for w in wires)
        self.chunk = chunk
        self.sent = b""

    def setblocking(self, flag):
        pass

    def bind(self, addr):
        pass

    def connect_ex(self, addr):
        return 0

    def send(self, data):
        self.sent += bytes(data)
        return len(data)

    def recv(self, n):
        k = min(n, self.chunk)
        out, self.buf = self.buf[:k], self.buf[k:]
        return out      # b"" at the end of the script: EOF

    def close(self):
        pass

    def __enter__(self):
        return self

    def __exit__(self, *a):
        return False


class ScriptedDatagram(socket.socket):
    """A real (never used) UDP socket object so that isinstance/type checks hold."""

    def __init__(self, wires):
        super().__init__(socket.AF_INET, socket.SOCK_DGRAM)
        self.script = list(wires)
        self.sent = b""

    def connect_ex(self, addr):
        return 0

    def bind(self, addr):
        pass

    def send(self, data, *a):
        self.sent += bytes(data)
        return len(data)

    def sendto(self, data, *a):
        self.sent += bytes(data)
        return len(data)

    def recvfrom(self, n, *a):
        if not self.script:
            raise dns.exception.Timeout
        return self.script.pop(0), ("10.0.0.1", 53)


def drive_socket(zone, case):
    """Through the real dns.query.inbound_xfr with dns.query.socket_factory scripted."""
    mode = case["udp_mode"]
    made = []
    udp_wires = [render(m) for m in case.get("udp_messages", [])]
    tcp_wires = [render(m) for m in case.get("tcp_messages", [])]

    def factory(af, kind, proto):
        if kind == socket.SOCK_DGRAM:
            s = ScriptedDatagram(udp_wires)
        else:
            s = ScriptedStream(tcp_wires, case.get("chunk", 65535))
        made.append(s)
        return s

    if case["qtype"] == "AXFR":
        query, _ = dns.xfr.make_query(zone, serial=None)
    else:
        query = None       # let inbound_xfr call make_query(zone) itself
    saved = dns.query.socket_factory
    dns.query.socket_factory = factory
    try:
        try:
            dns.query.inbound_xfr("10.0.0.1", zone, query=query,
                                  udp_mode=getattr(dns.query.UDPMode, mode))
            res = ("done", None)
        except EOFError as e:
            res = ("exception", e)
        except HarnessDeadlock as e:
            res = ("exception", e)
        except Exception as e:
            res = ("exception", e)
    finally:
        dns.query.socket_factory = saved
        sent = []
        for s in made:
            sent.append((s.type == socket.SOCK_DGRAM, s.sent))
            if isinstance(s, socket.socket):
                socket.socket.close(s)
    return res[0], res[1], sent


def check_query(sent, case):
    """The query on the wire must ask for the zone with the zone's own serial."""
    probs = []
    for is_udp, data in sent:
        if not is_udp:
            if len(data) < 2 or struct.unpack("!H", data[:2])[0] != len(data) - 2:
                probs.append(("query/tcp-framing", "TCP query is not one length-prefixed message"))
                continue
            data = data[2:]
        try:
            q = dns.message.from_wire(data)
            qq = q.question[0]
            ok = qq.name == ORIGIN and dns.rdatatype.to_text(qq.rdtype) == case["qtype"]
            if case["qtype"] == "IXFR":
                auth = [rd.serial for rr in q.authority if rr.rdtype == dns.rdatatype.SOA
                        and rr.name == ORIGIN for rd in rr]
                ok = ok and auth == [case["serial"]]
                if dns.xfr.extract_serial_from_query(q) != case["serial"]:
                    ok = False
            else:
                ok = ok and not q.authority and dns.xfr.extract_serial_from_query(q) is None
        except Exception as e:
            probs.append(("query/unparsable", "%s: %s" % (type(e).__name__, e)))
            continue
        if not ok:
            probs.append(("query/wrong-question-or-serial", "query sent: %s" % q.to_text().replace("\n", " | ")))
    return probs


# ---------------------------------------------------------------- the oracle
def expected_verdict(case, pre_zone):
    # strict: a deletion of a record the zone never held (and the stream never deleted) is invalid
    strict = bool(case.get("grouped")) or STRICT_ALL
    if case["route"] == "direct":
        return ref.interpret(pre_zone, case["serial"], case["qtype"], case["udp"],
                             canon_messages(case["messages"]), strict_delete=strict)
    mode = case["udp_mode"]
    if mode == "NEVER" or case["qtype"] == "AXFR":
        return ref.interpret(pre_zone, case["serial"], case["qtype"], False,
                             canon_messages(case["tcp_messages"]), strict_delete=strict)
    v = ref.interpret(pre_zone, case["serial"], "IXFR", True, canon_messages(case["udp_messages"]),
                      strict_delete=strict)
    if mode == "TRY_FIRST" and v.reason == "use-tcp":
        return ref.interpret(pre_zone, case["serial"], "IXFR", False,
                             canon_messages(case["tcp_messages"]), strict_delete=strict)
    return v


def canon_messages(msgs):
    out = []
    for m in msgs:
        q = m.get("question")
        out.append({"rcode": m["rcode"], "question": tuple(q) if q is not None else None,
                    "records": [canon_record(tuple(r)) for r in m["records"]]})
    return out


def exc_label(e):
    return type(e).__name__


def run_case(case, col=None):
    """Execute one case on the real code and judge it.  Returns [(signature, what)]."""
    case = dict(case)
    case["pre"] = [tuple(r) if not isinstance(r[3], list) else (r[0], r[1], r[2], tuple(r[3]))
                   for r in case["pre"]]
    for key in ("messages", "udp_messages", "tcp_messages"):
        if key in case:
            case[key] = [{"rcode": m["rcode"],
                          "question": tuple(m["question"]) if m.get("question") is not None else None,
                          "records": [(r[0], r[1], r[2], tuple(r[3]) if isinstance(r[3], list) else r[3])
                                      for r in m["records"]]} for m in case[key]]
    pre_canon = [canon_record(r) for r in case["pre"]]
    pre_zone = ref.zone_of(pre_canon)
    verdict = expected_verdict(case, pre_zone)
    zone = make_zone(case["zone"], case["relativize"], case["pre"])
    before = snapshot(zone)
    probs = []
    if sorted(pre_canon, key=repr) != before[0]:
        raise AssertionError("harness: pre-state not loaded as described: %r vs %r" % (pre_canon, before[0]))
    states = []
    sent = None
    if case["route"] == "direct":
        outcome, exc = drive_direct(zone, case, states)
    else:
        outcome, exc, sent = drive_socket(zone, case)
    after = snapshot(zone)
    ws = writer_state(zone)
    reason = verdict.reason
    if col is not None:
        for st in states:
            col.count("state inc=%d del=%d expSOA=%d done=%d txn_closed=%d" % tuple(int(x) for x in st))
        lab = outcome if exc is None else "exception:" + exc_label(exc)
        col.outcome("%s | ref %s %s" % (lab, verdict.kind, reason))
        col.count("accepted" if outcome == "done" else "rejected")
        col.count("ref_" + verdict.kind)
        if exc is not None:
            col.count("exc_" + exc_label(exc))
    if isinstance(exc, HarnessDeadlock):
        probs.append(("writer-deadlock", "a second writer was requested while the transfer's write "
                      "transaction was still open (would block forever); ref: %s" % reason))
    if ws is not None:
        probs.append(("writer-not-released/%s" % outcome,
                      "%s after the transfer ended (%s); ref: %s" % (ws, outcome, reason)))
    changed = after[0] != before[0]
    vchanged = after[1] != before[1]
    if outcome in ("exception", "unfinished"):
        what_exc = "%s(%s)" % (exc_label(exc), exc) if exc is not None else "transfer left unfinished"
        if changed or vchanged:
            cls = "applied-then-error" if outcome == "exception" else "unfinished-but-changed"
            probs.append(("%s/%s/%s" % (cls, exc_label(exc) if exc is not None else "none", reason),
                          "%s but the zone %s changed: before %s after %s (reference: %s)" % (
                              what_exc, "content" if changed else "version list", before[0], after[0], verdict)))
        if not verdict.may_fail:
            probs.append(("valid-stream-rejected/%s/%s" % (exc_label(exc) if exc is not None else "unfinished", reason),
                          "reference says the stream is valid (%s) but the transfer failed: %s" % (verdict, what_exc)))
    else:
        if not verdict.results:
            probs.append(("invalid-stream-accepted/%s" % reason,
                          "reference says invalid (%s) but the transfer reported success; zone now %s" % (
                              reason, after[0])))
        elif not any(ref.zone_matches(z, after[0]) for z in verdict.results):
            probs.append(("wrong-zone/%s" % reason,
                          "transfer reported success but the zone is %s, expected %s" % (
                              after[0], [ref.records_of(z) for z in verdict.results])))
        elif versions_bad(before, after, changed):
            probs.append(("version-list/%s" % reason, versions_bad(before, after, changed)))
    if sent is not None:
        probs += check_query(sent, case)
    return [("C13/" + s, w) for s, w in probs]


def versions_bad(before, after, changed):
    """After success the newest version of a versioned zone is the zone content, and older
    versions that are still listed are unmodified."""
    if after[1] is None:
        return None
    if after[1][-1][2] != after[0]:
        return "newest listed version differs from what a reader sees"
    for v, _, c in after[1]:
        for v0, _, c0 in before[1]:
            if v is v0 and c != c0:
                return "a retained older version was modified in place"
    return None


def recheck(case):
    return run_case(case)


# ---------------------------------------------------------------- enumeration
def case_key(case):
    return (case["route"], bool(case.get("grouped")), case["qtype"], case.get("udp"), case.get("udp_mode"), repr(case["pre"]),
            repr(case.get("messages")), repr(case.get("udp_messages")), repr(case.get("tcp_messages")))


def judge(col, case, kinds, label):
    col.nontrivial(case_key(case))
    for kind, rel in kinds:
        c = dict(case, zone=kind, relativize=rel, label=label)
        col.count("evaluations")
        col.count("evaluations_" + c["route"])
        res = run_case(c, col)
        if res:
            for sig, what in res:
                col.violation(sig, "[%s zone=%s relativize=%s] %s" % (label, kind, rel, what), c)
        if col.counts["evaluations"] % 5000 == 1:
            col.sample({"label": label, "zone": kind, "relativize": rel, "qtype": case["qtype"],
                        "messages": case.get("messages", case.get("tcp_messages"))}, limit=3)


def direct_case(scn, msgs):
    return {"route": "direct", "pre": scn["pre"], "serial": scn["serial"], "qtype": scn["qtype"],
            "udp": scn["udp"], "messages": msgs}


def work(task, col):
    section, si, k, K, cfg = task
    kinds = [ZONE_KINDS[i] for i in cfg["kinds"]]
    if section == "diffs":
        idx = 0
        for scn in diff_scenarios(cfg["diff_records"]):
            n = len(scn["stream"])
            for cuts in splits_for(scn, n, "all" if n <= cfg["diff_full_upto"] else "reduced", 1):
                idx += 1
                if idx % K != k:
                    continue
                msgs = build_messages(scn["stream"], cuts, "all", scn["qtype"])
                col.count("base_cases")
                col.count("diff_cases")
                judge(col, direct_case(scn, msgs), kinds, "%s split=%s" % (scn["name"], list(cuts)))
        return
    scn = scenarios(cfg["tier"])[si]
    n = len(scn["stream"])
    idx = 0
    if section == "splits":
        # fault-free stream, EVERY division into messages, every question mode
        for cuts in splits_for(scn, n, "all"):
            for qmode in cfg["qmodes"]:
                idx += 1
                if idx % K != k:
                    continue
                msgs = build_messages(scn["stream"], cuts, qmode, scn["qtype"])
                col.count("base_cases")
                judge(col, direct_case(scn, msgs), kinds, "%s split=%s q=%s" % (scn["name"], list(cuts), qmode))
    elif section == "faults":
        for lab, cls, st in stream_faults(scn):
            m = len(st)
            sp = splits_for(scn, m, "all" if m <= cfg["full_split_upto"] else "reduced", cfg["maxcuts"])
            for cuts in sp:
                for qmode in cfg["fault_qmodes"]:
                    idx += 1
                    if idx % K != k:
                        continue
                    msgs = build_messages(st, cuts, qmode, scn["qtype"]) if m else \
                        [{"rcode": 0, "question": ("@", scn["qtype"]) if qmode != "none" else None, "records": []}]
                    col.count("fault_cases")
                    col.count("fault_" + cls)
                    judge(col, direct_case(scn, msgs), kinds,
                          "%s fault=%s split=%s q=%s" % (scn["name"], lab, list(cuts), qmode))
    elif section == "msgfaults":
        for cuts in splits_for(scn, n, "all" if n <= cfg["msgfault_full_upto"] else "reduced", cfg["maxcuts"]):
            base = build_messages(scn["stream"], cuts, "all", scn["qtype"])
            for lab, cls, msgs in message_faults(base, scn["qtype"], RCODES[:cfg["rcodes"]]):
                idx += 1
                if idx % K != k:
                    continue
                col.count("fault_cases")
                col.count("fault_" + cls)
                judge(col, direct_case(scn, msgs), kinds,
                      "%s fault=%s split=%s" % (scn["name"], lab, list(cuts)))
    elif section == "grouped":
        # Inbound.process_message fed with messages whose adjacent RRs of one RRset are grouped
        for lab, cls, st in [("none", "none", scn["stream"])] + sibling_faults(scn):
            for cuts in reduced_splits(len(st), 1):
                idx += 1
                if idx % K != k:
                    continue
                msgs = build_messages(st, cuts, "all", scn["qtype"])
                col.count("grouped_cases")
                judge(col, dict(direct_case(scn, msgs), grouped=True), kinds,
                      "%s grouped fault=%s split=%s" % (scn["name"], lab, list(cuts)))
    elif section == "socket":
        streams = [("none", "none", scn["stream"])]
        if cfg["socket_faults"]:
            streams += stream_faults(scn)
        use_tcp_form = [{"rcode": 0, "question": ("@", "IXFR"), "records": [list(scn["stream"][0])]}]
        for lab, cls, st in streams:
            m = len(st)
            if m == 0:
                continue
            for cuts in reduced_splits(m, 1 if (lab == "none" or cfg["socket_faults"]) else 0):
                idx += 1
                if idx % K != k:
                    continue
                msgs = build_messages(st, cuts, "all", scn["qtype"])
                base = {"route": "socket", "pre": scn["pre"], "serial": scn["serial"], "qtype": scn["qtype"]}
                variants = []
                if scn["udp"]:
                    variants.append(dict(base, udp_mode="ONLY", udp_messages=msgs, tcp_messages=[]))
                    variants.append(dict(base, udp_mode="TRY_FIRST", udp_messages=msgs, tcp_messages=[]))
                else:
                    variants.append(dict(base, udp_mode="NEVER", udp_messages=[], tcp_messages=msgs,
                                         chunk=(1 if idx % 2 else 65535)))
                    if scn["qtype"] == "IXFR" and len(scn["stream"]) > 1:
                        # UDP first, server says "use TCP", then the stream over TCP
                        variants.append(dict(base, udp_mode="TRY_FIRST", udp_messages=use_tcp_form,
                                             tcp_messages=msgs, chunk=65535))
                        variants.append(dict(base, udp_mode="ONLY", udp_messages=use_tcp_form, tcp_messages=msgs))
                for c in variants:
                    col.count("socket_cases")
                    judge(col, c, kinds, "%s socket %s fault=%s split=%s" % (scn["name"], c["udp_mode"], lab, list(cuts)))


def run(ctx):
    tier = ctx.tier
    scns = scenarios(tier)
    if ctx.quick:
        cfg = {"tier": tier, "kinds": [0, 1, 2, 3, 4, 5], "qmodes": ["none", "all"],
               "fault_qmodes": ["all"], "full_split_upto": 6, "maxcuts": 1,
               "msgfault_full_upto": 6, "socket_faults": False, "rcodes": 1,
               "diff_records": 3, "diff_full_upto": 6}
        per_task = 2500
    else:
        cfg = {"tier": tier, "kinds": [0, 1, 2, 3, 4, 5], "qmodes": ["none", "all", "first"],
               "fault_qmodes": ["all", "none"], "full_split_upto": 8, "maxcuts": 2,
               "msgfault_full_upto": 8, "socket_faults": True, "rcodes": 3,
               "diff_records": 5, "diff_full_upto": 7}
        per_task = 6000
    ctx.rule = ("case = (pre-state zone, query type, transport, sequence of messages each with rcode, optional "
                "question and records); enumerated as: every base scenario (3 version chains x {AXFR into empty / "
                "over v1, IXFR 1/2/3 deltas, condensed, AXFR-style, up-to-date, UDP forms, UDP 'use TCP'}) x EVERY "
                "division of the stream into messages x question modes; every ordered pair of subsets of a 3 (quick) / 5 "
                "(thorough) record universe as one-step IXFR, AXFR-style IXFR and AXFR over the old content; every single stream fault at every position "
                "(drop, duplicate, swap, truncate, surplus record/SOA after the final SOA, serial +1/-1/base/target/"
                "backwards 2^31+-1/2^31, owner in-zone/apex/out-of-zone, type generic/SOA) x divisions (all when "
                "short, else <= maxcuts cuts + one-record-per-message); every message-level fault (rcode, wrong "
                "question) on every message; every TCP IXFR scenario once more through Inbound.process_message with adjacent RRs of one RRset grouped, fault-free and with one never-held sibling record after/before every non-SOA record (a deletion RRset that only partly matches the zone must be refused).  Each case runs on 3 zone classes x relativize.  Distinct/non-trivial "
                "= distinct (pre-state, query, transport, message sequence); zone kinds replicate it.")
    ctx.assume("one zone origin (example.), class IN, no TSIG, no EDNS; record universe of 6 records + SOA")
    ctx.assume("single faults only; faulted streams longer than full_split_upto records use the reduced split set")
    ctx.assume("out-of-zone records, repeated deletions of one record / adds of present records, AXFR duplicates, "
               "SOA(T) SOA(T) and serial differences of exactly 2^31 are judged 'either' (only: error => unchanged, "
               "success => one of the acceptable zones); a deletion of a record the zone never held and the stream "
               "never deleted is judged invalid (the difference sequence is based on other content: must fail, "
               "zone untouched)")
    ctx.extra["bounds"] = dict(cfg, per_task=per_task)
    ctx.extra["scenarios"] = {s["name"]: len(s["stream"]) for s in scns}
    ctx.extra["zone_kinds"] = ["%s/relativize=%s" % zk for zk in ZONE_KINDS]
    ctx.extra["universe"] = [list(map(str, r)) for r in UNIVERSE]
    tasks = []
    nk = len(cfg["kinds"])
    _ns = {}

    def nsplits(scn, m, mode, maxcuts=1):
        key = (scn["udp"], m, mode, maxcuts)
        if key not in _ns:
            _ns[key] = [len(c) + 1 for c in splits_for(scn, m, mode, maxcuts)]   # messages per division
        return _ns[key]

    def chunks(section, si, size):
        K = max(1, -(-size * nk // per_task))
        return [(section, si, k, K, cfg) for k in range(K)]

    for si, scn in enumerate(scns):
        n = len(scn["stream"])
        tasks += chunks("splits", si, len(nsplits(scn, n, "all")) * len(cfg["qmodes"]))
        faults = stream_faults(scn)
        size = sum(len(nsplits(scn, len(st), "all" if len(st) <= cfg["full_split_upto"] else "reduced",
                               cfg["maxcuts"])) for _, _, st in faults) * len(cfg["fault_qmodes"])
        tasks += chunks("faults", si, size)
        size = sum(nsplits(scn, n, "all" if n <= cfg["msgfault_full_upto"] else "reduced", cfg["maxcuts"])) \
            * (cfg["rcodes"] + 3)
        tasks += chunks("msgfaults", si, size)
        if scn["qtype"] == "IXFR" and not scn["udp"]:
            tasks += chunks("grouped", si, sum(len(reduced_splits(len(st), 1)) for _, _, st in
                                               [(0, 0, scn["stream"])] + sibling_faults(scn)))
        smax = 1 if cfg["socket_faults"] else 0
        size = 3 * (len(reduced_splits(n, 1)) + (sum(len(reduced_splits(len(st), smax)) for _, _, st in faults)
                                                 if cfg["socket_faults"] else 0))
        tasks += chunks("socket", si, size)
    size = 0
    for scn in diff_scenarios(cfg["diff_records"]):
        n = len(scn["stream"])
        size += len(splits_for(scn, n, "all" if n <= cfg["diff_full_upto"] else "reduced", 1)) * nk
    K = max(1, -(-size // per_task))
    tasks += [("diffs", 0, k, K, cfg) for k in range(K)]
    ctx.extra["diff_pairs"] = (1 << cfg["diff_records"]) ** 2
    ctx.extra["tasks"] = len(tasks)
    ctx.pmap(work, tasks)
    ctx.extra["inbound_state_tuples_visited"] = sorted(k[6:] for k in ctx.counts if k.startswith("state "))
