"""C14: TSIG MACs follow RFC 8945; genuine messages verify, altered ones never do.

Fault enumeration on the real dns.message / dns.tsig / dns.renderer code:

* sign    every point of  algorithm x message kind x key name x secret x fudge x time x
          error/other x original-id x role  is signed by the library (Message.use_tsig +
          to_wire, Renderer.add_tsig) and the emitted MAC / TSIG fields are compared with the
          independent RFC 8945 digest computed from the raw bytes (mc/refs/tsig.py); the
          message is parsed back with every keyring form at now = signed and at
          signed +- fudge (+-1) through the rebound `dns.message.time` seam.
* tamper  for a (tier-dependent) subset of those messages: EVERY single bit is flipped;
          wrong secret / key name / algorithm; request MAC missing, replaced, every bit of it
          flipped; MAC shortened / lengthened.
* errors  every non-zero TSIG error code on a correctly MAC'ed message must be rejected.
* place   TSIG not last / duplicated / in another section / wrong class is a FormError.
* multi   envelope sequences of 2..5 messages: all signed by the library (MAC by MAC against
          the reference chain) and, with every subset of intermediate envelopes unsigned,
          signed by the reference signer; both must validate envelope by envelope; every bit
          of every envelope, dropping / swapping / replaying envelopes must break the chain.
"""
from __future__ import annotations

import base64
import itertools
import struct
import traceback

import dns.exception
import dns.flags
import dns.message
import dns.name
import dns.rdata
import dns.rdataclass
import dns.rdatatype
import dns.renderer
import dns.tsig
import dns.tsigkeyring
import dns.update

from ..refs import tsig as ref

PROPERTY = "C14"
LEVEL = "fault_enumeration"


# ---------------------------------------------------------------- time seam
class Clock:
    """Stands in for the `time` module inside dns.message / dns.renderer (both call only
    time.time()).  The fraction checks that the callers truncate to whole seconds."""

    def __init__(self):
        self.now = 0

    def time(self):
        return self.now + 0.25


CLOCK = Clock()
dns.message.time = CLOCK
dns.renderer.time = CLOCK

NOW = 1_700_000_000
TIMES = {"zero": 0, "now": NOW, "big": (1 << 32) + 5}

ALGS = list(ref.ALGORITHMS)          # the 9 HMAC algorithm names dns.tsig.HMACTSig supports
KINDS = ["query", "response-opt", "update", "root"]
KEYNAMES = ["k.", "Key.Example."]
SECRETS = [32, 1, 200, 0]      # 0: the empty secret (a legal HMAC key, and a falsy value in Python)
FUDGES = [300, 0, 65535]
TIMEKEYS = ["now", "zero", "big"]
ERRS = [0, 18, 3862]      # none, BADTIME (with 6 octets of other data), a 12-bit extended code
ORIGS = ["same", "diff", "zero"]     # original id: the message id, another id, 0 (a falsy id)
ROLES = ["request", "response"]
FORMS = ["dict", "key", "callable", "dict-bytes", "tsigkeyring"]

MSG_ID = 0x1234
OTHER_ID = 0x4321


def orig_arg(case):
    """original_id argument: None (= take the message id), another id, or 0."""
    return {"diff": OTHER_ID, "zero": 0}.get(case.get("orig"))


def orig_value(case):
    return {"diff": OTHER_ID, "zero": 0}.get(case.get("orig"), MSG_ID)
REQUEST_MAC_SEED = b"request-mac-seed"


def secret_of(n, salt=0):
    return bytes(((i * 7 + 3 + salt * 11) & 0xFF) or 1 for i in range(n))


def request_mac_for(alg):
    """A plausible request MAC: as long as the algorithm's MAC."""
    size = ref.ALGORITHMS[alg][1]
    return bytes((i * 13 + 5) & 0xFF for i in range(size))


# ---------------------------------------------------------------- messages
def build_message(kind, mid=MSG_ID):
    if kind == "query":
        return dns.message.make_query("www.example.", "A", id=mid)
    if kind == "root":
        return dns.message.make_query(".", "NS", id=mid)
    if kind == "response-opt":
        q = dns.message.make_query("www.example.", "A", id=mid, use_edns=0, payload=1232)
        m = dns.message.make_response(q, recursion_available=True, our_payload=1232)
        m.flags |= dns.flags.AA
        rr = m.find_rrset(m.answer, dns.name.from_text("www.example."), dns.rdataclass.IN,
                          dns.rdatatype.A, create=True)
        rr.update_ttl(300)
        for a in ("192.0.2.1", "192.0.2.2"):
            rr.add(dns.rdata.from_text("IN", "A", a))
        ns = m.find_rrset(m.authority, dns.name.from_text("example."), dns.rdataclass.IN,
                          dns.rdatatype.NS, create=True)
        ns.update_ttl(3600)
        ns.add(dns.rdata.from_text("IN", "NS", "ns.example."))
        return m
    if kind == "update":
        m = dns.update.UpdateMessage("example.", id=mid)
        m.add("host", 300, "A", "192.0.2.7")
        m.delete("old", "TXT")
        return m
    raise ValueError(kind)


def build_envelope(i, n, mid=MSG_ID):
    """Envelope i of an n-envelope AXFR-like answer stream; all envelopes differ."""
    q = dns.message.make_query("example.", "AXFR", id=mid)
    m = dns.message.make_response(q)
    m.flags |= dns.flags.AA
    origin = dns.name.from_text("example.")
    if i == 0 or i == n - 1:
        rr = m.find_rrset(m.answer, origin, dns.rdataclass.IN, dns.rdatatype.SOA, create=True)
        rr.update_ttl(3600)
        rr.add(dns.rdata.from_text("IN", "SOA", "ns.example. h.example. 7 3600 600 86400 60"))
    if i != n - 1:
        rr = m.find_rrset(m.answer, dns.name.from_text("h%d.example." % i), dns.rdataclass.IN,
                          dns.rdatatype.A, create=True)
        rr.update_ttl(300)
        rr.add(dns.rdata.from_text("IN", "A", "192.0.2.%d" % (10 + i)))
    return m


# the library's own algorithm constants (HMAC_MD5 is spelled in upper case there)
LIB_ALGS = {str(n).lower(): n for n in dns.tsig.mac_sizes if n != dns.tsig.GSS_TSIG}


def lib_key(case, secret=None, name=None, alg=None):
    alg = alg or case["alg"]
    return dns.tsig.Key(dns.name.from_text(name or case["keyname"]),
                        case_secret(case) if secret is None else secret,
                        LIB_ALGS.get(alg) or dns.name.from_text(alg))


def case_secret(case):
    return secret_of(case["secret_len"])


def keyring_of(form, key):
    if form == "dict":
        return {key.name: key}
    if form == "dict-bytes":
        return {key.name: key.secret}
    if form == "callable":
        return lambda message, keyname: key if keyname == key.name else None
    if form == "tsigkeyring":
        return dns.tsigkeyring.from_text(
            {key.name.to_text(): (key.algorithm.to_text(), base64.b64encode(key.secret).decode())})
    return key


def other_data_for(err, t):
    if err == ref.BADTIME:
        return ref.time48(min(t + 1000, (1 << 48) - 1))
    return b""


def use_tsig(m, case, key, form):
    err = case.get("err", 0)
    kw = dict(fudge=case["fudge"], tsig_error=err,
              other_data=other_data_for(err, TIMES[case["time"]]),
              original_id=orig_arg(case))
    if form == "key":
        m.use_tsig(key, **kw)
    elif form == "dict-bytes":
        m.use_tsig({key.name: key.secret}, keyname=key.name, algorithm=key.algorithm, **kw)
    elif form == "callable":
        m.use_tsig(lambda message, keyname: key, keyname=key.name, **kw)
    elif form == "tsigkeyring":
        m.use_tsig(keyring_of(form, key), **kw)        # no key name: the first key of the ring is used
    else:
        m.use_tsig({key.name: key}, keyname=key.name, **kw)


def crash_sig(e):
    tb = traceback.extract_tb(e.__traceback__)
    fn = tb[-1].name if tb else "?"
    return "%s@%s" % (type(e).__name__, fn)


def validate(wire, keyring, request_mac, now, multi=False, ctx=None):
    """Run the library's validator.  Returns (verdict, label, message/None) with verdict in
    ok (validated, had_tsig) / unsigned (parsed, no TSIG seen) / rej (DNSException) / crash."""
    CLOCK.now = now
    try:
        m = dns.message.from_wire(wire, keyring=keyring, request_mac=request_mac, multi=multi,
                                  tsig_ctx=ctx)
    except dns.exception.DNSException as e:
        return "rej", type(e).__name__, e
    except NotImplementedError as e:
        # documented by dns.tsig.get_context/sign: "@raises NotImplementedError: algorithm is not
        # supported" - reached when a keyring of raw secrets takes the algorithm from the message
        return "rej", "NotImplementedError(unsupported algorithm)", e
    except Exception as e:  # anything else is not a documented rejection
        return "crash", crash_sig(e), e
    if m.had_tsig:
        return "ok", "validated", m
    return "unsigned", "unsigned", m


def ref_keys(case, with_alg=True):
    labels = ref.labels_from_text(case["keyname"])
    return {ref.canonical_text(labels): (case["alg"] if with_alg else None, case_secret(case))}


# ---------------------------------------------------------------- field map (for signatures)
def field_map(wire):
    """byte offset -> field name, from the reference parse of a signed message."""
    msg, t = ref.find_tsig(wire)
    fm = {}

    def put(a, b, name):
        for i in range(a, b):
            fm[i] = name

    put(0, 2, "wire-id")
    put(2, 4, "flags")
    put(4, 12, "counts")
    put(12, msg.question_end, "question")
    put(msg.question_end, t.start, "records")
    put(t.owner_span[0], t.owner_span[1], "tsig-owner")
    o = t.owner_span[1]
    put(o, o + 2, "tsig-type")
    put(o + 2, o + 4, "tsig-class")
    put(o + 4, o + 8, "tsig-ttl")
    put(o + 8, o + 10, "tsig-rdlen")
    put(t.alg_span[0], t.alg_span[1], "tsig-algorithm")
    a = t.alg_span[1]
    put(a, a + 6, "tsig-time")
    put(a + 6, a + 8, "tsig-fudge")
    put(a + 8, a + 10, "tsig-macsize")
    put(t.mac_span[0], t.mac_span[1], "tsig-mac")
    e = t.mac_span[1]
    put(e, e + 2, "tsig-original-id")
    put(e + 2, e + 4, "tsig-error")
    put(e + 4, e + 6, "tsig-otherlen")
    put(e + 6, t.end, "tsig-other")
    return fm


# ---------------------------------------------------------------- single messages: sign
def sign_single(case, form=None):
    """Library-signed message for a case.  Returns (wire, key, request_mac, message)."""
    key = lib_key(case)
    m = build_message(case["kind"])
    rm = request_mac_for(case["alg"]) if case["role"] == "response" else b""
    if case["role"] == "response" and case["kind"] in ("query", "root", "update"):
        m.flags |= dns.flags.QR
    use_tsig(m, case, key, form or FORMS[case.get("form", 0) % len(FORMS)])
    m.request_mac = rm
    CLOCK.now = TIMES[case["time"]]
    wire = m.to_wire()
    return wire, key, rm, m


def check_fields(api, t, case, tsigned, probs, mac_size=True):
    err = case.get("err", 0)
    exp = {
        "owner": ref.canonical_text(ref.labels_from_text(case["keyname"])),
        "algorithm": case["alg"],
        "time-signed": tsigned,
        "fudge": case["fudge"],
        "original-id": orig_value(case),
        "error": err,
        "other": other_data_for(err, TIMES[case["time"]]),
        "class": ref.CLASS_ANY,
        "ttl": 0,
        "mac-size": ref.ALGORITHMS[case["alg"]][1],
    }
    got = {
        "owner": ref.canonical_text(t.owner), "algorithm": ref.canonical_text(t.algorithm),
        "time-signed": t.time_signed, "fudge": t.fudge, "original-id": t.original_id,
        "error": t.error, "other": t.other, "class": t.rclass, "ttl": t.ttl, "mac-size": len(t.mac),
    }
    for k in exp:
        if exp[k] != got[k]:
            probs.append(("sign/%s/field/%s" % (api, k),
                          "TSIG RR field %s is %r, requested %r" % (k, got[k], exp[k])))


def run_sign(case, col=None):
    """Sign with the library, compare with the reference, validate with every keyring form
    and at the edges of the fudge window."""
    probs = []
    t0 = TIMES[case["time"]]
    err = case.get("err", 0)
    role = case["role"]
    try:
        wire, key, rm, m = sign_single(case)
        mac, t = ref.expected_mac(wire, case_secret(case), rm)
    except Exception as e:
        return [("sign/message/crash/" + crash_sig(e), "%s: %s" % (type(e).__name__, e))]
    if col:
        col.count("evaluations")
        col.count("signed_by_library")
    check_fields("message", t, case, t0, probs)
    if mac != t.mac:
        probs.append(("sign/message/mac-differs-from-rfc8945/" + role,
                      "library MAC %s, RFC 8945 digest gives %s" % (t.mac.hex(), mac.hex())))
    if m.mac != t.mac:
        probs.append(("sign/message/mac-attribute", "Message.mac %r is not the MAC on the wire" % (m.mac,)))
    # Renderer API: same unsigned content, signed through add_tsig
    try:
        um = build_message(case["kind"])
        if role == "response" and case["kind"] in ("query", "root", "update"):
            um.flags |= dns.flags.QR
        uw = um.to_wire()
        r = dns.renderer.Renderer(MSG_ID, 0, 65535)
        r.output.seek(0)
        r.output.write(uw)
        r.counts = list(struct.unpack("!HHHH", uw[4:12]))
        r.section = dns.renderer.ADDITIONAL
        CLOCK.now = t0
        r.add_tsig(key.name, key, case["fudge"], orig_value(case),
                   err, other_data_for(err, t0), rm, key.algorithm)
        rw = r.get_wire()
        rmac, rt = ref.expected_mac(rw, case_secret(case), rm)
        if col:
            col.count("evaluations")
            col.count("signed_by_library")
        check_fields("renderer", rt, case, t0, probs)
        if rmac != rt.mac:
            probs.append(("sign/renderer/mac-differs-from-rfc8945/" + role,
                          "Renderer.add_tsig MAC %s, RFC 8945 digest gives %s" % (rt.mac.hex(), rmac.hex())))
    except Exception as e:
        probs.append(("sign/renderer/crash/" + crash_sig(e), "%s: %s" % (type(e).__name__, e)))
        rw = None
    # validation of the genuine message, every keyring form
    for w, api in ((wire, "message"), (rw, "renderer")):
        if w is None:
            continue
        for form in FORMS:
            v, label, obj = validate(w, keyring_of(form, key), rm, t0)
            if col:
                col.count("evaluations")
                col.outcome("genuine:" + label)
            if v == "crash":
                probs.append(("validate/crash/" + label, "genuine message: %r" % (obj,)))
            elif err == 0:
                if v != "ok":
                    probs.append(("validate/genuine-rejected/%s/%s" % (role, label),
                                  "library-signed (%s) message rejected with keyring form %s: %s" % (api, form, label)))
                elif obj.mac != t.mac and api == "message":
                    probs.append(("validate/mac-attribute", "parsed Message.mac differs from the wire MAC"))
                elif form == FORMS[0]:
                    # the next stand-alone message of an exchange, validated with the context the library
                    # handed back for this one threaded through (what inbound_xfr does for every message,
                    # also over UDP where multi is False): a genuine message still verifies
                    v2, label2, _o2 = validate(w, keyring_of(form, key), rm, t0, multi=False, ctx=obj.tsig_ctx)
                    if col:
                        col.count("evaluations")
                        col.outcome("genuine-with-returned-context:" + label2)
                    if v2 != "ok":
                        probs.append(("validate/genuine-rejected-with-returned-context/%s/%s" % (role, label2),
                                      "a stand-alone genuine message is rejected when the tsig_ctx returned for the "
                                      "previous stand-alone message is passed along (multi=False): %s" % label2))
            elif v != "rej":
                probs.append(("validate/peer-error-accepted",
                              "message reporting TSIG error %d was accepted (%s)" % (err, label)))
            if api == "renderer":
                break
    # fudge window through the time seam
    if err == 0:
        f = case["fudge"]
        for now in sorted({t0 - f - 1, t0 - f, t0 - 1, t0 + 1, t0 + f, t0 + f + 1}):
            if now < 0:
                continue
            v, label, obj = validate(wire, key, rm, now)
            if col:
                col.count("evaluations")
                col.outcome("time:" + label)
            inside = abs(now - t0) <= f
            edge = "edge" if abs(now - t0) == f else "inner" if inside else "outer"
            if v == "crash":
                probs.append(("time/crash/" + label, "now=%d" % now))
            elif inside and v != "ok":
                probs.append(("time/rejected-inside-window/%s/%s" % (edge, label),
                              "signed=%d fudge=%d now=%d (|delta|=%d <= fudge) rejected: %s" % (t0, f, now, abs(now - t0), label)))
            elif not inside and v != "rej":
                probs.append(("time/accepted-outside-window",
                              "signed=%d fudge=%d now=%d (|delta|=%d > fudge) accepted" % (t0, f, now, abs(now - t0))))
    if col:
        col.nontrivial(("sign", case_key(case)))
    return probs


def case_key(case):
    return tuple(sorted((k, tuple(v) if isinstance(v, list) else v) for k, v in case.items()
                        if k not in ("mode", "bit", "sub", "forms", "form")))


# ---------------------------------------------------------------- single messages: tampering
def run_tamper(case, col=None):
    """Everything an attacker can do to one signed message (error = 0)."""
    probs = []
    sub_only = case.get("sub")
    wire, key, rm, _ = sign_single(case)
    t0 = TIMES[case["time"]]
    secret = case_secret(case)
    forms = case.get("forms", [0])
    msg, t = ref.find_tsig(wire)
    ck = case_key(case)

    def seen(kind, label, n=1):
        if col:
            col.count("evaluations", n)
            col.outcome(kind + ":" + label, n)

    def must_reject(sig, what, w, keyring, request_mac, now=t0):
        v, label, obj = validate(w, keyring, request_mac, now)
        seen(sig.split("/")[0], label)
        if v == "crash":
            probs.append((sig.split("/")[0] + "/crash/" + label, what))
        elif v == "ok":
            probs.append((sig + "/accepted", what + " - validated"))
        return v

    # --- every single bit
    if sub_only in (None, "bitflip"):
        exempt = ref.exempt_bits(wire)
        norm = ref.normalisation_region(wire)
        fm = field_map(wire)
        rkeys = ref_keys(case)
        rkeys_noalg = ref_keys(case, with_alg=False)
        bits = range(len(wire) * 8) if case.get("bit") is None else [case["bit"]]
        hist = {}
        nexempt = {}
        for fi in forms:
            form = FORMS[fi % len(FORMS)]
            keyring = keyring_of(form, key)
            for bit in bits:
                b = bytearray(wire)
                b[bit >> 3] ^= 1 << (bit & 7)
                tw = bytes(b)
                v, label, obj = validate(tw, keyring, rm, t0)
                ex = exempt.get(bit)
                hk = ("exempt:" + ex + ":" + label) if ex else label
                hist[hk] = hist.get(hk, 0) + 1
                if ex:
                    nexempt[ex] = nexempt.get(ex, 0) + 1
                    if v == "crash":
                        probs.append(("bitflip/crash/" + label, "bit %d (%s)" % (bit, fm.get(bit >> 3))))
                    continue
                if v == "crash":
                    probs.append(("bitflip/crash/" + label, "bit %d (%s) of %s" % (bit, fm.get(bit >> 3), tw.hex())))
                elif v == "ok":
                    pos = bit >> 3
                    if any(a <= pos < z for a, z in norm) and \
                            ref.verify(tw, rkeys_noalg if form == "dict-bytes" else rkeys, t0, rm) == "ok":
                        hist["normalised-identical"] = hist.get("normalised-identical", 0) + 1
                        continue
                    probs.append(("bitflip/accepted/" + fm.get(pos, "?"),
                                  "flipping bit %d of byte %d (%s) of a signed %s still validates (keyring %s)"
                                  % (bit & 7, pos, fm.get(pos), case["kind"], form),
                                  dict(case, bit=bit, sub="bitflip", forms=[fi])))
        if col:
            for k, n in hist.items():
                seen("bitflip", k, n)
            for k, n in nexempt.items():
                col.count("exempt_bits_" + k, n)
            for name in set(fm.values()):
                col.nontrivial(("bitflip", ck, name))
            col.max("max_signed_message_octets", len(wire))

    # --- keys, names, algorithms
    if sub_only in (None, "key"):
        flipped = (bytes([secret[0] ^ 1]) + secret[1:]) if secret else b"\x01"
        other_secret = secret_of(len(secret) or 16, salt=1)
        name = key.name
        other_name = dns.name.from_text("other." + case["keyname"] if case["keyname"] != "." else "other.")
        variants = [
            ("secret-one-bit/key", lib_key(case, secret=flipped)),
            ("secret-one-bit/dict", {name: lib_key(case, secret=flipped)}),
            ("secret-one-bit/dict-bytes", {name: flipped}),
            ("secret-other/key", lib_key(case, secret=other_secret)),
            ("secret-other/callable", lambda m_, n_: lib_key(case, secret=other_secret)),
            ("secret-longer/key", lib_key(case, secret=secret + b"\x01")),
            ("secret-shorter/key", lib_key(case, secret=secret[:-1] or b"\xff")),
            ("keyname-other/key", dns.tsig.Key(other_name, secret, key.algorithm)),
            ("keyname-other/dict-absent", {other_name: dns.tsig.Key(other_name, secret, key.algorithm)}),
            ("keyname-other/dict-bytes-absent", {other_name: secret}),
            ("keyname-other/dict-mislabelled", {name: dns.tsig.Key(other_name, secret, key.algorithm)}),
            ("keyname-other/callable", lambda m_, n_: dns.tsig.Key(other_name, secret, key.algorithm)),
            ("keyname-other/callable-none", lambda m_, n_: None),
            ("keyring-empty/dict", {}),
            ("keyring-none", None),
            ("keyring-true", True),
        ]
        for alg in ALGS:
            if alg != case["alg"]:
                variants.append(("algorithm-other/key", lib_key(case, alg=alg)))
                variants.append(("algorithm-other/dict", {name: lib_key(case, alg=alg)}))
        for vname, keyring in variants:
            must_reject("key/" + vname, "validating with %s" % vname, wire, keyring, rm)
        # signed by somebody else (reference signer): other secret / other key name / other algorithm
        um = build_message(case["kind"])
        if case["role"] == "response" and case["kind"] in ("query", "root", "update"):
            um.flags |= dns.flags.QR
        uw = um.to_wire()
        klabels = ref.labels_from_text(case["keyname"])
        alabels = ref.labels_from_text(case["alg"])
        olabels = [b"other"] + klabels
        w2, _ = ref.sign(uw, klabels, alabels, other_secret, t0, case["fudge"], request_mac=rm)
        must_reject("key/signed-with-other-secret", "message signed with another secret", w2, key, rm)
        w2, _ = ref.sign(uw, olabels, alabels, secret, t0, case["fudge"], request_mac=rm)
        must_reject("key/signed-with-other-keyname/key", "message signed under another key name, same secret", w2, key, rm)
        must_reject("key/signed-with-other-keyname/dict", "message signed under another key name, same secret",
                    w2, {name: key}, rm)
        for alg in ALGS:
            if alg == case["alg"]:
                continue
            w2, _ = ref.sign(uw, klabels, ref.labels_from_text(alg), secret, t0, case["fudge"], request_mac=rm)
            must_reject("key/signed-with-other-algorithm/key", "message signed with %s, key says %s" % (alg, case["alg"]),
                        w2, key, rm)
            must_reject("key/signed-with-other-algorithm/dict", "message signed with %s, key says %s" % (alg, case["alg"]),
                        w2, {name: key}, rm)
        # positive control: the reference-signed message in mixed case must validate
        mixed_k = [bytes(c ^ 0x20 if (0x41 <= c <= 0x5A or 0x61 <= c <= 0x7A) and i % 2 == 0 else c
                         for i, c in enumerate(lab)) for lab in klabels]
        mixed_a = [lab.upper() if i % 2 == 0 else lab for i, lab in enumerate(alabels)]
        w3, _ = ref.sign(uw, mixed_k, mixed_a, secret, t0, case["fudge"],
                         original_id=orig_arg(case), request_mac=rm)
        for form in FORMS:
            v, label, obj = validate(w3, keyring_of(form, key), rm, t0)
            seen("reference-signed", label)
            if v != "ok":
                probs.append(("validate/reference-signed-rejected/%s/%s" % (case["role"], label),
                              "RFC 8945 message (mixed-case key/algorithm names) signed by the reference is rejected "
                              "with keyring form %s: %s" % (form, label)))
        if col:
            col.nontrivial(("key", ck))

    # --- request MAC binding
    if sub_only in (None, "reqmac"):
        if case["role"] == "response":
            vs = [("missing", b""), ("other", bytes(c ^ 0xFF for c in rm)), ("shorter", rm[:-1]),
                  ("longer", rm + b"\x00"), ("prefixed", b"\x00" + rm), ("rotated", rm[1:] + rm[:1])]
            for vname, rm2 in vs:
                must_reject("reqmac/" + vname, "response validated against request MAC variant '%s'" % vname, wire, key, rm2)
            for bit in range(len(rm) * 8):
                b = bytearray(rm)
                b[bit >> 3] ^= 1 << (bit & 7)
                must_reject("reqmac/one-bit", "request MAC bit %d flipped" % bit, wire, key, bytes(b))
        else:
            must_reject("reqmac/unexpected", "request validated as a response to some request MAC",
                        wire, key, request_mac_for(case["alg"]))
            must_reject("reqmac/unexpected-1-octet", "request validated with a 1-octet request MAC", wire, key, b"\x00")
        if col:
            col.nontrivial(("reqmac", ck))

    # --- MAC length games: RFC 8945 5.2.2.1 - shorter than max(10, half the hash) or longer
    #     than the hash output MUST be refused
    if sub_only in (None, "maclen"):
        hname, size = ref.ALGORITHMS[case["alg"]]
        import hashlib
        hlen = getattr(hashlib, hname)().digest_size
        floor = max(10, hlen // 2)

        def with_mac(newmac):
            a, z = t.mac_span
            w = bytearray(wire[:a - 2]) + struct.pack("!H", len(newmac)) + newmac + wire[z:]
            rdlen_off = t.owner_span[1] + 8
            (rdlen,) = struct.unpack("!H", wire[rdlen_off:rdlen_off + 2])
            w[rdlen_off:rdlen_off + 2] = struct.pack("!H", rdlen + len(newmac) - (z - a))
            return bytes(w)

        for k in range(0, min(floor, len(t.mac))):
            must_reject("maclen/truncated-below-rfc-minimum", "MAC cut to its first %d octets (minimum %d)" % (k, floor),
                        with_mac(t.mac[:k]), key, rm)
        for k in range(floor, len(t.mac)):
            v, label, obj = validate(with_mac(t.mac[:k]), key, rm, t0)
            seen("maclen-policy", label)      # local policy may or may not accept; recorded only
        must_reject("maclen/longer-than-hash", "MAC followed by extra octets beyond the hash length",
                    with_mac(t.mac + b"\x00" * (hlen - len(t.mac) + 1)), key, rm)
        must_reject("maclen/one-extra-octet-garbage", "MAC with last octet changed and one appended",
                    with_mac(t.mac[:-1] + bytes([t.mac[-1] ^ 1]) + b"\x00"), key, rm)
        if col:
            col.nontrivial(("maclen", ck))
    return probs


# ---------------------------------------------------------------- error codes
def run_errors(case, col=None):
    """Correctly MAC'ed messages carrying each TSIG error code lo..hi-1."""
    probs = []
    key = lib_key(case)
    secret = case_secret(case)
    t0 = TIMES[case["time"]]
    uw = build_message(case["kind"]).to_wire()
    klabels = ref.labels_from_text(case["keyname"])
    alabels = ref.labels_from_text(case["alg"])
    keyring = keyring_of(FORMS[case.get("form", 0) % len(FORMS)], key)
    for err in range(case["lo"], case["hi"]):
        for other in (b"", ref.time48(t0 + 7)):
            w, _ = ref.sign(uw, klabels, alabels, secret, t0, case["fudge"], error=err, other=other)
            v, label, obj = validate(w, keyring, b"", t0)
            if col:
                col.count("evaluations")
                col.outcome("error-code:" + label)
            if err == 0:
                if v != "ok":
                    probs.append(("validate/reference-signed-rejected/error0-other%d/%s" % (len(other), label),
                                  "reference-signed message with error 0, other length %d rejected" % len(other)))
                continue
            cls = {16: "BADSIG", 17: "BADKEY", 18: "BADTIME", 22: "BADTRUNC"}.get(
                err, "rcode-range" if err < 4096 else "above-4095")
            if v == "crash":
                probs.append(("error-code/crash/" + label, "TSIG error %d" % err))
            elif v != "rej":
                probs.append(("error-code/accepted/" + cls, "TSIG error %d (other length %d) was accepted" % (err, len(other))))
    if col:
        col.nontrivial(("errors", case_key(case)))
    return probs


# ---------------------------------------------------------------- placement
EXTRA_A = b"\x00" + struct.pack("!HHIH", 1, 1, 0, 4) + bytes([192, 0, 2, 99])
EXTRA_OPT = b"\x00" + struct.pack("!HHIH", 41, 1232, 0, 0)


def run_place(case, col=None):
    probs = []
    key = lib_key(case)
    secret = case_secret(case)
    t0 = TIMES[case["time"]]
    uw = build_message(case["kind"]).to_wire()
    kl = ref.labels_from_text(case["keyname"])
    al = ref.labels_from_text(case["alg"])
    counts = struct.unpack("!HHHH", uw[4:12])
    sw, mac = ref.sign(uw, kl, al, secret, t0, case["fudge"])
    _, t = ref.find_tsig(sw)
    rr = sw[t.start:]
    variants = []
    # control: the plain reference-signed message validates
    variants.append(("control", sw, True))
    variants.append(("not-last/A-after-tsig", ref.append_rr(sw, 3, EXTRA_A), False))
    if case["kind"] != "response-opt":
        variants.append(("not-last/OPT-after-tsig", ref.append_rr(sw, 3, EXTRA_OPT), False))
    # the extra record is also covered by the MAC (signed first, then TSIG put in front of it)
    w_a = ref.append_rr(uw, 3, EXTRA_A)
    sw2, _ = ref.sign(w_a, kl, al, secret, t0, case["fudge"])
    _, t2 = ref.find_tsig(sw2)
    variants.append(("not-last/tsig-before-covered-record",
                     sw2[:t2.start - len(EXTRA_A)] + sw2[t2.start:] + EXTRA_A, False))
    variants.append(("duplicated/same-rr-twice", ref.append_rr(sw, 3, rr), False))
    sw3, _ = ref.sign(sw, kl, al, secret, t0, case["fudge"])
    variants.append(("duplicated/second-signs-first", sw3, False))
    for sec in (1, 2):
        if all(c == 0 for c in counts[sec + 1:]):
            # MAC over the message as if the TSIG were the usual additional record
            variants.append(("other-section/%s" % ("answer" if sec == 1 else "authority"),
                             ref.append_rr(uw, sec, rr), False))
        if all(c == 0 for c in counts[sec:]):
            # ... and with a genuine additional record behind it, so ARCOUNT is not 0
            w = ref.append_rr(ref.append_rr(uw, sec, rr), 3, EXTRA_A)
            variants.append(("other-section/%s-then-additional" % ("answer" if sec == 1 else "authority"), w, False))
            # ... MAC'ed the way a validator that ignored the section would compute it
            body = ref.append_rr(uw, sec, b"")             # header as received with ARCOUNT-1, cut at the TSIG
            data = ref.digest_input_first(b"", struct.pack("!H", MSG_ID) + body[2:], kl, al, t0, case["fudge"], 0, b"")
            mac2 = ref.hmac_for(al, secret, data)
            rr2 = ref.tsig_rr_bytes(kl, al, t0, case["fudge"], mac2, MSG_ID, 0, b"")
            w = ref.append_rr(ref.append_rr(uw, sec, rr2), 3, EXTRA_A)
            variants.append(("other-section/%s-then-additional-mac-fitted" % ("answer" if sec == 1 else "authority"), w, False))
    for cls, cname in ((1, "IN"), (254, "NONE")):
        r2 = ref.tsig_rr_bytes(kl, al, t.time_signed, t.fudge, t.mac, t.original_id, 0, b"", rclass=cls)
        variants.append(("class/" + cname, ref.append_rr(uw, 3, r2), False))
    variants.append(("trailing-octet", sw + b"\x00", False))
    for form in FORMS:
        keyring = keyring_of(form, key)
        for vname, w, good in variants:
            v, label, obj = validate(w, keyring, b"", t0)
            if col:
                col.count("evaluations")
                col.outcome("placement:" + label)
            if v == "crash":
                probs.append(("placement/crash/" + label, vname))
            elif good:
                if v != "ok":
                    probs.append(("validate/reference-signed-rejected/request/" + label,
                                  "reference-signed %s rejected (keyring %s)" % (case["kind"], form)))
            elif v in ("ok", "unsigned"):
                probs.append(("placement/%s/accepted" % vname, "parsed without error (%s), keyring %s" % (label, form)))
            elif not isinstance(obj, dns.exception.FormError):
                probs.append(("placement/%s/not-a-format-error/%s" % (vname, label),
                              "raised %s, which is not a FormError" % label))
    # without any keyring the position rule still applies
    for vname, w, good in variants:
        if good or vname.startswith(("trailing",)):
            continue
        v, label, obj = validate(w, None, b"", t0)
        if col:
            col.count("evaluations")
            col.outcome("placement-nokeyring:" + label)
        if v in ("ok", "unsigned"):
            probs.append(("placement/%s/accepted-without-keyring" % vname, "parsed without error"))
    if col:
        col.nontrivial(("place", case_key(case)))
    return probs


# ---------------------------------------------------------------- multi-message exchanges
def pattern_text(pattern):
    return "".join("S" if s else "u" for s in pattern)


def envelope_time(case, i):
    return TIMES[case["time"]] + (i if case.get("tstep", 1) else 0)


def ref_sequence(case, pattern):
    """Envelope wires produced by the reference signer; pattern[i] True = signed."""
    n = len(pattern)
    kl = ref.labels_from_text(case["keyname"])
    al = ref.labels_from_text(case["alg"])
    secret = case_secret(case)
    rm = request_mac_for(case["alg"]) if case["role"] == "response" else b""
    chain = ref.Chain()
    wires = []
    for i in range(n):
        uw = build_envelope(i, n).to_wire()
        if pattern[i]:
            w, _ = ref.sign(uw, kl, al, secret, envelope_time(case, i), case["fudge"],
                            original_id=orig_arg(case),
                            request_mac=rm, chain=chain)
        else:
            w = uw
            ref.pass_unsigned(w, chain)
        wires.append(w)
    return wires, rm


def lib_validate_sequence(wires, keyring, rm, now, stop_on_fail=True):
    """Feed envelopes to from_wire(multi=True), chaining tsig_ctx.  Returns
    (accepted, index of first failure or None, label, [had_tsig...])."""
    ctx = None
    had = []
    for i, w in enumerate(wires):
        v, label, obj = validate(w, keyring, rm, now, multi=True, ctx=ctx)
        if v in ("rej", "crash"):
            return False, i, ("crash:" if v == "crash" else "") + label, had
        had.append(obj.had_tsig)
        ctx = obj.tsig_ctx
    ok = bool(had) and had[0] and had[-1]
    return ok, None, "validated" if ok else "ends-unsigned", had


def run_multi(case, col=None):
    probs = []
    n = case["n"]
    key = lib_key(case)
    secret = case_secret(case)
    rm = request_mac_for(case["alg"]) if case["role"] == "response" else b""
    now = TIMES[case["time"]]
    form = FORMS[case.get("form", 0) % len(FORMS)]
    sub_only = case.get("sub")

    def seen(kind, label, k=1):
        if col:
            col.count("evaluations", k)
            col.outcome(kind + ":" + label, k)

    # ---- all envelopes signed by the library, compared MAC by MAC
    if sub_only in (None, "lib"):
        for api in ("message", "renderer"):
            chain = ref.Chain()
            sctx = None
            wires = []
            try:
                for i in range(n):
                    m = build_envelope(i, n)
                    CLOCK.now = envelope_time(case, i)
                    if api == "message":
                        use_tsig(m, case, key, FORMS[(case.get("form", 0) + i) % len(FORMS)])
                        m.request_mac = rm
                        w = m.to_wire(multi=True, tsig_ctx=sctx)
                        sctx = m.tsig_ctx
                    else:
                        uw = m.to_wire()
                        r = dns.renderer.Renderer(MSG_ID, 0, 65535)
                        r.output.seek(0)
                        r.output.write(uw)
                        r.counts = list(struct.unpack("!HHHH", uw[4:12]))
                        r.section = dns.renderer.ADDITIONAL
                        sctx = r.add_multi_tsig(sctx, key.name, key, case["fudge"],
                                                orig_value(case),
                                                0, b"", rm, key.algorithm)
                        w = r.get_wire()
                    wires.append(w)
                    mac, t = ref.expected_mac(w, secret, rm, chain)
                    seen("multi-sign", "signed")
                    check_fields(api, t, dict(case, err=0), envelope_time(case, i), probs)
                    if mac != t.mac:
                        probs.append(("sign/%s/mac-differs-from-rfc8945/%s" % (api, "multi-first" if i == 0 else "multi-next"),
                                      "envelope %d of %d: library MAC %s, RFC 8945 gives %s" % (i, n, t.mac.hex(), mac.hex())))
                        break
            except Exception as e:
                probs.append(("sign/%s/crash/%s" % (api, crash_sig(e)), "multi envelope: %s" % e))
                continue
            if len(wires) == n:
                for f in FORMS:
                    ok, at, label, had = lib_validate_sequence(wires, keyring_of(f, key), rm, now)
                    seen("multi-genuine", label, n if at is None else at + 1)
                    if not ok:
                        probs.append(("multi/library-sequence-rejected/%s/%s" % (api, label),
                                      "all-signed sequence of %d: envelope %s: %s (keyring %s)" % (n, at, label, f)))
        if col:
            col.nontrivial(("multi-lib", case_key(case)))

    # ---- reference-signed sequences with unsigned intermediates
    patterns = [(True,) + mid + (True,) for mid in itertools.product((True, False), repeat=n - 2)]
    if case.get("pattern") is not None:
        patterns = [tuple(bool(x) for x in case["pattern"])]
    for pattern in patterns:
        ptxt = pattern_text(pattern)
        wires, _ = ref_sequence(case, pattern)
        gaps = [len(list(g)) for k, g in itertools.groupby(pattern) if not k]
        maxrun = max(gaps) if gaps else 0
        if sub_only in (None, "ref"):
            for f in FORMS:
                ok, at, label, had = lib_validate_sequence(wires, keyring_of(f, key), rm, now)
                seen("multi-reference", label, n if at is None else at + 1)
                if not ok:
                    probs.append(("multi/reference-sequence-rejected/unsigned-run-%d/%s" % (maxrun, label),
                                  "RFC 8945 sequence %s (reference signer): envelope %s: %s (keyring %s)" % (ptxt, at, label, f),
                                  dict(case, pattern=list(pattern), sub="ref")))
                elif had != list(pattern):
                    probs.append(("multi/had-tsig-wrong", "pattern %s, had_tsig per envelope %r" % (ptxt, had)))
            if col:
                col.nontrivial(("multi-ref", case_key(case), ptxt))
        keyring = keyring_of(form, key)
        # ---- structural tampering
        if sub_only in (None, "struct") and case.get("structural", True):
            alts = []
            for i in range(n - 1):
                alts.append(("drop", wires[:i] + wires[i + 1:]))
            for i in range(n - 1):
                alts.append(("swap", wires[:i] + [wires[i + 1], wires[i]] + wires[i + 2:]))
            for i in range(n - 1):
                alts.append(("replay", wires[:i + 1] + [wires[i]] + wires[i + 1:]))
            if rm:
                bad = bytes([rm[0] ^ 1]) + rm[1:]
                alts.append(("reqmac-one-bit", wires, bad))
                alts.append(("reqmac-missing", wires, b""))
            else:
                alts.append(("reqmac-unexpected", wires, request_mac_for(case["alg"])))
            for alt in alts:
                aname, ws = alt[0], alt[1]
                rmx = alt[2] if len(alt) > 2 else rm
                ok, at, label, had = lib_validate_sequence(ws, keyring, rmx, now)
                seen("multi-" + aname, label, len(ws) if at is None else at + 1)
                if label.startswith("crash:"):
                    probs.append(("multi/crash/" + label[6:], "%s in %s" % (aname, ptxt)))
                elif ok:
                    probs.append(("multi/%s/accepted" % aname, "sequence %s with %s validated to the end" % (ptxt, aname),
                                  dict(case, pattern=list(pattern), sub="struct")))
            # time window is enforced on later envelopes too
            last_t = envelope_time(case, n - 1)
            late = last_t + case["fudge"] + 1
            # now is inside the window of every envelope but the last
            if case.get("tstep", 1) and case["fudge"] >= n:
                early = envelope_time(case, 0) - case["fudge"] + (n - 2)
                if early >= 0:
                    ok, at, label, had = lib_validate_sequence(wires, keyring, rm, early)
                    seen("multi-time", label, n if at is None else at + 1)
                    if ok:
                        probs.append(("multi/time/accepted-outside-window",
                                      "sequence %s: last envelope signed at %d fudge %d accepted at now=%d"
                                      % (ptxt, last_t, case["fudge"], early)))
            ok, at, label, had = lib_validate_sequence(wires, keyring, rm, late)
            seen("multi-time", label, n if at is None else at + 1)
            if ok:
                probs.append(("multi/time/accepted-outside-window", "sequence %s accepted at now=%d" % (ptxt, late)))
            if col:
                col.nontrivial(("multi-struct", case_key(case), ptxt))
        # ---- every bit of every envelope
        if sub_only in (None, "bitflip") and case.get("bitflips"):
            hist = {}
            only = case.get("bit")
            for j in range(n):
                w = wires[j]
                exempt = ref.exempt_bits(w) if pattern[j] else {}
                fm = field_map(w) if pattern[j] else {}
                for bit in range(len(w) * 8):
                    if only is not None and [j, bit] != list(only):
                        continue
                    b = bytearray(w)
                    b[bit >> 3] ^= 1 << (bit & 7)
                    ws = wires[:j] + [bytes(b)] + wires[j + 1:]
                    ok, at, label, had = lib_validate_sequence(ws, keyring, rm, now)
                    ex = exempt.get(bit)
                    hk = ("exempt:" + label) if ex else label
                    hist[hk] = hist.get(hk, 0) + 1
                    if label.startswith("crash:"):
                        probs.append(("multi/bitflip/crash/" + label[6:], "envelope %d bit %d in %s" % (j, bit, ptxt)))
                    elif ok and not ex:
                        where = fm.get(bit >> 3, "?") if pattern[j] else "unsigned-envelope"
                        pos = bit >> 3
                        if pattern[j] and any(a <= pos < z for a, z in ref.normalisation_region(w)):
                            # redirected pointer / equal name: judge by the reference on the whole sequence
                            chain = ref.Chain()
                            verdicts = [ref.verify(x, ref_keys(case, form != "dict-bytes"), now, rm, chain) for x in ws]
                            if all(v in ("ok", "unsigned") for v in verdicts):
                                hist["normalised-identical"] = hist.get("normalised-identical", 0) + 1
                                continue
                        probs.append(("multi/bitflip/accepted/" + where,
                                      "sequence %s: flipping bit %d of byte %d (%s) of envelope %d still validates to the end"
                                      % (ptxt, bit & 7, pos, where, j),
                                      dict(case, pattern=list(pattern), sub="bitflip", bit=[j, bit])))
            if col:
                for k, v in hist.items():
                    seen("multi-bitflip", k, v)
                col.nontrivial(("multi-bitflip", case_key(case), ptxt))
    return probs


# ---------------------------------------------------------------- natural API round trip
def run_roundtrip(case, col=None):
    """client query -> server from_wire -> make_response -> client from_wire(request_mac=query.mac)."""
    probs = []
    key = lib_key(case)
    t0 = TIMES[case["time"]]
    secret = case_secret(case)
    q = build_message("query" if case["kind"] == "response-opt" else case["kind"])
    use_tsig(q, dict(case, err=0), key, FORMS[case.get("form", 0) % len(FORMS)])
    CLOCK.now = t0
    qw = q.to_wire()
    v, label, sq = validate(qw, keyring_of(FORMS[(case.get("form", 0) + 1) % len(FORMS)], key), b"", t0)
    if col:
        col.count("evaluations")
        col.outcome("roundtrip-query:" + label)
    if v != "ok":
        return [("validate/genuine-rejected/request/" + label, "server side rejected the signed query")]
    r = dns.message.make_response(sq, fudge=case["fudge"], tsig_error=case.get("err", 0))
    CLOCK.now = t0 + 1
    rw = r.to_wire()
    try:
        mac, t = ref.expected_mac(rw, secret, q.mac)
    except ref.RefError as e:
        return [("sign/make_response/no-tsig", "response to a signed query: %s" % e)]
    if mac != t.mac:
        probs.append(("sign/make_response/mac-differs-from-rfc8945/response",
                      "response MAC %s, RFC 8945 (bound to the query MAC) gives %s" % (t.mac.hex(), mac.hex())))
    if t.time_signed != t0 + 1 or t.fudge != case["fudge"] or t.error != case.get("err", 0):
        probs.append(("sign/make_response/field", "time/fudge/error %r" % ((t.time_signed, t.fudge, t.error),)))
    v, label, obj = validate(rw, key, q.mac, t0 + 1)
    if col:
        col.count("evaluations", 2)
        col.outcome("roundtrip-response:" + label)
        col.nontrivial(("roundtrip", case_key(case)))
    if case.get("err", 0) == 0 and v != "ok":
        probs.append(("validate/genuine-rejected/response/" + label, "client rejected the server's response"))
    if case.get("err", 0) != 0 and v != "rej":
        probs.append(("validate/peer-error-accepted", "response with TSIG error %d accepted" % case["err"]))
    return probs


# ---------------------------------------------------------------- Renderer given a Key object
def run_rkey(case, col=None):
    """Renderer.add_tsig / add_multi_tsig accept a dns.tsig.Key as `secret`; the message they
    emit must be the one RFC 8945 prescribes for that key (its algorithm), and validate."""
    probs = []
    key = lib_key(case)
    secret = case_secret(case)
    t0 = TIMES[case["time"]]
    for api in ("add_tsig", "add_multi_tsig"):
        r = dns.renderer.Renderer(MSG_ID, 0, 65535)
        r.add_question(dns.name.from_text("www.example."), dns.rdatatype.A)
        r.write_header()
        CLOCK.now = t0
        try:
            if api == "add_tsig":
                r.add_tsig(key.name, key, case["fudge"], MSG_ID, 0, b"", b"")
            else:
                r.add_multi_tsig(None, key.name, key, case["fudge"], MSG_ID, 0, b"", b"")
            w = r.get_wire()
            mac, t = ref.expected_mac(w, secret, b"")
        except Exception as e:
            probs.append(("sign/renderer/crash/" + crash_sig(e), "%s with a Key: %s" % (api, e)))
            continue
        v, label, obj = validate(w, key, b"", t0)
        if col:
            col.count("evaluations", 2)
            col.outcome("renderer-key:" + label)
        if ref.canonical_text(t.algorithm) != case["alg"]:
            probs.append(("sign/renderer/key-algorithm-ignored/" + api,
                          "Renderer.%s(secret=Key(algorithm=%s)) writes algorithm %s into the TSIG RR (MAC length %d); "
                          "validation under the same key: %s" % (api, case["alg"], ref.canonical_text(t.algorithm),
                                                                  len(t.mac), label)))
        elif mac != t.mac:
            probs.append(("sign/renderer/mac-differs-from-rfc8945/request", "%s with a Key object" % api))
        elif v != "ok":
            probs.append(("validate/genuine-rejected/request/" + label, "Renderer.%s with a Key object" % api))
    if col:
        col.nontrivial(("rkey", case_key(case)))
    return probs


# ---------------------------------------------------------------- driver
def run_rerender(case, col=None):
    """use_tsig -> to_wire -> (modify the message) -> to_wire again: every rendering the
    library produces for a message that is configured for signing must carry the RFC 8945
    MAC of *that* rendering and validate under the same key."""
    probs = []
    secret = case_secret(case)
    wire1, key, rm, m = sign_single(dict(case, err=0))
    t0 = TIMES[case["time"]]
    mods = {
        "none": lambda: None,
        "add-record": lambda: m.find_rrset(m.additional, dns.name.from_text("extra.example."), dns.rdataclass.IN,
                                           dns.rdatatype.A, create=True).add(dns.rdata.from_text("IN", "A", "10.9.8.7"), 60),
        "flags": lambda: setattr(m, "flags", m.flags ^ dns.flags.CD),
        "id": lambda: setattr(m, "id", (m.id + 1) & 0xFFFF),
    }
    mods[case["mod"]]()
    CLOCK.now = t0 + 2
    wire2 = m.to_wire()
    try:
        mac, t = ref.expected_mac(wire2, secret, rm)
    except ref.RefError as e:
        return [("rerender/no-tsig/" + case["mod"], "second rendering carries no usable TSIG: %s" % e)]
    if mac != t.mac:
        probs.append(("rerender/mac-differs-from-rfc8945/" + case["mod"],
                      "second to_wire() after modification %r: MAC %s, RFC 8945 over the rendered bytes gives %s" % (
                          case["mod"], t.mac.hex(), mac.hex())))
    v, label, obj = validate(wire2, key, rm, t0 + 2)
    if col:
        col.count("evaluations", 2)
        col.outcome("rerender:%s:%s" % (case["mod"], label))
        col.nontrivial(("rerender", case_key(case), case["mod"]))
    if v != "ok":
        probs.append(("rerender/own-message-rejected/%s/%s" % (case["mod"], label),
                      "the library's second rendering (after %r) does not validate under the same key" % case["mod"]))
    return probs


def run_truncsign(case, col=None):
    """Signing a message that is truncated to fit a size limit (record sets dropped by the
    renderer's rollback): what comes out must still carry the RFC 8945 MAC of the bytes that
    were actually sent and validate under the same key - also when the key is named after or
    below the owner of a dropped record set."""
    probs = []
    secret = case_secret(case)
    keyname = dns.name.from_text(case["keyname"])
    key = dns.tsig.Key(keyname, secret, dns.name.from_text(case["alg"]))
    q = dns.message.make_query("q.example.", "A", id=MSG_ID)
    m = dns.message.make_response(q)
    m.find_rrset(m.answer, dns.name.from_text("q.example."), dns.rdataclass.IN, dns.rdatatype.A, create=True).add(
        dns.rdata.from_text("IN", "A", "10.0.0.1"), 60)
    owner = dns.name.from_text(case["dropped_owner"])
    big = m.find_rrset(m.additional, owner, dns.rdataclass.IN, dns.rdatatype.TXT, create=True)
    for i in range(case["ntxt"]):
        big.add(dns.rdata.from_text("IN", "TXT", '"%s"' % (("%02d" % i) * 100)), 60)
    if case["edns"]:
        m.use_edns(0, 0, 1232)
    m.use_tsig(key)
    CLOCK.now = TIMES[case["time"]]
    try:
        wire = m.to_wire(max_size=case["limit"], prefer_truncation=True)
    except dns.exception.TooBig:
        if col:
            col.count("evaluations")
            col.outcome("truncsign:toobig")
        return probs
    try:
        mac, t = ref.expected_mac(wire, secret, b"")
        if mac != t.mac:
            probs.append(("truncsign/mac-differs-from-rfc8945", "limit %d: MAC differs" % case["limit"]))
    except ref.RefError as e:
        probs.append(("truncsign/unparseable-or-no-tsig", "limit %d: %s" % (case["limit"], e)))
    v, label, obj = validate(wire, key, b"", TIMES[case["time"]])
    if col:
        col.count("evaluations", 2)
        col.outcome("truncsign:" + label)
        col.nontrivial(("truncsign", case["alg"], case["keyname"], case["dropped_owner"], case["limit"], case["edns"]))
    if v != "ok":
        probs.append(("truncsign/own-message-rejected/" + label,
                      "the truncated message (limit %d, key %s, dropped owner %s, edns=%s) does not validate under its key" % (
                          case["limit"], case["keyname"], case["dropped_owner"], case["edns"])))
    return probs


RUNNERS = {"truncsign": run_truncsign, "rerender": run_rerender, "sign": run_sign, "tamper": run_tamper, "errors": run_errors, "place": run_place,
           "multi": run_multi, "roundtrip": run_roundtrip, "rkey": run_rkey}


def execute(case, col=None):
    """Run one case; returns [(signature, what, replay-case)]."""
    out = []
    try:
        res = RUNNERS[case["mode"]](case, col)
    except Exception as e:   # the harness or the library crashed outside a guarded call
        res = [("%s/crash/%s" % (case["mode"], crash_sig(e)), "".join(traceback.format_exception(e))[-1500:])]
    for p in res:
        sig, what = p[0], p[1]
        rc = p[2] if len(p) > 2 else case
        out.append(("C14/" + sig, what, rc))
    return out


def recheck(case):
    return [(s, w) for s, w, _ in execute(case)]


def worker(task, col):
    for case in task:
        for sig, what, rc in execute(case, col):
            col.violation(sig, what + "  [case %s]" % describe(rc), rc)
        if case["mode"] in ("tamper", "multi"):
            col.sample({k: v for k, v in case.items()}, limit=1)


def describe(case):
    return " ".join("%s=%s" % (k, case[k]) for k in ("mode", "alg", "kind", "keyname", "secret_len", "fudge", "time",
                                                       "err", "orig", "role", "n", "pattern", "bit") if k in case)


def base_case(**kw):
    c = dict(alg="hmac-sha256.", kind="query", keyname="k.", secret_len=32, fudge=300, time="now",
             err=0, orig="same", role="request", form=0)
    c.update(kw)
    return c


DIMS = [("alg", ALGS), ("kind", KINDS), ("keyname", KEYNAMES), ("secret_len", SECRETS), ("fudge", FUDGES),
        ("time", TIMEKEYS), ("err", ERRS), ("orig", ORIGS), ("role", ROLES)]


def chunks(lst, k):
    return [lst[i:i + k] for i in range(0, len(lst), k)]


def run(ctx):
    ctx.rule = (
        "Cases are points of algorithm(9) x message kind(4) x key name(2) x secret length(3) x fudge(3) x "
        "signing time(3, incl. > 32 bits) x error/other(3) x original-id(2) x role(2: request, response bound to a "
        "request MAC), each signed by the real library and recomputed by the reference; fault cases are one signed "
        "message (or envelope sequence) plus ONE alteration: a single flipped bit (every bit position), a wrong "
        "secret/key name/algorithm, a shifted clock, a changed request MAC, a TSIG error code, a misplaced TSIG RR, "
        "a dropped/swapped/replayed envelope.  Distinct non-trivial = distinct (sub-check, base parameters, "
        "field hit / envelope pattern); every bit is executed and counted in `evaluations`.")
    ctx.assume("GSS-TSIG is out of scope (needs a GSSAPI context); the 9 HMAC algorithms of dns.tsig.HMACTSig are covered")
    ctx.assume("time is the rebound dns.message.time / dns.renderer.time seam (only time.time() is called there)")
    ctx.assume("a message whose TSIG RR TYPE field was altered no longer carries a TSIG RR: from_wire returns it with "
               "had_tsig False (outcome 'unsigned'), which is not counted as a successful validation - callers test had_tsig")
    ctx.assume("MACs shortened to >= max(10, half the hash length) may be accepted or refused by local policy "
               "(RFC 8945 5.2.2.1); only shorter or over-long MACs are required to fail")
    ctx.extra["exempt_bits_reading"] = [
        "message id on the wire (the original id inside the TSIG RR is digested instead)",
        "ASCII case bit (0x20) of letters of the key name written in the TSIG RR and of the algorithm name",
        "the 32 bits of the TSIG RR's own TTL field (constant 0 is digested)",
        "flips inside the TSIG owner/algorithm name that leave it equal after decompression and case folding "
        "(judged by the reference verifier on the altered bytes)",
    ]
    quick = ctx.quick
    tasks = []
    ctx.extra["library_hmac_algorithms"] = sorted(LIB_ALGS)
    if set(LIB_ALGS) != set(ALGS):
        ctx.cap("the library's algorithm table %r differs from the 9 reference algorithms; only the latter are explored"
                % sorted(set(LIB_ALGS) ^ set(ALGS)))

    # 1. sign / validate / fudge window: full product in both tiers
    sign_cases = []
    for i, vals in enumerate(itertools.product(*[d[1] for d in DIMS])):
        c = dict(zip([d[0] for d in DIMS], vals))
        c["mode"] = "sign"
        c["form"] = i % len(FORMS)
        sign_cases.append(c)
    tasks += chunks(sign_cases, 96)
    ctx.extra["sign_cases"] = len(sign_cases)
    ctx.extra["domains"] = {k: list(v) for k, v in DIMS}
    ctx.extra["keyring_forms"] = FORMS

    # 2. tampering of single messages
    tam = []
    if quick:
        seen = set()
        others = [("keyname", KEYNAMES), ("secret_len", SECRETS), ("fudge", FUDGES), ("time", TIMEKEYS), ("orig", ORIGS)]
        for alg, kind, role in itertools.product(ALGS, KINDS, ROLES):
            pts = [{}]
            for name, dom in others:
                for v in dom[1:]:
                    pts.append({name: v})
            for p in pts:
                c = base_case(alg=alg, kind=kind, role=role, **p)
                k = case_key(c)
                if k not in seen:
                    seen.add(k)
                    tam.append(c)
        ctx.extra["tamper_selection"] = ("quick: algorithm x kind x role in full, every other dimension one deviation "
                                         "from the default (key k., 32-octet secret, fudge 300, time now, same id)")
    else:
        for vals in itertools.product(*[d[1] for d in DIMS]):
            c = dict(zip([d[0] for d in DIMS], vals))
            if c["err"] == 0:
                tam.append(c)
        ctx.extra["tamper_selection"] = "thorough: full product with error = 0"
    for i, c in enumerate(tam):
        c["mode"] = "tamper"
        c["form"] = i % len(FORMS)
        if quick or c["kind"] in ("response-opt", "update"):
            c["forms"] = [i % len(FORMS)]
        else:
            c["forms"] = [i % len(FORMS), (i + 1 + (i // 4) % 3) % len(FORMS)]
    tasks += chunks(tam, 2)
    ctx.extra["tampered_messages"] = len(tam)
    ctx.extra["bitflip_keyring_forms_per_message"] = "1 (rotating over the 4 forms)" if quick else \
        "2 for query/root messages, 1 for response-opt/update (rotating over the 4 forms)"

    # 3. error codes
    hi = 4200 if quick else 65536
    step = 350 if quick else 1024
    ecases = []
    for lo in range(0, hi, step):
        ecases.append(base_case(mode="errors", lo=lo, hi=min(hi, lo + step), form=(lo // step) % len(FORMS)))
    if quick:
        ecases.append(base_case(mode="errors", lo=0x7FF0, hi=0x8010, form=1))
        ecases.append(base_case(mode="errors", lo=0xFFE0, hi=0x10000, form=2))
        ecases.append(base_case(mode="errors", lo=0, hi=64, alg="hmac-sha512-256.", kind="response-opt", form=3))
    else:
        for alg in ALGS[:]:
            ecases.append(base_case(mode="errors", lo=0, hi=4100, alg=alg, kind="response-opt", keyname="Key.Example."))
    tasks += chunks(ecases, 1)
    ctx.extra["error_codes"] = ("1..4199, 0x7ff0..0x800f, 0xffe0..0xffff" if quick else "1..65535") + ", each with empty and 6-octet other data"

    # 4. placement
    pcases = [base_case(mode="place", alg=alg, kind=kind, keyname=kn)
              for alg in ALGS for kind in KINDS for kn in KEYNAMES]
    tasks += chunks(pcases, 12)

    # 5. natural API round trip
    rcases = [base_case(mode="roundtrip", alg=alg, kind=kind, keyname=kn, secret_len=sl, fudge=f, time=tk, err=err, form=i)
              for i, (alg, kind, kn, sl, f, tk, err) in enumerate(itertools.product(
                  ALGS, ["query", "update", "root"], KEYNAMES, SECRETS, FUDGES, TIMEKEYS, ERRS))]
    tasks += chunks(rcases, 200)

    # 5b. Renderer signing with a Key object and no explicit algorithm argument
    tasks += chunks([base_case(mode="rkey", alg=alg, keyname=kn) for alg in ALGS for kn in KEYNAMES], 18)
    tasks += chunks([base_case(mode="truncsign", alg=alg, keyname=kn, dropped_owner=ow, limit=lim, edns=ed, ntxt=3)
                     for alg in ("hmac-sha256.", "hmac-sha512.") for kn, ow in (("transfer.keys.example.", "keys.example."),
                                                                               ("keys.example.", "keys.example."),
                                                                               ("k.", "keys.example."), ("keys.example.", "q.example."))
                     for lim in (512, 530, 600, 700, 65535) for ed in (False, True)], 16)
    tasks += chunks([base_case(mode="rerender", alg=alg, kind=kind, role=role, mod=mod)
                     for alg in ALGS for kind in KINDS for role in ROLES for mod in ("none", "add-record", "flags", "id")], 24)

    # 6. multi-message exchanges
    mcases = []
    i = 0
    for alg in ALGS:
        for n in (2, 3, 4, 5):
            for role in ROLES:
                for tk in ("now", "big"):
                    for kn in KEYNAMES:
                        for orig in ORIGS:
                            if quick and (orig == "diff") != (kn == "k."):
                                continue
                            i += 1
                            mcases.append(base_case(mode="multi", alg=alg, n=n, role=role, time=tk, keyname=kn,
                                                    orig=orig, form=i, fudge=300, bitflips=False))
    # bit flips over sequences
    if quick:
        bf = [(alg, n, role) for alg in ("hmac-sha256.", "hmac-sha256-128.", "hmac-md5.sig-alg.reg.int.")
              for n, role in ((2, "response"), (3, "request"), (4, "response"))]
        bf += [("hmac-sha1.", 5, "request")]
    else:
        bf = [(alg, n, role) for alg in ALGS for n in (2, 3, 4, 5) for role in ROLES]
    ctx.extra["multi_bitflip_sequences"] = len(bf)
    for j, (alg, n, role) in enumerate(bf):
        pats = [(True,) + mid + (True,) for mid in itertools.product((True, False), repeat=n - 2)]
        for p in pats:
            mcases.append(base_case(mode="multi", alg=alg, n=n, role=role, form=j, bitflips=True, sub="bitflip",
                                    pattern=list(p), keyname="Key.Example." if j % 2 else "k.",
                                    orig="diff" if j % 3 == 0 else "same"))
    heavy = [c for c in mcases if c.get("bitflips")]
    light = [c for c in mcases if not c.get("bitflips")]
    tasks += chunks(light, 6)
    tasks += chunks(heavy, 1)
    ctx.extra["multi_cases"] = len(light)
    ctx.extra["multi_lengths"] = [2, 3, 4, 5]
    ctx.extra["multi_patterns_per_length"] = {"2": 1, "3": 2, "4": 4, "5": 8}

    # heavy tasks first so the pool drains evenly
    weight = {"multi": 3, "tamper": 2}
    tasks.sort(key=lambda t: -max(weight.get(c["mode"], 0) + (2 if c.get("bitflips") else 0) for c in t))
    ctx.extra["tasks"] = len(tasks)
    ctx.pmap(worker, tasks)
