"""C01: name text and wire codecs are exact inverses within the DNS length limits.

Small-scope exhaustive enumeration (E1) on the real dns.name / dns.tokenizer /
dns.wirebase code, judged by the independent reference in mc/refs/name.py:

 text     every 1- and 2-octet label, 3/4-octet labels over class alphabets, label sequences
          from a pool: to_text -> reference parser, -> from_text (str/bytes, origin None /
          root / other), omit_final_dot, NameStyle origin/relativize, Tokenizer.get_name
          before every delimiter, alternative reference spellings (\\DDD, \\X, raw)
 parse    every string over an escape-automaton alphabet up to a length, every \\DDD for
          000-999 in several contexts: from_text verdict == reference verdict
 limits   every label length 0-64, total lengths 250-258 as compositions of {1,2,62,63}:
          Name(), from_text, from_wire, copy/pickle, concatenate/derelativize/relativize/
          split at every cut, successor/predecessor -> result within limits or raised
 compress every sequence of <= 3 names over {a,b,A} depth <= 3 into one buffer with one
          table at base offsets around 0 and 0x3FFF: decode + pointer audit
 wire     every byte string over a boundary alphabet up to a length at every start offset,
          every pointer graph on K cells from every start cell: library verdict (labels,
          consumed, error family, pointer trail) == reference verdict
"""
from __future__ import annotations

import copy
import io
import itertools
import pickle
import struct
import traceback

import dns.exception
import dns.name
import dns.tokenizer
import dns.wirebase

from ..refs import name as R

PROPERTY = "C01"
LEVEL = "exploration"


# ---------------------------------------------------------------- instrumentation
class HopLimit(BaseException):
    """The library followed more pointers than any terminating decoder can."""


class AuditParser(dns.wirebase.Parser):
    """The real parser plus a trail of the compression pointers that were followed
    (Parser.seek is only called for that purpose once the object is constructed)."""

    last = None

    def __init__(self, wire, current=0):
        self.trail = None
        super().__init__(wire, current)
        self.trail = []
        AuditParser.last = self

    def seek(self, where):
        if self.trail is not None:
            # Decoding is a deterministic walk driven by the position: jumping to a target a
            # second time means the walk cycles (and that target was not strictly earlier).
            if any(t == where for _, t in self.trail) or len(self.trail) > len(self.wire) + 2:
                self.trail.append((self.current - 2, where))
                raise HopLimit()
            self.trail.append((self.current - 2, where))
        super().seek(where)


def lib_from_wire(msg, offset):
    """dns.name.from_wire with the audit parser in the library's own seam."""
    saved = dns.wirebase.Parser
    dns.wirebase.Parser = AuditParser
    AuditParser.last = None
    try:
        name, consumed = dns.name.from_wire(msg, offset)
        return name, consumed, AuditParser.last.trail
    finally:
        dns.wirebase.Parser = saved


def crash_sig(e):
    tb = traceback.extract_tb(e.__traceback__)
    t = type(e)
    tn = t.__name__ if t.__module__ == "builtins" else "%s.%s" % (t.__module__, t.__name__)
    return "crash:%s@%s" % (tn, tb[-1].name if tb else "?")


_NAMES = {}


def lname(labels):
    labels = tuple(labels)
    n = _NAMES.get(labels)
    if n is None:
        n = dns.name.Name(labels)
        if len(_NAMES) < 4096 and len(labels) <= 3:
            _NAMES[labels] = n
    return n


def show(labels):
    return R.text_encode(tuple(labels), "min") if R.limits_problem(tuple(labels)) is None else repr(labels)


def limits_probs(tag, labels, probs):
    p = R.limits_problem(tuple(labels))
    if p:
        probs.append(("%s/limit-exceeded" % tag, "%s produced a name with %s" % (tag, p)))


# ---------------------------------------------------------------- text round trip
ORIGINS = [None, R.ROOT, (b"example", b""), (b"a", b"")]
DELIMS = [" x\n", "", "\n", "\t", ";c\n", "(", ")", '"q"']


def unquoted_delimiter(text):
    """Index of the first octet that would end the token in a master file (RFC 1035 5.1),
    or -1.  A backslash quotes the next character (or introduces three digits)."""
    i = 0
    n = len(text)
    while i < n:
        c = text[i]
        if c == "\\":
            i += 2
            continue
        if c in ' \t\n\r;()"':
            return i
        i += 1
    return -1


def from_text_verdict(text, origin):
    """('ok', labels) | ('err', exception class name) | ('crash', sig, message)."""
    try:
        o = None if origin is None else lname(origin)
        return ("ok", dns.name.from_text(text, o).labels)
    except dns.exception.DNSException as e:
        return ("err", type(e).__name__)
    except Exception as e:
        return ("crash", crash_sig(e), "%s: %s" % (type(e).__name__, e))


def expect_text(probs, tag, text, origin, expected, what):
    """from_text(text, origin) must give `expected` labels (or raise NameTooLong-family
    when expected is None)."""
    v = from_text_verdict(text, origin)
    if v[0] == "crash":
        probs.append(("%s/%s" % (tag, v[1]), "%s: from_text(%r, origin=%s) crashed: %s" % (what, text, origin, v[2])))
    elif expected is None:
        if v[0] == "ok":
            probs.append(("%s/over-limit-accepted" % tag, "%s: from_text(%r, origin=%s) gave %r" % (what, text, origin, v[1])))
            limits_probs(tag, v[1], probs)
    elif v[0] == "err":
        probs.append(("%s/rejected/%s" % (tag, v[1]), "%s: from_text(%r, origin=%s) raised %s" % (what, text, origin, v[1])))
    elif tuple(v[1]) != tuple(expected):
        probs.append(("%s/labels-differ" % tag, "%s: from_text(%r, origin=%s) gave %r, expected %r" % (
            what, text, origin, v[1], tuple(expected))))


def with_origin(labels, origin):
    """Labels of a parsed spelling of `labels` when `origin` is supplied; None if over limit."""
    labels = tuple(labels)
    if R.is_absolute(labels) or origin is None:
        return labels
    full = labels + tuple(origin)
    return full if R.limits_problem(full) is None else None


def check_text(labels, level=2):
    """All text paths for one legal name.  level 0: core, 1: + spellings/tokenizer basics,
    2: + every delimiter, every origin, styles."""
    labels = tuple(labels)
    probs = []
    n = lname(labels)
    if n.labels != labels:
        probs.append(("C01/Name/labels-differ", "Name(%r).labels == %r" % (labels, n.labels)))
        return probs
    absolute = R.is_absolute(labels)
    try:
        t = n.to_text()
    except Exception as e:
        return [("C01/to_text/" + crash_sig(e), "to_text of %r: %s" % (labels, e))]
    if not isinstance(t, str):
        return [("C01/to_text/not-str", "to_text gave %r" % (t,))]
    # the library's text is one master-file token denoting exactly this name (RFC 1035 5.1)
    k = unquoted_delimiter(t)
    if k >= 0:
        probs.append(("C01/to_text/unquoted-delimiter", "to_text(%r) = %r has an unquoted token delimiter "
                      "at index %d" % (labels, t, k)))
    else:
        try:
            back = R.text_decode(t, None)
            if back != labels:
                probs.append(("C01/to_text/means-other-name", "to_text(%r) = %r denotes %r" % (labels, t, back)))
        except R.TextError as e:
            probs.append(("C01/to_text/invalid-text", "to_text(%r) = %r is not a valid name text: %s" % (labels, t, e.kind)))
    if str(n) != t:
        probs.append(("C01/to_text/str-differs", "str() = %r, to_text() = %r" % (str(n), t)))
    origins = ORIGINS if level >= 2 else ORIGINS[:2]
    for o in origins:
        expect_text(probs, "C01/text-roundtrip", t, o, with_origin(labels, o), "to_text->from_text")
    expect_text(probs, "C01/text-roundtrip-bytes", t.encode("ascii", "replace"), None, labels, "to_text->from_text(bytes)")
    # omit_final_dot: an absolute name written without the dot, read back against the root
    try:
        t2 = n.to_text(omit_final_dot=True)
        if absolute and labels != R.ROOT:
            if t2 + "." != t:
                probs.append(("C01/omit_final_dot/text", "to_text(omit_final_dot=True) = %r, with dot %r" % (t2, t)))
            expect_text(probs, "C01/omit_final_dot", t2, R.ROOT, labels, "omit_final_dot->from_text(origin=root)")
        elif t2 != t:
            probs.append(("C01/omit_final_dot/text", "omit_final_dot changed %r into %r" % (t, t2)))
    except Exception as e:
        probs.append(("C01/omit_final_dot/" + crash_sig(e), "%r: %s" % (labels, e)))
    if level >= 1:
        # alternative spellings of the same name must parse to the same labels
        for sp in ("ddd", "x", "raw"):
            tb = R.text_encode_bytes(labels, sp)
            expect_text(probs, "C01/from_text-spelling-" + sp, tb, None, labels, "reference spelling")
            if sp == "ddd":
                expect_text(probs, "C01/from_text-spelling-ddd", tb.decode("ascii"), R.ROOT, with_origin(labels, R.ROOT),
                            "reference spelling (str)")
        # zone-file path
        delims = DELIMS if level >= 2 else DELIMS[:2]
        for d in delims:
            for o in (None, (b"example", b"")) if level >= 2 else (None,):
                try:
                    tok = dns.tokenizer.Tokenizer(t + d)
                    got = tok.get_name(origin=None if o is None else lname(o)).labels
                except Exception as e:
                    probs.append(("C01/tokenizer/" + (crash_sig(e) if not isinstance(e, dns.exception.DNSException)
                                                      else "rejected/" + type(e).__name__),
                                  "Tokenizer(%r).get_name(origin=%s): %s: %s" % (t + d, o, type(e).__name__, e)))
                    continue
                exp = with_origin(labels, o)
                if exp is not None and tuple(got) != exp:
                    probs.append(("C01/tokenizer/labels-differ", "Tokenizer(%r).get_name(origin=%s) gave %r expected %r" % (
                        t + d, o, got, exp)))
                if d == " x\n":
                    try:
                        nxt = tok.get()
                    except Exception as e:
                        probs.append(("C01/tokenizer/next-token", "after the name in %r reading the next token raised %s: %s" % (
                            t + d, type(e).__name__, e)))
                        continue
                    if not (nxt.is_identifier() and nxt.value == "x"):
                        probs.append(("C01/tokenizer/next-token", "after the name in %r the next token is %r" % (t + d, nxt)))
    if level >= 2:
        for o in ORIGINS[1:]:
            on = lname(o)
            # absolute name under the origin written relative to it
            if absolute and R.is_subdomain(labels, o):
                try:
                    ts = n.to_text(style=dns.name.NameStyle(origin=on, relativize=True))
                    exp = labels[:len(labels) - len(o)] + tuple(o)
                    try:
                        back = R.text_decode(ts, o)
                    except R.TextError as e:
                        back = "invalid text (%s)" % e.kind
                    if back != exp:
                        probs.append(("C01/style-relativize/means-other-name", "%r relativized to %r written %r denotes %r" % (
                            labels, o, ts, back)))
                    expect_text(probs, "C01/style-relativize", ts, o, exp, "NameStyle(relativize=True)")
                    # the relativized name is not absolute: omit_final_dot has nothing to omit
                    ts2 = n.to_text(style=dns.name.NameStyle(origin=on, relativize=True, omit_final_dot=True))
                    if ts2 != ts and len(labels) > len(o):
                        probs.append(("C01/style-relativize/omit_final_dot-changes-relative-name",
                                      "%r relativized to %r: %r, with omit_final_dot %r" % (labels, o, ts, ts2)))
                except Exception as e:
                    probs.append(("C01/style-relativize/" + crash_sig(e), "%r origin %r: %s" % (labels, o, e)))
            if not absolute:
                exp = with_origin(labels, o)
                try:
                    ts = n.to_text(style=dns.name.NameStyle(origin=on, relativize=False))
                    if exp is None:
                        probs.append(("C01/style-derelativize/over-limit-accepted", "%r + %r written as %r" % (labels, o, ts)))
                    else:
                        try:
                            back = R.text_decode(ts, None)
                        except R.TextError as e:
                            back = "invalid text (%s)" % e.kind
                        if back != exp:
                            probs.append(("C01/style-derelativize/means-other-name", "%r derelativized to %r written %r denotes %r" % (
                                labels, o, ts, back)))
                        expect_text(probs, "C01/style-derelativize", ts, None, exp, "NameStyle(relativize=False)")
                        ts2 = n.to_text(style=dns.name.NameStyle(origin=on, relativize=False, omit_final_dot=True))
                        if exp != R.ROOT and ts2 + "." != ts:
                            probs.append(("C01/style-derelativize/omit_final_dot", "%r derelativized to %r: %r, with omit_final_dot %r" % (
                                labels, o, ts, ts2)))
                except dns.exception.DNSException as e:
                    if exp is not None:
                        probs.append(("C01/style-derelativize/rejected/" + type(e).__name__, "%r origin %r" % (labels, o)))
                except Exception as e:
                    probs.append(("C01/style-derelativize/" + crash_sig(e), "%r origin %r: %s" % (labels, o, e)))
    return probs


# ---------------------------------------------------------------- text parsing verdicts
def check_parse(text, origin):
    """from_text(text, origin) against the reference parser.  text: bytes."""
    probs = []
    try:
        exp = R.text_decode(text, origin)
        ref = "ok"
    except R.TextError as e:
        exp = None
        ref = e.kind
    if ref == "empty-text":
        return probs, "skip"
    inputs = [text]
    if all(c < 0x80 for c in text):
        inputs.append(text.decode("ascii"))
    out = ref
    for inp in inputs:
        v = from_text_verdict(inp, origin)
        kind = "bytes" if isinstance(inp, bytes) else "str"
        if v[0] == "crash":
            probs.append(("C01/from_text/%s/ref=%s" % (v[1], ref),
                          "from_text(%r, origin=%s) crashed with %s; reference verdict: %s" % (inp, origin, v[2], ref)))
            out = "crash"
        elif v[0] == "ok" and exp is None:
            probs.append(("C01/from_text/accepts-invalid/" + ref, "from_text(%r, origin=%s) gave %r; reference: %s" % (
                inp, origin, v[1], ref)))
            limits_probs("C01/from_text", v[1], probs)
        elif v[0] == "err" and exp is not None:
            probs.append(("C01/from_text/rejects-valid/" + v[1], "from_text(%r (%s), origin=%s) raised %s; reference: %r" % (
                inp, kind, origin, v[1], exp)))
        elif v[0] == "ok" and tuple(v[1]) != exp:
            probs.append(("C01/from_text/labels-differ", "from_text(%r (%s), origin=%s) gave %r; reference: %r" % (
                inp, kind, origin, v[1], exp)))
    return probs, out


# ---------------------------------------------------------------- limits
NAME_ERRORS = (dns.name.LabelTooLong, dns.name.NameTooLong, dns.name.EmptyLabel)


def check_limits(labels):
    """One label sequence, legal or not, through every constructor."""
    labels = tuple(labels)
    probs = []
    bad = R.limits_problem(labels)
    what = "labels with lengths %r" % ([len(l) for l in labels],)
    # Name()
    try:
        n = lname(labels)
        if bad:
            probs.append(("C01/Name/over-limit-accepted", "Name() accepted %s (%s)" % (what, bad)))
        elif n.labels != labels:
            probs.append(("C01/Name/labels-differ", "Name() changed %s" % what))
    except NAME_ERRORS as e:
        n = None
        if not bad:
            probs.append(("C01/Name/rejected/" + type(e).__name__, "Name() rejected legal %s" % what))
    except Exception as e:
        n = None
        probs.append(("C01/Name/" + crash_sig(e), "%s: %s" % (what, e)))
    # text
    if all(len(l) > 0 for l in labels[:-1]) and labels and labels != R.ROOT:
        tb = R.text_encode_bytes(labels, "min")
        if tb != b"@":
            expect_text(probs, "C01/from_text-limits", tb, None, None if bad else labels, what)
            expect_text(probs, "C01/from_text-limits", tb.decode("ascii"), None, None if bad else labels, what)
    # wire
    if R.is_absolute(labels) and all(0 < len(l) <= 63 for l in labels[:-1]):
        w = R.wire_encode(labels, check=False)
        for pre in (b"", b"\x07pad"):
            p, _ = check_wire(pre + w, len(pre))
            probs += p
        if n is not None:
            try:
                if n.to_wire() != w:
                    probs.append(("C01/to_wire/bytes-differ", "to_wire() of %s" % what))
                f = io.BytesIO()
                n.to_wire(f, {})
                if f.getvalue() != w:
                    probs.append(("C01/to_wire/bytes-differ", "to_wire(file, compress={}) of %s" % what))
            except Exception as e:
                probs.append(("C01/to_wire/" + crash_sig(e), "%s: %s" % (what, e)))
    # copies keep the value
    if n is not None and not bad:
        try:
            for mk, c in (("copy", copy.copy(n)), ("deepcopy", copy.deepcopy(n)), ("pickle", pickle.loads(pickle.dumps(n)))):
                if c.labels != labels:
                    probs.append(("C01/%s/labels-differ" % mk, what))
        except Exception as e:
            probs.append(("C01/copy/" + crash_sig(e), "%s: %s" % (what, e)))
    if bad and labels:
        # the pickle path must validate too
        try:
            x = dns.name.Name.__new__(dns.name.Name)
            x.__setstate__({"labels": labels})
            probs.append(("C01/setstate/over-limit-accepted", "__setstate__ accepted %s (%s)" % (what, bad)))
        except NAME_ERRORS:
            pass
        except Exception as e:
            probs.append(("C01/setstate/" + crash_sig(e), "%s: %s" % (what, e)))
    return probs


def producing(probs, tag, fn, expected, what):
    """Run a name-producing operation: result within limits and == expected, or (expected
    None) it must raise a dns exception."""
    try:
        r = fn()
    except dns.exception.DNSException as e:
        if expected is not None and expected is not True:
            probs.append(("%s/rejected/%s" % (tag, type(e).__name__), "%s raised %s" % (what, type(e).__name__)))
        return None
    except Exception as e:
        probs.append(("%s/%s" % (tag, crash_sig(e)), "%s: %s: %s" % (what, type(e).__name__, e)))
        return None
    labs = r.labels
    limits_probs(tag, labs, probs)
    if expected is None:
        probs.append(("%s/over-limit-accepted" % tag, "%s returned a name with label lengths %r" % (what, [len(l) for l in labs])))
    elif expected is not True and tuple(labs) != tuple(expected):
        probs.append(("%s/labels-differ" % tag, "%s returned %r expected %r" % (what, labs, expected)))
    return r


def check_ops(labels):
    """Operations on one absolute label sequence whose encoded length may exceed 255 by a
    little: every cut into a relative prefix and an absolute suffix."""
    labels = tuple(labels)
    probs = []
    bad = R.limits_problem(labels)
    lens = [len(l) for l in labels]
    nl = len(labels)
    cuts = range(nl) if nl <= 12 else sorted({0, 1, 2, 3, nl // 2, nl - 4, nl - 3, nl - 2, nl - 1})
    for cut in cuts:
        pre, suf = labels[:cut], labels[cut:]
        if R.limits_problem(pre) or R.limits_problem(suf):
            continue
        P, S = lname(pre), lname(suf)
        what = "lengths %r cut at %d" % (lens, cut)
        exp = None if bad else labels
        producing(probs, "C01/concatenate", lambda: P.concatenate(S), exp, "concatenate " + what)
        producing(probs, "C01/add", lambda: P + S, exp, "__add__ " + what)
        producing(probs, "C01/derelativize", lambda: P.derelativize(S), exp, "derelativize " + what)
        producing(probs, "C01/choose_relativity", lambda: P.choose_relativity(S, False), exp, "choose_relativity " + what)
        if not bad:
            N = lname(labels)
            producing(probs, "C01/relativize", lambda: N.relativize(S), pre, "relativize " + what)
            producing(probs, "C01/sub", lambda: N - S, pre, "__sub__ " + what)
            try:
                a, b = N.split(len(suf))
                if a.labels != pre or b.labels != suf:
                    probs.append(("C01/split/labels-differ", "split " + what))
            except Exception as e:
                probs.append(("C01/split/" + crash_sig(e), "split %s: %s" % (what, e)))
            # RFC 4471 neighbours stay inside the limits and inside the zone
            if cut >= len(labels) - 3 or cut <= 1:
                for pok in (True, False):
                    for opn in ("successor", "predecessor"):
                        for rel in (False, True):
                            subj = P if rel else N
                            r = producing(probs, "C01/" + opn, lambda: getattr(subj, opn)(S, pok), True,
                                          "%s(prefix_ok=%s, relative=%s) %s" % (opn, pok, rel, what))
                            if r is not None:
                                if rel and R.is_absolute(r.labels):
                                    probs.append(("C01/%s/relativity-changed" % opn, what))
                                elif not rel and not R.is_subdomain(r.labels, suf):
                                    probs.append(("C01/%s/left-zone" % opn, what))
    return probs


# ---------------------------------------------------------------- compression
def check_compress(names, base, splits=None):
    """Write the names one after the other into a buffer that already holds `base` octets,
    sharing one compression table; audit the bytes with the reference decoder."""
    probs = []
    f = io.BytesIO()
    f.write(b"\x00" * base)
    table = {}
    spans = []
    what = "names %s at base %#x splits %r" % ([show(n) for n in names], base, splits)
    for i, labels in enumerate(names):
        labels = tuple(labels)
        start = f.tell()
        try:
            if splits and splits[i]:
                k = len(labels) - splits[i]
                lname(labels[:k]).to_wire(f, table, origin=lname(labels[k:]))
            else:
                lname(labels).to_wire(f, table)
        except Exception as e:
            probs.append(("C01/to_wire-compress/" + crash_sig(e), "%s: name %d: %s: %s" % (what, i, type(e).__name__, e)))
            return probs, "crash"
        spans.append((start, f.tell()))
    msg = f.getvalue()
    npointers = 0
    for i, labels in enumerate(names):
        labels = tuple(labels)
        start, end = spans[i]
        try:
            d = R.wire_decode(msg, start)
        except R.WireError as e:
            probs.append(("C01/to_wire-compress/undecodable/" + e.kind, "%s: name %d at %d: reference decoder: %s; buffer %s" % (
                what, i, start, e.kind, msg[base:].hex())))
            continue
        npointers += len(d.hops)
        if d.consumed != end - start:
            probs.append(("C01/to_wire-compress/length", "%s: name %d wrote %d octets, decodes as %d" % (what, i, end - start, d.consumed)))
        # literal labels byte-identical, pointer-supplied labels equal up to ASCII case
        if d.labels[:d.nliteral] != labels[:d.nliteral] or not R.same_name(d.labels, labels):
            probs.append(("C01/to_wire-compress/labels-differ", "%s: name %d decodes as %s" % (what, i, show(d.labels))))
        for ptr, target in d.hops:
            if target > 0x3FFF or target >= start:
                probs.append(("C01/to_wire-compress/bad-pointer", "%s: name %d has a pointer at %d to %d" % (what, i, ptr, target)))
        p, _ = check_wire(msg, start, expect=(d.labels, end - start))
        probs += p
    for key, off in table.items():
        if off > 0x3FFF:
            continue      # not expressible as a pointer; harmless unless used (then the audit above fires)
        try:
            d = R.wire_decode(msg, off)
            if not R.same_name(d.labels, key.labels):
                probs.append(("C01/to_wire-compress/table-entry-wrong", "%s: table entry %s -> %d decodes as %s" % (
                    what, key, off, show(d.labels))))
        except R.WireError as e:
            probs.append(("C01/to_wire-compress/table-entry-undecodable", "%s: entry %s -> %d: %s" % (what, key, off, e.kind)))
    return probs, ("pointers" if npointers else "literal")


# ---------------------------------------------------------------- wire decoding
def check_wire(msg, offset, expect=None):
    """dns.name.from_wire(msg, offset) against the reference decoder.
    Returns (problems, outcome label)."""
    probs = []
    try:
        ref = R.wire_decode(msg, offset)
        kind = "ok"
    except R.WireError as e:
        ref = None
        kind = e.kind
    what = "from_wire(%s, %d)" % (msg.hex() if len(msg) <= 64 else msg[:24].hex() + "..(%d octets)" % len(msg), offset)
    try:
        name, consumed, trail = lib_from_wire(msg, offset)
    except dns.exception.FormError as e:
        if ref is not None:
            probs.append(("C01/from_wire/rejects-valid/" + type(e).__name__, "%s raised %s; reference: %r consumed %d" % (
                what, type(e).__name__, ref.labels, ref.consumed)))
        return probs, kind
    except HopLimit:
        trail = AuditParser.last.trail if AuditParser.last is not None else []
        probs.append(("C01/from_wire/nontermination", "%s jumped to offset %d a second time (pointer trail %r): the decoder "
                      "cycles; reference: %s" % (what, trail[-1][1] if trail else -1, trail[-4:], kind)))
        return probs, "hop-limit"
    except Exception as e:
        probs.append(("C01/from_wire/%s/ref=%s" % (crash_sig(e), kind), "%s: %s: %s" % (what, type(e).__name__, e)))
        return probs, "crash"
    labs = name.labels
    limits_probs("C01/from_wire", labs, probs)
    # pointer audit on what the library actually did
    prev = offset
    for ptr, target in trail:
        if target >= ptr or target >= prev:
            probs.append(("C01/from_wire/pointer-not-strictly-earlier", "%s followed a pointer at %d to %d (previous bound %d)" % (
                what, ptr, target, prev)))
            break
        prev = target
    if ref is None:
        if not any(s.startswith("C01/from_wire/pointer-not") for s, _ in probs):
            probs.append(("C01/from_wire/accepts-invalid/" + kind, "%s returned %r; reference: %s" % (what, labs, kind)))
        return probs, kind
    out = "ok-hops%d" % min(len(ref.hops), 3)
    if tuple(labs) != ref.labels:
        probs.append(("C01/from_wire/labels-differ", "%s returned %r; reference %r" % (what, labs, ref.labels)))
    if list(trail) != list(ref.hops):
        probs.append(("C01/from_wire/pointer-trail", "%s followed %r; reference %r" % (what, trail, ref.hops)))
    if consumed != ref.consumed:
        furthest = max(e for _, e in ref.segments)
        if furthest > offset + ref.consumed and consumed == furthest - offset:
            # A pointed-to run of labels extends beyond the pointer itself (only possible in
            # crafted input); the property does not speak about the consumed count there.
            out = "ok-overlap-consumed-furthest"
        else:
            probs.append(("C01/from_wire/consumed-differs", "%s consumed %d; reference %d" % (what, consumed, ref.consumed)))
    if expect is not None:
        if tuple(labs) != tuple(expect[0]) or consumed != expect[1]:
            probs.append(("C01/from_wire/roundtrip-differs", "%s returned %r/%d expected %r/%d" % (what, labs, consumed, expect[0], expect[1])))
    return probs, out


# ---------------------------------------------------------------- recheck
# ------------------------------------------------------------------ compression table after a Renderer rollback
def _rollback_relevant(sig):
    return sig.startswith(("renderer/refparse", "renderer/kept-sets-differ"))


def rollback_case(case):
    """The compression table handed to to_wire by a size-limited dns.renderer.Renderer that
    refused a record set and carried on: every name written afterwards must still decode to
    itself (c08.judge_renderer parses the output with the independent reference parser and
    compares the kept record sets)."""
    from . import c08
    probs, info = c08.judge_renderer(case)
    return [("C01/renderer-rollback/" + s.split("/", 1)[1], w) for s, w in probs if _rollback_relevant(s)], info


def w_rollback(task, col):
    _, mi, lo, hi = task
    for L in range(lo, hi):
        for tsig in (0, 3):
            case = {"mode": "renderer-rollback", "msg": mi, "L": L, "tsig": tsig}
            probs, info = rollback_case(case)
            col.count("evaluations")
            col.count("evaluations_renderer_rollback")
            col.outcome("renderer-rollback:%s" % (probs[0][0] if probs else info.get("outcome", "ok")))
            for s_, w_ in probs:
                col.violation(s_, "%s (message %d, max_size %d, tsig variant %d)" % (w_, mi, L, tsig), case)


def rollback_tasks():
    from . import c08
    out = []
    for mi in range(len(c08.MESSAGES)):
        full = c08.base_facts(mi)["full"]
        for lo in range(512, full + 20, 200):
            out.append(("rollback", mi, lo, min(lo + 200, full + 20)))
    return out


def recheck(case):
    m = case["mode"]
    if m == "renderer-rollback":
        return rollback_case(case)[0]
    if m == "mutable-label":
        return mutable_label_case(case)[0]
    if m == "origin-limit":
        return origin_limit_case(case)[0]
    if m == "text":
        return check_text([bytes(l) for l in case["labels"]], case.get("level", 2))
    if m == "parse":
        o = case["origin"]
        return check_parse(bytes(case["text"]), None if o is None else tuple(bytes(l) for l in o))[0]
    if m == "limits":
        return check_limits([bytes(l) for l in case["labels"]])
    if m == "ops":
        return check_ops([bytes(l) for l in case["labels"]])
    if m == "compress":
        return check_compress([[bytes(l) for l in n] for n in case["names"]], case["base"], case.get("splits"))[0]
    if m == "wire":
        return check_wire(bytes(case["msg"]), case["offset"])[0]
    raise AssertionError(m)


def report(col, probs, case):
    for s, w in probs:
        col.violation(s, w, case)


# ---------------------------------------------------------------- enumeration (workers)
PLAIN = frozenset(b"abcdefghijklmnopqrstuvwxyzABCDEFGHIJKLMNOPQRSTUVWXYZ0123456789-_")

ALPHA3_Q = [0x00, 0x09, 0x0A, 0x20, 0x22, 0x24, 0x28, 0x29, 0x2E, 0x3B, 0x40, 0x5C, 0x30, 0x39, 0x41, 0x61, 0x7E, 0x7F, 0x80, 0xFF]
ALPHA3_T = ALPHA3_Q + [0x01, 0x0D, 0x1F, 0x21, 0x2D, 0x2F, 0x35, 0x3A, 0x5A, 0x5B, 0x7A, 0xC0]
ALPHA4_Q = [0x00, 0x20, 0x22, 0x2E, 0x3B, 0x40, 0x5C, 0x30, 0x39, 0x61, 0x7F, 0xFF]
ALPHA4_T = ALPHA4_Q + [0x09, 0x24, 0x28, 0x80]
POOL = [b"a", b"Z", b"\x00", b".", b"\\", b"@", b'"', b"\xff9", b"1", b" ;"]


def text_case(col, labels, level):
    labels = tuple(labels)
    probs = check_text(labels, level)
    col.count("evaluations")
    col.count("text_cases")
    nt = any(c not in PLAIN for l in labels for c in l)
    if nt:
        col.nontrivial(("text", labels))
    col.outcome("text:" + ("ok-escaped" if nt else "ok-plain") if not probs else "text:" + probs[0][0])
    if probs:
        report(col, probs, {"mode": "text", "labels": list(labels), "level": level})


def w_text1(task, col):
    """1-octet labels (all) and 2-octet labels with the given first octets."""
    _, firsts, do_single, both = task
    if do_single:
        for c in range(256):
            for tail in ((), (b"",), (b"b",), (b"b", b"")):
                text_case(col, (bytes([c]),) + tail, 2)
    for a in firsts:
        for b in range(256):
            l = bytes([a, b])
            text_case(col, (l, b""), 1)
            if both:
                text_case(col, (l,), 0)
    col.sample({"text1": "2-octet labels with first octet in %r" % (list(firsts),)}, limit=1)


def w_textk(task, col):
    _, alpha, k, first = task
    for rest in itertools.product(alpha, repeat=k - 1):
        l = bytes((first,) + rest)
        text_case(col, (l, b""), 1)
        text_case(col, (l,), 0)


def w_textpool(task, col):
    _, first = task
    for k in (0, 1, 2):
        for rest in itertools.product(POOL, repeat=k):
            ls = (first,) + rest
            text_case(col, ls, 2)
            text_case(col, ls + (b"",), 2)
    col.sample({"pool_name": show((first, POOL[3], POOL[5], b""))}, limit=1)


PARSE_ALPHA = [b"\\", b".", b"0", b"2", b"5", b"6", b"9", b"a", b"@"]
PARSE_ALPHA_LONG = [b"\\", b".", b"2", b"5", b"6", b"a"]
PARSE_ORIGINS = [None, R.ROOT]


def parse_case(col, text, origin):
    probs, out = check_parse(text, origin)
    if out == "skip":
        return
    col.count("evaluations")
    col.count("parse_cases")
    if b"\\" in text:
        col.count("parse_cases_with_escape")
    col.outcome("parse:" + out)
    if probs:
        report(col, probs, {"mode": "parse", "text": text, "origin": None if origin is None else list(origin)})


def w_parse(task, col):
    _, prefix, minlen, maxlen, alpha = task
    pre = b"".join(prefix)
    for k in range(max(0, minlen - len(prefix)), maxlen - len(prefix) + 1):
        for rest in itertools.product(alpha, repeat=k):
            text = pre + b"".join(rest)
            for o in PARSE_ORIGINS:
                parse_case(col, text, o)
    col.nontrivial(("parse-prefix", pre))
    col.sample({"parse_text": (pre + b"\\256").decode()}, limit=1)


def w_parse_short(task, col):
    _, upto = task
    for k in range(1, upto + 1):
        for t in itertools.product(PARSE_ALPHA, repeat=k):
            for o in PARSE_ORIGINS:
                parse_case(col, b"".join(t), o)


def w_parse_ddd(task, col):
    """Every \\DDD, 000-999, alone / after an octet / before a digit, a letter, a dot / twice;
    every \\X for all 256 X; raw high octets in bytes input."""
    _, lo, hi = task
    for v in range(lo, hi):
        e = b"\\%03d" % v
        for text in (e, b"a" + e, e + b"0", e + b"9a", e + b".", e + b".b", e + e, b"b." + e + b"7"):
            for o in (None, R.ROOT, (b"example", b"")):
                parse_case(col, text, o)
        col.nontrivial(("ddd", v))
    if lo == 0:
        for x in range(256):
            q = b"\\" + bytes([x])
            for text in (q, q + b"1", b"a" + q + b".", q + q, bytes([x]), b"a" + bytes([x]) + b"0"):
                for o in (None, R.ROOT):
                    parse_case(col, text, o)
            col.nontrivial(("x", x))


def compositions(lo, hi):
    """Label-length sequences over {1,2,62,63} whose absolute encoded length is lo..hi:
    every order of <= 4 long labels, the short ones (0-3 of length 2, the rest length 1) as
    one run placed first, last or in the middle."""
    seen = set()
    for nb in range(0, 5):
        for bigs in itertools.product((62, 63), repeat=nb):
            used = sum(b + 1 for b in bigs) + 1
            for total in range(lo, hi + 1):
                rem = total - used
                if rem < 0:
                    continue
                for twos in range(0, 4):
                    ones = rem - 3 * twos
                    if ones < 0 or ones % 2:
                        continue
                    ones //= 2
                    small = [2] * twos + [1] * ones
                    for variant in range(4):
                        if variant == 0:
                            seq = small + list(bigs)
                        elif variant == 1:
                            seq = list(bigs) + small
                        elif variant == 2:
                            h = len(bigs) // 2
                            seq = list(bigs[:h]) + small + list(bigs[h:])
                        else:
                            seq = list(reversed(small)) + list(bigs)
                        seq = tuple(seq)
                        if seq and seq not in seen:
                            seen.add(seq)
                            yield seq


FILL = [b"a", b"\xff", b"Z", b"\x00"]


def w_limits(task, col):
    _, what, arg = task
    if what == "labels":
        for L in range(0, 65):
            for ch in (b"a", b"\xff", b".", b"\x00"):
                for tail in ((), (b"",), (b"b", b"")):
                    labels = (ch * L,) + tail
                    probs = check_limits(labels)
                    col.count("evaluations")
                    col.count("limit_cases")
                    col.nontrivial(("limits", labels))
                    col.outcome("limits:" + ("legal" if R.limits_problem(labels) is None else "illegal") if not probs
                                else "limits:" + probs[0][0])
                    report(col, probs, {"mode": "limits", "labels": list(labels)})
                    if R.limits_problem(labels) is None and L > 0:
                        text_case(col, labels, 1)
    else:
        seqs, fill = arg
        for seq in seqs:
            labels = tuple(fill * n for n in seq) + (b"",)
            total = R.wire_length(labels)
            for mode, fn in (("limits", check_limits), ("ops", check_ops)):
                probs = fn(labels)
                col.count("evaluations")
                col.count("limit_cases")
                col.outcome("%s:len%d" % (mode, total) if not probs else "%s:%s" % (mode, probs[0][0]))
                report(col, probs, {"mode": mode, "labels": list(labels)})
            col.nontrivial(("composition", seq, fill))
            if total <= 255 and len(labels) <= 8:
                text_case(col, labels, 1)
                text_case(col, labels[:-1], 1)
        col.sample({"composition_lengths": list(seqs[0]), "fill": fill}, limit=1)


def compress_names(depth):
    out = [R.ROOT]
    for k in range(1, depth + 1):
        for ls in itertools.product((b"a", b"b", b"A"), repeat=k):
            out.append(ls + (b"",))
    return out


def compress_case(col, names, base, splits=None):
    probs, out = check_compress(names, base, splits)
    col.count("evaluations")
    col.count("compress_cases")
    col.outcome("compress:" + out if not probs else "compress:" + probs[0][0])
    if out == "pointers":
        col.nontrivial(("compress", tuple(names), base, tuple(splits or ())))
    if probs:
        report(col, probs, {"mode": "compress", "names": [list(n) for n in names], "base": base, "splits": splits})


def w_compress(task, col):
    _, first, depth3, depth2, bases = task
    n3 = compress_names(depth3)
    n2 = compress_names(depth2)
    for base in bases:
        compress_case(col, [first], base)
        for b in n3:
            compress_case(col, [first, b], base)
            # relative name + origin spellings of both names, every cut
            if base in (12, 0x3FFE):
                for s1 in range(0, len(first) + 1):
                    for s2 in range(0, len(b) + 1):
                        if s1 or s2:
                            compress_case(col, [first, b], base, [s1, s2])
        if first in n2:
            for b in n2:
                for c in n2:
                    compress_case(col, [first, b, c], base)
    col.sample({"compress": [show(first), show(n3[-1])], "bases": list(bases)}, limit=1)


def w_compress3(task, col):
    _, first, second, depth, bases = task
    ns = compress_names(depth)
    for base in bases:
        for c in ns:
            compress_case(col, [first, second, c], base)


WIRE_ALPHA = [0x00, 0x01, 0x02, 0x3F, 0x40, 0x80, 0xBF, 0xC0, 0xC1, 0xFF, 0x61]
WIRE_ALPHA_LONG = [0x00, 0x01, 0x02, 0x40, 0xC0, 0xC1, 0x61]


def wire_case(col, msg, offset):
    probs, out = check_wire(msg, offset)
    col.count("evaluations")
    col.count("wire_cases")
    col.outcome("wire:" + out)
    if out != "ok-hops0":
        col.count("wire_cases_pointer_or_error")
    if probs:
        report(col, probs, {"mode": "wire", "msg": msg, "offset": offset})
    return out


def w_wire(task, col):
    _, prefix, minlen, maxlen, alpha = task
    pre = bytes(prefix)
    kinds = set()
    for k in range(max(0, minlen - len(pre)), maxlen - len(pre) + 1):
        for rest in itertools.product(alpha, repeat=k):
            msg = pre + bytes(rest)
            for off in range(len(msg) + 1):
                kinds.add(wire_case(col, msg, off))
    for kd in kinds:
        col.nontrivial(("wire", pre, kd))
    col.sample({"wire_prefix": pre.hex(), "max_len": maxlen}, limit=1)


def w_wire_short(task, col):
    _, upto = task
    for k in range(0, upto + 1):
        for t in itertools.product(WIRE_ALPHA, repeat=k):
            msg = bytes(t)
            for off in range(-1, len(msg) + 2):
                wire_case(col, msg, off)


def graph_bytes(cells, base):
    out = bytearray(b"\x00" * base)
    for i, c in enumerate(cells):
        if c == "L":
            out += b"\x01" + bytes([0x61 + i % 26])
        elif c == "T":
            out += b"\x00\x07"      # terminator + one octet nobody should read
        else:
            t = base + 2 * c
            out += struct.pack("!H", 0xC000 | t)
    return bytes(out)


def w_graph(task, col):
    """Every pointer graph on K two-octet cells: literal label | terminator | pointer to any
    cell (backward, self, forward), decoded from every cell."""
    _, K, first, bases = task
    choices = ["L", "T"] + list(range(K))
    for rest in itertools.product(choices, repeat=K - 1):
        cells = (first,) + rest
        for base in bases:
            if base + 2 * (K - 1) > 0x3FFF:
                continue
            msg = graph_bytes(cells, base)
            kinds = set()
            for start in range(K):
                kinds.add(wire_case(col, msg, base + 2 * start))
            col.count("graphs")
            if K <= 6 and base == 0:
                col.nontrivial(("graph", cells))
    col.sample({"graph_cells": [first] + list(rest), "K": K}, limit=1)


def w_wire_long(task, col):
    """Hand-shaped long inputs the short alphabet cannot reach: 63-octet labels, names of
    253-257 octets assembled through pointers, pointer chains near offset 0x3FFF."""
    lab63 = b"\x3f" + b"x" * 63
    for nlab in (3, 4):
        for tail_len in range(55, 64):
            body = lab63 * (nlab - 1) + bytes([tail_len]) + b"y" * tail_len
            # suffix first, then a name pointing at it: total length crosses 255
            for extra in range(0, 6):
                msg = body + b"\x00" + (bytes([extra]) + b"z" * extra if extra else b"") + b"\xc0\x00"
                wire_case(col, msg, len(body) + 1)
                wire_case(col, msg, 0)
    for base in (0x3FF0, 0x3FFC, 0x3FFE, 0x3FFF, 0x4000):
        pad = b"\x00" * base
        msg = pad + b"\x01a\x00" + b"\x01b" + struct.pack("!H", 0xC000 | (base & 0x3FFF)) + b"\x01c" + struct.pack(
            "!H", 0xC000 | ((base + 3) & 0x3FFF))
        for off in (base, base + 3, base + 7, base + 5, base + 9):
            wire_case(col, msg, off)
    # every length/type octet with enough data behind it (the short strings always truncate
    # the long ones), as first and as second label, directly and through a pointer
    for c in range(256):
        body = bytes([c]) + b"x" * c + b"\x00"
        for msg, off in ((body, 0), (b"\x00\x00" + body, 2), (b"\x01a" + body, 0),
                         (body + b"\xc0\x00", len(body)), (body + b"\x01b\xc0\x00", len(body))):
            wire_case(col, msg, off)
        col.nontrivial(("wire-first-octet", c))
    col.nontrivial(("wire-long",))


def origin_limit_case(case):
    """to_wire / to_digestable of a relative name with an origin: the result is the encoding
    of a *name*, so it obeys the 255-octet limit (or the call raises), in both spellings
    (returning bytes, writing to a file)."""
    import io
    rel = dns.name.Name([b"x" * l for l in case["rel"]])
    org = dns.name.Name([b"o" * l for l in case["org"]] + [b""])
    total = sum(l + 1 for l in case["rel"]) + sum(l + 1 for l in case["org"]) + 1
    probs = []
    outs = {}
    for how in ("bytes", "file", "digestable"):
        try:
            if how == "bytes":
                outs[how] = rel.to_wire(origin=org)
            elif how == "file":
                f = io.BytesIO()
                rel.to_wire(f, None, org)
                outs[how] = f.getvalue()
            else:
                outs[how] = rel.to_digestable(org)
        except dns.name.NameTooLong:
            outs[how] = "NameTooLong"
        except Exception as e:
            outs[how] = "crash:" + crash_sig(e)
    for how, o in outs.items():
        if isinstance(o, bytes):
            if len(o) > 255:
                probs.append(("C01/to_wire-origin/over-255-octets/" + how,
                              "relative name %s + origin %s encodes to %d octets via %s without raising" % (case["rel"], case["org"], len(o), how)))
            elif total <= 255 and len(o) != total:
                probs.append(("C01/to_wire-origin/wrong-length/" + how, "%d octets, expected %d" % (len(o), total)))
        elif o.startswith("crash"):
            probs.append(("C01/to_wire-origin/" + o, "relative %s origin %s" % (case["rel"], case["org"])))
        elif total <= 255:
            probs.append(("C01/to_wire-origin/legal-name-refused/" + how, "total %d octets refused" % total))
    return probs, "|".join("%s=%s" % (k, v if isinstance(v, str) else "ok") for k, v in sorted(outs.items()))


def mutable_label_case(case):
    """A name built from caller-owned mutable buffers must not keep them (the limits are checked
    once, at construction): the constructor and from_wire on a bytearray message either refuse
    or hold plain bytes."""
    probs = []
    kind = case["kind"]
    try:
        if kind == "constructor":
            buf = bytearray(b"x" * 10)
            nm_ = dns.name.Name([buf, b""])
        else:
            msg = bytearray(b"\x03abc\x07example\x00")
            nm_ = dns.name.from_wire(msg, 0)[0]
    except Exception:
        return probs, "refused"
    if not all(type(x) is bytes for x in nm_.labels):
        probs.append(("C01/Name/holds-mutable-label/" + kind, "labels have types %s" % [type(x).__name__ for x in nm_.labels]))
        return probs, "kept-mutable"
    return probs, "copied"


def w_origin_limit(task, col):
    for kind in ("constructor", "from_wire-bytearray"):
        case = {"mode": "mutable-label", "kind": kind}
        probs, label = mutable_label_case(case)
        col.count("evaluations")
        col.outcome("mutable-label:" + label)
        for s_, w_ in probs:
            col.violation(s_, w_, case)
    # relative part: k labels of 62 octets + one filler label; origin: one or two labels
    for nfull in (0, 1, 2, 3):
        for filler in range(1, 63, 5):
            for org in ((8,), (63,), (30, 30), (63, 63)):
                relp = [62] * nfull + [filler]
                total = sum(l + 1 for l in relp) + sum(l + 1 for l in org) + 1
                if not 240 <= total <= 270:
                    continue
                case = {"mode": "origin-limit", "rel": relp, "org": list(org)}
                probs, label = origin_limit_case(case)
                col.count("evaluations")
                col.count("origin_limit_cases")
                col.outcome("to_wire-origin:" + label + (":over" if total > 255 else ":fits"))
                col.nontrivial(("origin-limit", tuple(relp), org))
                for s_, w_ in probs:
                    col.violation(s_, w_, case)


WORKERS = {"rollback": w_rollback, "origin_limit": w_origin_limit, "text1": w_text1, "textk": w_textk, "textpool": w_textpool, "parse": w_parse, "parse_short": w_parse_short,
           "parse_ddd": w_parse_ddd, "limits": w_limits, "compress": w_compress, "compress3": w_compress3,
           "wire": w_wire, "wire_short": w_wire_short, "graph": w_graph, "wire_long": w_wire_long}


def work(task, col):
    WORKERS[task[0]](task, col)


def run(ctx):
    q = ctx.quick
    alpha3 = ctx.pick(ALPHA3_Q, ALPHA3_T)
    alpha4 = ctx.pick(ALPHA4_Q, ALPHA4_T)
    parse_len = ctx.pick(5, 7)
    wire_len = ctx.pick(5, 6)
    graphs = ctx.pick([(5, (0, 0xFC, 0x3FF4))], [(6, (0, 0xFC, 0x3FF4))])
    cbases = [0, 12, 0x3FFC, 0x3FFD, 0x3FFE, 0x3FFF, 0x4000, 0x4001]
    tasks = []
    # (a) text
    for i in range(0, 256, 4):
        tasks.append(("text1", tuple(range(i, i + 4)), i == 0, not q))
    for a in alpha3:
        tasks.append(("textk", tuple(alpha3), 3, a))
    for a in alpha4:
        tasks.append(("textk", tuple(alpha4), 4, a))
    for p in POOL:
        tasks.append(("textpool", p))
    # text -> name verdicts
    pl = 2
    for pre in itertools.product(PARSE_ALPHA, repeat=pl):
        tasks.append(("parse", pre, pl, parse_len, tuple(PARSE_ALPHA)))
    if not q:
        for pre in itertools.product(PARSE_ALPHA_LONG, repeat=pl):
            tasks.append(("parse", pre, parse_len + 1, parse_len + 1, tuple(PARSE_ALPHA_LONG)))
    tasks.append(("parse_short", pl - 1))
    for lo in range(0, 1000, 50):
        tasks.append(("parse_ddd", lo, lo + 50))
    # (b) limits
    tasks.append(("limits", "labels", None))
    comps = sorted(compositions(250, 258))
    for fill in FILL if not q else FILL[:2]:
        for i in range(0, len(comps), 60):
            tasks.append(("limits", "compositions", (comps[i:i + 60], fill)))
    # (c) compression
    names3 = compress_names(3)
    if q:
        for first in names3:
            tasks.append(("compress", first, 3, 2, tuple(cbases)))
    else:
        for first in names3:
            tasks.append(("compress", first, 3, 0, tuple(cbases)))
            for second in names3:
                tasks.append(("compress3", first, second, 3, tuple(cbases)))
    # (d) wire
    for pre in itertools.product(WIRE_ALPHA, repeat=2):
        tasks.append(("wire", pre, 2, wire_len, tuple(WIRE_ALPHA)))
    if not q:
        for pre in itertools.product(WIRE_ALPHA_LONG, repeat=2):
            tasks.append(("wire", pre, wire_len + 1, wire_len + 1, tuple(WIRE_ALPHA_LONG)))
    tasks.append(("wire_short", 1))
    for graph_k, graph_bases in graphs:
        for first in ["L", "T"] + list(range(graph_k)):
            tasks.append(("graph", graph_k, first, tuple(graph_bases)))
    tasks.append(("wire_long",))
    tasks.append(("origin_limit",))
    tasks.extend(rollback_tasks())
    ctx.rule = (
        "exhaustive products, one evaluation = one name / text / byte-string+offset pushed through every listed "
        "library path and compared with mc/refs/name.py.  Distinct non-trivial: text = distinct label tuple with at "
        "least one octet outside [A-Za-z0-9_-] (needs escaping or is special); parse = per 2-symbol prefix and per "
        "\\DDD / \\X value; limits = distinct label-length composition x fill octet; compress = distinct (name "
        "sequence, base, cut) whose output contains at least one pointer; wire = distinct (2-octet prefix, reference "
        "verdict class) and every distinct pointer graph of <= 6 cells (larger graphs are only counted, see the "
        "count 'graphs'); counts of individual non-plain cases are in "
        "wire_cases_pointer_or_error / parse_cases_with_escape.")
    ctx.assume("IDNA/Unicode text (from_unicode, to_unicode, non-ASCII str input) is outside this check: C01 is "
               "about master-file text and wire format")
    ctx.assume("labels longer than 4 octets are covered only by the fixed fills of the limit cases; 3/4-octet labels "
               "use one representative octet per branch of the escape code")
    ctx.assume("a pointed-to label run that extends beyond the pointer itself (crafted input) may make from_wire "
               "report the furthest octet read as consumed; counted as outcome ok-overlap-consumed-furthest, not "
               "judged (the property does not state a consumed count)")
    ctx.extra.update({
        "label1_octets": 256, "label2_labels": 65536, "label2_relativity": "absolute" if q else "absolute and relative",
        "label3_alphabet": len(alpha3), "label4_alphabet": len(alpha4),
        "pool_labels": len(POOL), "pool_max_labels": 3,
        "text_origins": [None if o is None else show(o) for o in ORIGINS],
        "tokenizer_delimiters": DELIMS,
        "parse_alphabet": [a.decode() for a in PARSE_ALPHA], "parse_max_len": parse_len,
        "parse_extra": None if q else {"alphabet": [a.decode() for a in PARSE_ALPHA_LONG], "len": parse_len + 1},
        "ddd_values": 1000, "x_values": 256,
        "label_lengths": "0..64", "composition_totals": "250..258", "compositions": len(comps),
        "composition_fills": len(FILL if not q else FILL[:2]),
        "compress_names": len(names3), "compress_seq_len": 3,
        "compress_triples": "depth<=2 names (13^3)" if q else "all depth<=3 names (40^3)",
        "compress_bases": cbases,
        "wire_alphabet": ["%02x" % c for c in WIRE_ALPHA], "wire_max_len": wire_len,
        "wire_extra": None if q else {"alphabet": ["%02x" % c for c in WIRE_ALPHA_LONG], "len": wire_len + 1},
        "pointer_graphs": [{"cells": k, "bases": list(b), "graphs_per_base": (k + 2) ** k} for k, b in graphs],
    })
    ctx.pmap(work, tasks)
