"""C10: zone transactions match a reference model and are all-or-nothing.

Explicit-state BFS over committed zone contents; a transition is a whole write
transaction (1..k operations from a ~45-call alphabet, names given relative or
absolute) run on the real zone of each kind (plain / versioned / btree) x relativize,
ended by commit | rollback | an exception raised inside the `with` block after operation
i (every i).  Oracle: mc.refs.zonemodel predicts content and exception classes; all six
configurations and both name spellings must agree with it (hence pairwise).
"""
from __future__ import annotations

import dns.btree
import dns.btreezone
import dns.name
import dns.rdata
import dns.rdataclass
import dns.rdataset
import dns.rdatatype
import dns.rrset
import dns.transaction
import dns.versioned
import dns.zone

from .. import engines
from ..refs import zonemodel as zm

PROPERTY = "C10"
LEVEL = "model_checking"

ORIGIN = dns.name.from_text("example.")
KINDS = {"plain": dns.zone.Zone, "versioned": dns.versioned.Zone, "btree": dns.btreezone.Zone}
CONFIGS = [(k, r) for k in ("plain", "versioned", "btree") for r in (True, False)]

IN = dns.rdataclass.IN
T = dns.rdatatype


def rd(t, text, cls="IN"):
    return dns.rdata.from_text(cls, t, text)


RD = {
    "A1": rd("A", "10.0.0.1"), "A2": rd("A", "10.0.0.2"), "TXT": rd("TXT", '"t"'),
    "CN": rd("CNAME", "t.example."), "CN2": rd("CNAME", "u.example."), "NS": rd("NS", "ns.example."),
    "SOA5": rd("SOA", "m.example. r.example. 5 2 3 4 5"), "SOA9": rd("SOA", "m.example. r.example. 9 2 3 4 5"),
    "CHA": dns.rdata.from_text("CH", "TXT", '"ch"'),
    "SIGA": rd("RRSIG", "A 8 2 300 20300101000000 20000101000000 1 example. AAAA"),
    "NSEC": rd("NSEC", "z.example. A"),
    "SIGCN": rd("RRSIG", "CNAME 8 2 300 20300101000000 20000101000000 1 example. BBBB"),
}
MAXTTL = 2 ** 32 - 1
NAMES = {"@": dns.name.empty, "a": dns.name.from_text("a", None), "b.a": dns.name.from_text("b.a", None),
         "c": dns.name.from_text("c", None)}


def rdsdesc(keys, ttl):
    r0 = RD[keys[0]]
    return (r0.rdclass, r0.rdtype, r0.covers(), ttl, [RD[k] for k in keys])


# An operation is a tuple (verb, name-key, form, *args) where form = "rel" | "abs" and the
# args select the argument form of the real call.
def alphabet(tier):
    ops = []
    # add: name,ttl,rdata | name,rdataset | rrset
    ops += [("add", "a", "nt", ("A1",), 5), ("add", "a", "nt", ("A2",), 10), ("add", "b.a", "nt", ("A1",), 10),
            ("add", "@", "nt", ("A1",), 10), ("add", "c", "nt", ("TXT",), 5),
            ("add", "a", "rds", ("A1", "A2"), 5), ("add", "a", "rrset", ("A2",), 3),
            ("add", "a", "nt", ("CN",), 10), ("add", "a", "nt", ("CN2",), 4), ("add", "b.a", "nt", ("CN",), 10),
            ("add", "a", "nt", ("TXT",), 10), ("add", "a", "nt", ("NSEC",), 10), ("add", "a", "nt", ("SIGA",), 10),
            ("add", "@", "nt", ("SOA9",), 7), ("add", "@", "rds", ("SOA9",), 20), ("add", "a", "nt", ("SOA5",), 10),
            ("add", "a", "nt", ("CHA",), 10)]
    ops += [("replace", "a", "nt", ("A2",), 5), ("replace", "a", "rds", ("TXT",), 8), ("replace", "@", "nt", ("NS",), 10),
            ("replace", "b.a", "rrset", ("A1", "A2"), 6), ("replace", "a", "nt", ("CN",), 9)]
    for verb in ("delete", "delete_exact"):
        ops += [(verb, "a", "name"), (verb, "b.a", "name"), (verb, "c", "name"), (verb, "@", "name"),
                (verb, "a", "type", "A"), (verb, "a", "type", int(T.TXT)), (verb, "b.a", "type", "A"),
                (verb, "a", "type", "RRSIG", "A"), (verb, "@", "type", "NS"),
                (verb, "a", "rdata", ("A1",)), (verb, "a", "rdata", ("A2",)), (verb, "b.a", "rdata", ("A1",)),
                (verb, "a", "rds", ("A1", "A2")), (verb, "a", "rrset", ("A1",)), (verb, "a", "rdata", ("CHA",))]
    ops += [("update_serial",), ("update_serial", 5), ("update_serial", 7, False), ("update_serial", 0, False),
            ("update_serial", -1), ("update_serial", 2 ** 31 - 1), ("update_serial", 2 ** 31),
            ("update_serial", 1, True, "@"), ("update_serial", 1, True, "a")]
    # appended last so that the indices of the pair sub-alphabets stay what they were:
    # the signature of a CNAME lives beside the CNAME (both are CNAME-kind rdatasets); the largest
    # legal TTL in every argument form
    ops += [("add", "a", "nt", ("SIGCN",), 10), ("delete", "a", "type", "RRSIG", "CNAME"),
            ("add", "c", "nt", ("TXT",), MAXTTL), ("add", "c", "rds", ("TXT",), MAXTTL),
            ("replace", "c", "rrset", ("TXT",), MAXTTL), ("replace", "b.a", "nt", ("A1",), MAXTTL)]
    return ops


def real_name(key, form):
    n = NAMES[key]
    return n.derelativize(ORIGIN) if form == "abs" else n


def apply_real(txn, op, form):
    verb = op[0]
    if verb in ("add", "replace"):
        _, nk, style, keys, ttl = op
        name = real_name(nk, form)
        fn = getattr(txn, verb)
        if style == "nt":
            return fn(name, ttl, RD[keys[0]])
        rdclass, rdtype, covers, ttl, items = rdsdesc(keys, ttl)
        if style == "rds":
            rds = dns.rdataset.Rdataset(rdclass, rdtype, covers, ttl)
            for i in items:
                rds.add(i)
            return fn(name, rds)
        rrs = dns.rrset.RRset(name, rdclass, rdtype, covers)
        for i in items:
            rrs.add(i, ttl)
        return fn(rrs)
    if verb in ("delete", "delete_exact"):
        nk, style = op[1], op[2]
        name = real_name(nk, form)
        fn = getattr(txn, verb)
        if style == "name":
            return fn(name)
        if style == "type":
            return fn(name, *op[3:])
        keys = op[3]
        if style == "rdata":
            return fn(name, RD[keys[0]])
        rdclass, rdtype, covers, ttl, items = rdsdesc(keys, 0)
        if style == "rds":
            rds = dns.rdataset.Rdataset(rdclass, rdtype, covers, 0)
            for i in items:
                rds.add(i)
            return fn(name, rds)
        rrs = dns.rrset.RRset(name, rdclass, rdtype, covers)
        for i in items:
            rrs.add(i, 0)
        return fn(rrs)
    if verb == "update_serial":
        args = list(op[1:])
        if len(args) == 3:
            args[2] = real_name(args[2], form)
        return txn.update_serial(*args)
    raise AssertionError(op)


def apply_model(m, op):
    """Returns True if the operation touched the zone (put/delete happened)."""
    verb = op[0]
    if verb in ("add", "replace"):
        _, nk, style, keys, ttl = op
        m.add(NAMES[nk], rdsdesc(keys, ttl), replace=(verb == "replace"))
        return True
    if verb in ("delete", "delete_exact"):
        exact = verb == "delete_exact"
        nk, style = op[1], op[2]
        if style == "name":
            return m.delete_name(NAMES[nk], exact)
        if style == "type":
            rdtype = T.RdataType.make(op[3])
            covers = T.RdataType.make(op[4]) if len(op) > 4 else T.NONE
            return m.delete_rdataset(NAMES[nk], rdtype, covers, exact)
        return m.delete_rdatas(NAMES[nk], rdsdesc(op[3], 0), exact)
    if verb == "update_serial":
        args = list(op[1:])
        name = NAMES[args[2]] if len(args) == 3 else None
        m.update_serial(*(args[:2]), name=name) if len(args) >= 2 else m.update_serial(*args)
        return True
    raise AssertionError(op)


INITIALS = {
    "base": [("@", ("SOA5",), 10), ("@", ("NS",), 10), ("a", ("A1",), 10), ("b.a", ("A1", "A2"), 10), ("b.a", ("TXT",), 5)],
    "cname": [("@", ("SOA5",), 10), ("@", ("NS",), 10), ("a", ("CN",), 10), ("a", ("NSEC",), 10)],
    "serialmax": [("@", (("SOA", 2 ** 32 - 1),), 10), ("@", ("NS",), 10), ("a", ("A1", "A2"), 10)],
    "serialmid": [("@", (("SOA", 2 ** 31 - 1),), 10), ("a", ("TXT",), 10)],
    "nosoa": [("@", ("NS",), 10), ("a", ("A1",), 10)],
    "empty": [],
}


def _rdatas(keys):
    out = []
    for k in keys:
        if isinstance(k, (tuple, list)):
            out.append(RD["SOA5"].replace(serial=k[1]))
        else:
            out.append(RD[k])
    return out


def build(kind, relativize, init, history):
    """Fresh real zone + model holding `init` then the committed op history."""
    z = KINDS[kind](ORIGIN, relativize=relativize)
    if kind != "plain" and not relativize:
        # half of the multi-version configurations retain every version (as with open readers
        # or set_max_versions), the other half prune to the newest: a write transaction must
        # start from the newest version either way
        z.set_max_versions(None)
    m = zm.ZoneModel(ORIGIN)
    with z.writer(True) as txn:
        for nk, keys, ttl in INITIALS[init]:
            items = _rdatas(keys)
            rds = dns.rdataset.Rdataset(IN, items[0].rdtype, items[0].covers(), ttl)
            for i in items:
                rds.add(i)
            txn.add(NAMES[nk], rds)
            m.add(NAMES[nk], (IN, items[0].rdtype, items[0].covers(), ttl, items))
    for op, form in history:
        with z.writer() as txn:
            try:
                apply_real(txn, tuple(op), form)
            except Exception:
                pass
        try:
            apply_model(m, tuple(op))
        except zm.ModelError:
            pass
    return z, m


def versions_of(z):
    vs = getattr(z, "_versions", None)
    return None if vs is None else [v.id for v in vs]


def txn_snapshot(txn, z):
    return zm.zone_snapshot(list(txn.iterate_rdatasets()), ORIGIN, z.relativize)


def crash_sig(e):
    import traceback
    tb = traceback.extract_tb(e.__traceback__)
    return "%s@%s" % (type(e).__name__, tb[-1].name)


def diff(a, b):
    ka = set(a) ^ set(b) | {k for k in set(a) & set(b) if a[k] != b[k]}
    return "real=%s model=%s" % (zm.fmt_snapshot({k: a[k] for k in ka if k in a}),
                                 zm.fmt_snapshot({k: b[k] for k in ka if k in b}))


def run_txn(case):
    """Execute one transaction case on one configuration; returns (probs, model_after|None)."""
    kind, relativize, init = case["kind"], case["relativize"], case["init"]
    history = [(tuple(o), f) for o, f in case["history"]]
    ops = [tuple(_detuple(o)) for o in case["ops"]]
    forms = case["forms"]
    ending = case["ending"]          # "commit" | "rollback" | ["raise", i] | "explicit-commit"
    probs = []
    z, m0 = build(kind, relativize, init, history)
    pre = zm.real_zone_snapshot(z)
    if pre != m0.snapshot():
        probs.append(("prestate-mismatch", "zone built from history differs from model: " + diff(pre, m0.snapshot())))
        return probs, None
    pre_versions = versions_of(z)
    m = m0.copy()
    touched = False
    applied = 0

    class Boom(Exception):
        pass

    txn = z.writer()
    try:
        try:
            for i, (op, form) in enumerate(zip(ops, forms)):
                mexc = None
                mtmp = m.copy()
                try:
                    t = apply_model(mtmp, op)
                except zm.ModelError as e:
                    mexc = e.kind
                rexc = None
                try:
                    apply_real(txn, op, form)
                except (KeyError, ValueError, dns.transaction.DeleteNotExact, TypeError, IndexError, AttributeError,
                        AssertionError, dns.exception.DNSException) as e:
                    rexc = e
                rkind = None if rexc is None else type(rexc).__name__
                if rkind != mexc:
                    probs.append(("op-exception/%s/%s-%s/expected-%s-got-%s" % (
                        op[0], kind if rkind not in (None,) and mexc is None else "any",
                        "relzone" if relativize else "abszone", mexc, rkind if rexc is None else crash_sig(rexc)),
                        "op %d %r (names %s) on %s zone relativize=%s: model expects %s, real %r" % (
                            i, op, form, kind, relativize, mexc, rexc)))
                    return probs, None
                if mexc is None:
                    m = mtmp
                    touched = touched or t
                    applied += 1
                # read-your-writes
                snap = txn_snapshot(txn, z)
                if snap != m.snapshot():
                    probs.append(("read-your-writes/%s" % op[0], "after op %d %r (%s): %s" % (i, op, form, diff(snap, m.snapshot()))))
                    return probs, None
                for nk, n in NAMES.items():
                    for f in ("rel", "abs"):
                        nm = real_name(nk, f)
                        want = nm.derelativize(ORIGIN) in m.content
                        if txn.name_exists(nm) != want:
                            probs.append(("name_exists", "name_exists(%s) != %s after %r" % (nm, want, op)))
                        node = txn.get_node(nm)
                        if (node is not None) != want:
                            probs.append(("get_node", "get_node(%s) presence != %s after %r" % (nm, want, op)))
                        got = txn.get(nm, "A")
                        exp = m._get(nm.derelativize(ORIGIN), T.A, T.NONE)
                        if (got is None) != (exp is None) or (got is not None and (got.ttl, frozenset(got)) != (exp[0], frozenset(exp[1]))):
                            probs.append(("get", "get(%s, A) = %s, model %s after %r" % (nm, got, exp, op)))
                names = set(n.derelativize(ORIGIN) for n in txn.iterate_names())
                if names != set(m.content):
                    probs.append(("iterate_names", "names %s model %s" % (sorted(map(str, names)), sorted(map(str, m.content)))))
                ch = txn.changed()
                if snap != pre and not ch:
                    probs.append(("changed-false", "content differs from the start but changed() is False"))
                if applied == 0 and ch:
                    probs.append(("changed-true", "no operation succeeded but changed() is True"))
                if probs:
                    return probs, None
                if isinstance(ending, list) and ending[1] == i:
                    raise Boom()
            if ending == "commit":
                txn.__exit__(None, None, None)
            elif ending == "explicit-commit":
                txn.commit()
            elif ending == "rollback":
                txn.rollback()
            else:
                raise Boom()
        except Boom as e:
            txn.__exit__(Boom, e, None)
    except Exception as e:
        probs.append(("end-crash/%s" % crash_sig(e), "ending %r raised %r" % (ending, e)))
        return probs, None
    post = zm.real_zone_snapshot(z)
    if ending in ("commit", "explicit-commit"):
        if post != m.snapshot():
            probs.append(("commit-content", "after commit of %r: %s" % (ops, diff(post, m.snapshot()))))
        vs = versions_of(z)
        if vs is not None and post != pre and (vs[-1] <= pre_versions[-1]):
            probs.append(("commit-version", "content changed but no newer version id: %s -> %s" % (pre_versions, vs)))
        result = m
    else:
        if post != pre:
            probs.append(("rollback-content", "after %r of %r the zone changed: %s" % (ending, ops, diff(post, pre))))
        if versions_of(z) != pre_versions:
            probs.append(("rollback-version", "after %r versions %s -> %s" % (ending, pre_versions, versions_of(z))))
        result = m0
    # ended transactions refuse further use
    for name, fn in (("add", lambda: txn.add(NAMES["a"], 5, RD["A1"])), ("get", lambda: txn.get(NAMES["a"], "A")),
                     ("commit", txn.commit), ("rollback", txn.rollback), ("delete", lambda: txn.delete(NAMES["a"])),
                     ("changed", txn.changed), ("update_serial", txn.update_serial), ("name_exists", lambda: txn.name_exists(NAMES["a"])),
                     ("iter", lambda: list(txn))):
        try:
            fn()
            probs.append(("ended-accepts-" + name, "%s() on an ended transaction did not raise" % name))
        except dns.transaction.AlreadyEnded:
            pass
        except Exception as e:
            probs.append(("ended-wrong-exception-" + name, "%s() on ended txn raised %r" % (name, e)))
    if zm.real_zone_snapshot(z) != post:
        probs.append(("ended-mutates", "calls on an ended transaction changed the zone"))
    return probs, result


def _detuple(o):
    return [tuple(x) if isinstance(x, list) else x for x in o]


def run_readonly(case):
    """A reader transaction refuses every mutator and sees the committed content."""
    kind, relativize, init = case["kind"], case["relativize"], case["init"]
    history = [(tuple(o), f) for o, f in case["history"]]
    z, m = build(kind, relativize, init, history)
    probs = []
    pre = zm.real_zone_snapshot(z)
    txn = z.reader()
    if txn_snapshot(txn, z) != m.snapshot():
        probs.append(("reader-content", "reader sees %s" % diff(txn_snapshot(txn, z), m.snapshot())))
    for op in alphabet("quick"):
        if op[0] == "update_serial" and (len(op) > 1 and op[1] < 0):
            continue
        if op[0] == "update_serial" and m._get(ORIGIN, T.SOA, T.NONE) is None:
            continue
        if op[0] == "update_serial" and len(op) > 3 and op[3] == "a":
            continue
        if op[0] == "update_serial" and len(op) > 1 and op[1] == 2 ** 31:
            continue
        try:
            apply_real(txn, op, "rel")
            probs.append(("readonly-accepts-" + op[0], "%r accepted by a read-only transaction" % (op,)))
        except dns.transaction.ReadOnly:
            pass
        except Exception as e:
            probs.append(("readonly-wrong-exception-%s/%s" % (op[0], type(e).__name__), "%r raised %r" % (op, e)))
    if txn.changed():
        probs.append(("readonly-changed", "changed() True on a reader"))
    txn.rollback()
    if zm.real_zone_snapshot(z) != pre:
        probs.append(("readonly-mutates", "reader changed the zone"))
    return probs


class SmallTZone(dns.btreezone.Zone):
    """B-tree zone whose node maps use the smallest branching factor: a dozen names already
    make a transaction split, steal from and merge tree nodes it shares with the published
    version, which is what 'a rolled-back transaction leaves the zone as it was' rests on."""
    map_factory = staticmethod(lambda: dns.btree.BTreeDict(t=3))


class Boom(Exception):
    pass


def run_btshape(case):
    """n-name B-tree zone (branching factor 3); one or two single-name operations in a
    transaction that commits, rolls back or exits through an exception: content afterwards is
    the model's (commit) or exactly the content before (otherwise)."""
    n, rel, how = case["n"], case["relativize"], case["how"]
    origin = dns.name.from_text("example.")
    names = [dns.name.from_text("h%02d" % i, None) for i in range(n)]
    a1, a2 = dns.rdata.from_text("IN", "A", "10.0.0.1"), dns.rdata.from_text("IN", "A", "10.0.0.2")
    z = SmallTZone(origin, relativize=rel)
    with z.writer(True) as txn:
        txn.add(dns.name.empty, 10, dns.rdata.from_text("IN", "SOA", "m. r. 1 2 3 4 5"))
        for nm in names:
            txn.add(nm, 10, a1)
    for pre in case.get("pre", ()):          # committed deletions first: nodes at minimum occupancy
        with z.writer() as txn:
            txn.delete(dns.name.from_text(pre, None))
    base = zm.real_zone_snapshot(z)
    exp = dict(base)
    probs = []
    try:
        try:
            with z.writer() as txn:
                for kind, text in case["ops"]:
                    nm = dns.name.from_text(text, None)
                    key = (nm.derelativize(origin), int(dns.rdatatype.A), 0)
                    if kind == "del":
                        txn.delete(nm)
                        exp.pop(key, None)
                    elif kind == "add":
                        txn.add(nm, 10, a2)
                        old = exp.get(key)
                        exp[key] = (10, frozenset([a2]) | (old[1] if old else frozenset()))
                    else:
                        txn.replace(nm, 10, a2)
                        exp[key] = (10, frozenset([a2]))
                inside = zm.zone_snapshot(list(txn.iterate_rdatasets()), origin, rel)
                if inside != exp:
                    probs.append(("btshape/read-your-writes", "content seen inside the transaction differs from the model: %s" % diff(exp, inside)))
                if how == "rollback":
                    txn.rollback()
                elif how == "exception":
                    raise Boom()
        except Boom:
            pass
    except Exception as e:
        probs.append(("btshape/" + crash_sig(e), "%s: %s" % (type(e).__name__, e)))
        return probs
    now = zm.real_zone_snapshot(z)
    want = exp if how == "commit" else base
    if now != want:
        probs.append(("btshape/%s-content" % how, "zone after %s of %s differs: %s" % (how, case["ops"], diff(want, now))))
    order = [k.derelativize(origin) for k in z.nodes.keys()]
    if order != sorted(order):
        probs.append(("btshape/iteration-order", "names not in canonical order after %s of %s" % (how, case["ops"])))
    return probs


def _btshape_task(task, col):
    n, rel, pre = task
    live = ["h%02d" % i for i in range(n) if "h%02d" % i not in pre]
    singles = [("del", x) for x in live] + [("add", "h%02dx" % i) for i in range(-1, n)] + [("rep", x) for x in live[::3]]
    txns = [(o,) for o in singles] + [(a, b) for a in singles[::4] for b in singles[1::5] if a[1] != b[1]]
    for ops_ in txns:
        for how in ("commit", "rollback", "exception"):
            case = {"mode": "btshape", "n": n, "relativize": rel, "how": how, "ops": [list(o) for o in ops_], "pre": list(pre)}
            probs = run_btshape(case)
            col.count("evaluations")
            col.count("btree_shape_cases")
            col.outcome("btshape:" + (probs[0][0] if probs else "ok"))
            col.nontrivial(("btshape", n, rel, pre, ops_, how))
            for s_, w_ in probs:
                col.violation("C10/" + s_, w_ + " [n=%d relativize=%s after deleting %s]" % (n, rel, list(pre)), case)


def recheck(case):
    if case["mode"] == "btshape":
        return [("C10/" + s, w) for s, w in run_btshape(case)]
    if case["mode"] == "readonly":
        return [("C10/" + s, w) for s, w in run_readonly(case)]
    probs, _ = run_txn(case)
    return [("C10/" + s, w) for s, w in probs]


LIGHT = [True]


def canon_model(m):
    return tuple(sorted((str(k[0]), k[1], k[2], v[0], tuple(sorted(r.to_text() for r in v[1]))) for k, v in m.snapshot().items()))


def model_state(init, history):
    m = zm.ZoneModel(ORIGIN)
    for nk, keys, ttl in INITIALS[init]:
        items = _rdatas(keys)
        m.add(NAMES[nk], (IN, items[0].rdtype, items[0].covers(), ttl, items))
    for op, form in history:
        try:
            apply_model(m, tuple(op))
        except zm.ModelError:
            pass
    return m


def discover(inits, maxdepth_of):
    """BFS over committed contents on the *model* (the real zones are validated against
    it for every transition in the tasks below).  Returns list of (init, history, depth)."""
    ops = alphabet("q")
    seen, order = {}, []
    frontier = []
    for i in inits:
        st = (i, (), 0)
        seen[(i, canon_model(model_state(i, ())))] = st
        order.append(st)
        frontier.append(st)
    while frontier:
        nxt = []
        for init, history, depth in frontier:
            if depth >= maxdepth_of[init]:
                continue
            for op in ops:
                h2 = history + ((op, "rel"),)
                m = model_state(init, history)
                try:
                    apply_model(m, op)
                except zm.ModelError:
                    continue
                cn = (init, canon_model(m))
                if cn not in seen:
                    seen[cn] = (init, h2, depth + 1)
                    order.append(seen[cn])
                    nxt.append(seen[cn])
        frontier = nxt
    return order


def _state_task(task, col):
    init, history, depth, op_index, pair_alpha, light = task
    ops = alphabet("q")
    hist_json = [[list(o), f] for o, f in history]
    op = ops[op_index]
    for form in ("rel", "abs"):
        for kind, rel in CONFIGS:
            for ending in ("commit", "rollback", ["raise", 0], "explicit-commit"):
                if ending == "explicit-commit" and form == "abs":
                    continue
                if depth > 0 and light and (ending in ("rollback", "explicit-commit") or (ending != "commit" and form == "abs")):
                    continue
                case = {"mode": "txn", "kind": kind, "relativize": rel, "init": init, "history": hist_json,
                        "ops": [list(op)], "forms": [form], "ending": ending}
                probs, res = run_txn(case)
                col.count("evaluations")
                col.count("transitions")
                col.nontrivial((init, history, op, form, str(ending)))
                if op_index == 3 and kind == "btree" and form == "abs" and ending == "commit":
                    col.sample({"zone": kind, "relativize": rel, "init": init, "history": hist_json, "ops": [list(op)],
                                "names": form, "ending": ending}, limit=2)
                col.outcome("1op:%s:%s" % (op[0], probs[0][0].split("/")[0] if probs else "ok"))
                for s, w in probs:
                    col.violation("C10/" + s, w, case)
    if op_index in pair_alpha:
        for i2 in pair_alpha:
            op2 = ops[i2]
            for forms in (("rel", "rel"), ("abs", "abs"), ("abs", "rel")):
                for kind, rel in CONFIGS:
                    for ending in ("commit", "rollback", ["raise", 1]):
                        case = {"mode": "txn", "kind": kind, "relativize": rel, "init": init, "history": hist_json,
                                "ops": [list(op), list(op2)], "forms": list(forms), "ending": ending}
                        probs, res = run_txn(case)
                        col.count("evaluations")
                        col.count("transitions")
                        col.nontrivial((init, history, op, op2, forms, str(ending)))
                        col.outcome("2op:%s:%s" % (op[0] + "+" + op2[0], probs[0][0].split("/")[0] if probs else "ok"))
                        for s, w in probs:
                            col.violation("C10/" + s, w, case)
    if op_index == 0:
        for kind, rel in CONFIGS:
            case = {"mode": "readonly", "kind": kind, "relativize": rel, "init": init, "history": hist_json}
            probs = run_readonly(case)
            col.count("evaluations")
            for s, w in probs:
                col.violation("C10/" + s, w, case)
        col.sample({"init": init, "history": hist_json}, limit=1)


def _triple_task(task, col):
    init, triple = task
    for forms in (("rel", "rel", "rel"), ("abs", "abs", "abs")):
        for kind, rel in CONFIGS:
            for ending in ("commit", ["raise", 2], ["raise", 1]):
                case = {"mode": "txn", "kind": kind, "relativize": rel, "init": init, "history": [],
                        "ops": [list(o) for o in triple], "forms": list(forms), "ending": ending}
                probs, res = run_txn(case)
                col.count("evaluations")
                col.outcome("3op:%s" % (probs[0][0].split("/")[0] if probs else "ok"))
                for s, w in probs:
                    col.violation("C10/" + s, w, case)


def run(ctx):
    ops = alphabet("q")
    ctx.rule = ("BFS over committed zone contents (canon = model content) from 6 initial zones; at every state every "
                "1-op transaction of a %d-call alphabet x names spelled relative/absolute x {commit, explicit commit, "
                "rollback, exception after op 0} and every 2-op transaction over a sub-alphabet x 3 spellings x "
                "{commit, rollback, exception after op 1}, each on plain/versioned/btree x relativize on/off; reads "
                "inside the transaction compared after every op; ended and read-only transactions get every call; "
                "distinct = distinct (initial zone, content)" % len(ops))
    ctx.assume("names {@, a, b.a, c}; records A x2, TXT, CNAME x2, NS, SOA, NSEC, RRSIG(A), RRSIG(CNAME), CH-class TXT; TTLs 3-20 and 2^32-1")
    ctx.assume("changed() is only constrained when content differs (must be True) or no operation succeeded (must be False)")
    # sub-alphabet for pairs: indices chosen to cover every verb/argument form
    pair_q = [0, 1, 5, 7, 10, 13, 17, 19, 22, 26, 31, 33, 37, 41, 46, 48, 52, 53, 55]
    pair_t = list(range(len(ops)))
    inits = ["base", "cname", "serialmax", "serialmid", "nosoa", "empty"]
    ctx.extra["alphabet_size"] = len(ops)
    ctx.extra["pair_alphabet_size"] = len(ctx.pick(pair_q, pair_t))
    maxdepth = ctx.pick(1, 2)
    ctx.extra["bfs_depth_in_transactions"] = maxdepth
    maxdepth_of = {i: (maxdepth if i in ("base", "cname") else ctx.pick(0, 1)) for i in inits}
    states = discover(inits, maxdepth_of)
    ctx.count("states", len(states))
    tasks = []
    for init, history, depth in states:
        if depth == 0:
            pa = tuple(ctx.pick(pair_q, pair_t)) if init in ("base", "cname") else \
                (tuple(pair_q[::3]) if ctx.quick else tuple(pair_q)) if init in ("nosoa", "serialmax") else ()
        else:
            pa = tuple(pair_q[::4]) if ctx.quick else tuple(pair_q[::2])
        for k in range(len(ops)):
            tasks.append((init, history, depth, k, pa, ctx.quick))
    ctx.max("max_depth", max(d for _, _, d in states))
    ctx.pmap(_state_task, tasks, chunksize=4)
    # B-tree shapes: every single-name (and a grid of two-name) transaction on small-branching-factor
    # B-tree zones of every size up to the bound, also after committed deletions
    sizes = ctx.pick(range(6, 20), range(6, 34))
    bt_tasks = []
    for n in sizes:
        for rel in (True, False):
            bt_tasks.append((n, rel, ()))
            if n >= 9:
                bt_tasks.append((n, rel, ("h01", "h04")))
                bt_tasks.append((n, rel, ("h%02d" % (n - 2), "h%02d" % (n // 2))))
    ctx.extra["btree_shape_sizes"] = [sizes[0], sizes[-1]]
    ctx.pmap(_btshape_task, bt_tasks)
    if not ctx.quick:
        import itertools
        tri = [ops[i] for i in pair_q[::2]]
        ctx.pmap(_triple_task, [("base", t) for t in itertools.product(tri, repeat=3)], chunksize=8)
    ctx.counts["traces_validated_against_impl"] = ctx.counts.get("evaluations", 0)


