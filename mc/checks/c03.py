"""C03: messages survive render-then-parse unchanged; compression is sound.

Exhaustive small-scope enumeration (E1) of message *specifications* (plain tuples: header
values, EDNS state, a few record sets from a pool, owner names that share suffixes in every
pattern).  Each spec is turned into a real dns.message object through the public API, rendered
by the real renderer and judged by

  * refs/wiremsg.py (independent RFC 1035 parser with a compression-pointer audit): counts,
    every octet consumed, every pointer backward / onto a literally written label of an earlier
    name, decoded names and records equal to the *spec* (ASCII case folded);
  * the library round trip: from_wire() gives the same id/flags/opcode/rcode/EDNS state and the
    same records (owner, class-on-the-wire, type, covers, TTL, rdata by value) per section, and
    to_wire(want_shuffle=False) of the parsed message reproduces the bytes.
"""
from __future__ import annotations

import itertools
import struct
import traceback

import dns.edns
import dns.exception
import dns.flags
import dns.message
import dns.name
import dns.opcode
import dns.rcode
import dns.rdata
import dns.rdataclass
import dns.rdataset
import dns.rdatatype
import dns.renderer
import dns.update

from .. import engines
from ..refs import wiremsg as W

PROPERTY = "C03"
LEVEL = "exploration"


# determinism: no shuffling even if a caller forgets want_shuffle=False
class _NoShuffle:
    @staticmethod
    def shuffle(lst):
        return None

    @staticmethod
    def randint(a, b):
        # deterministic, and different from every id in the spec domain (0, 1, 0xFFFF): a random
        # id taken where the caller's id should have been used must show
        return min(b, a + 0x5A5A)


dns.rdataset.random = _NoShuffle
dns.renderer.random = _NoShuffle

# ------------------------------------------------------------------ the pool
OWNERS = [".", "example.", "www.example.", "WWW.example.", "a.www.example.", "other."]
ORIGIN = "example."


def N(text):
    return ("N", text)


def u16(v):
    return struct.pack("!H", v)


def u32(v):
    return struct.pack("!I", v)


SIGHDR_NS = u16(2) + bytes([8, 2]) + u32(3600) + u32(1700003600) + u32(1700000000) + u16(12345)
SIGHDR_MX = u16(15) + bytes([13, 3]) + u32(300) + u32(1700003600) + u32(1700000000) + u16(54321)
SIGHDR_A = u16(1) + bytes([8, 3]) + u32(300) + u32(1700003600) + u32(1700000000) + u16(7)

# (label, type, class, ttl, [rdata as a list of fields])   -- every entry has a unique (type, covers)
POOL = [
    ("A", W.A, 1, 300, [[b"\x0a\x00\x00\x01"]]),
    ("AAAA2", W.AAAA, 1, 0, [[bytes(15) + b"\x01"], [b"\x20\x01\x0d\xb8" + bytes(11) + b"\x02"]]),
    ("NS2", W.NS, 1, 300, [[N("ns1.example.")], [N("NS2.WWW.example.")]]),
    ("CNAME", W.CNAME, 1, 1, [[N("a.www.example.")]]),
    ("PTR", W.PTR, 1, 0x7FFFFFFF, [[N("other.")]]),
    ("MX3", W.MX, 1, 300, [[u16(10), N("mail.example.")], [u16(20), N("MAIL.example.")],
                           [u16(30), N("www.example.")]]),
    ("SOA", W.SOA, 1, 3600, [[N("ns1.example."), N("hostmaster.example."),
                              u32(2024010101) + u32(7200) + u32(900) + u32(1209600) + u32(300)]]),
    ("SRV", W.SRV, 1, 60, [[u16(0) + u16(5) + u16(80), N("www.example.")]]),
    ("RP", W.RP, 1, 300, [[N("admin.example."), N("txt.example.")]]),
    ("TXT2", W.TXT, 1, 300, [[b"\x05hello" + b"\x00"], [b"\x03\xc0\x0c\xff"]]),
    ("RRSIG-NS", W.RRSIG, 1, 300, [[SIGHDR_NS, N("example."), b"\x01\x02\x03\x04sig"]]),
    ("RRSIG-MX", W.RRSIG, 1, 300, [[SIGHDR_MX, N("WWW.example."), b"\xc0\x0c\xc0\x0c"]]),
    ("NSEC", W.NSEC, 1, 300, [[N("a.www.example."), b"\x00\x06\x40\x01\x00\x00\x00\x03"]]),
    ("SVCB", W.SVCB, 1, 300, [[u16(1), N("www.example."), u16(3) + u16(2) + u16(443)]]),
    ("DNAME", W.DNAME, 1, 300, [[N("other.")]]),
    ("NAPTR", W.NAPTR, 1, 300, [[u16(100) + u16(10), b"\x01u", b"\x07E2U+sip", b"\x00", N("www.example.")]]),
    ("OPAQUE2", 65280, 1, 300, [[b""], [b"\x00\xc0\x0c\x03www\xc0"]]),
    ("KX", W.KX, 1, 300, [[u16(5), N("kx.example.")]]),
    ("AFSDB", W.AFSDB, 1, 300, [[u16(1), N("afs.www.example.")]]),
    ("SIG-A", W.SIG, 1, 300, [[SIGHDR_A, N("example."), b"legacy"]]),
    ("LP", W.LP, 1, 300, [[u16(10), N("l.example.")]]),
    ("CH-A", W.A, 3, 300, [[N("ch.example."), u16(0o1234)]]),
]
POOL_INDEX = {e[0]: i for i, e in enumerate(POOL)}

# EDNS option pool (code, data)
OPTIONS = [
    (8, b"\x00\x01\x18\x00\xc0\x00\x02"),                       # ECS 192.0.2.0/24
    (8, b"\x00\x02\x38\x00\x20\x01\x0d\xb8\x00\x00\x01"),       # ECS 2001:db8:0:100::/56
    (10, b"\x01\x02\x03\x04\x05\x06\x07\x08"),                  # COOKIE (client)
    (3, b"ns1"),                                                  # NSID
    (15, b"\x00\x12blocked"),                                     # EDE
    (18, W.encode_name(W.name_from_text("rep.example."))),        # REPORTCHANNEL
    (65001, b"\x01\x02"),                                         # generic
    (12, bytes(4)),                                               # PADDING
]
OPTION_LISTS = [()] + [(i,) for i in range(len(OPTIONS))] + \
    [(i, j) for i in range(len(OPTIONS)) for j in range(len(OPTIONS))]

UPDATE_FORMS_T = ["add", "del-rrset", "del-rr", "pre-rrset", "pre-value", "abs-rrset", "additional"]
UPDATE_FORMS_N = ["del-name", "pre-name", "abs-name"]

_ORIGIN_LABELS = W.name_from_text(ORIGIN)
_ORIGIN_NAME = dns.name.Name(_ORIGIN_LABELS + (b"",))


def mkname(labels, relative):
    """dns.name.Name from a label tuple, relative to ORIGIN when asked and possible."""
    if relative:
        k = len(_ORIGIN_LABELS)
        if len(labels) >= k and W.name_key(labels[len(labels) - k:]) == W.name_key(_ORIGIN_LABELS):
            return dns.name.Name(tuple(labels[:len(labels) - k]))
    return dns.name.Name(tuple(labels) + (b"",))


def ref_rdata(fields):
    """(uncompressed wire in the given case, canonical wire with lower-cased names)"""
    raw = bytearray()
    canon = bytearray()
    for f in fields:
        if isinstance(f, tuple):
            labels = W.name_from_text(f[1])
            raw += W.encode_name(labels)
            canon += W.encode_name(W.name_key(labels))
        else:
            raw += f
            canon += f
    return bytes(raw), bytes(canon)


_RD_CACHE = {}


def lib_rdata(entry, i, relative, rclass=None):
    key = (entry, i, relative, rclass)
    rd = _RD_CACHE.get(key)
    if rd is None:
        _, rtype, pclass, _, rds = POOL[entry]
        if rclass is None:
            rclass = pclass
        raw, _ = ref_rdata(rds[i])
        rd = dns.rdata.from_wire(rclass, rtype, raw, 0, len(raw),
                                 origin=_ORIGIN_NAME if relative else None)
        _RD_CACHE[key] = rd
    return rd


def covers_of(entry):
    _, rtype, _, _, rds = POOL[entry]
    if rtype in (W.RRSIG, W.SIG):
        return struct.unpack("!H", rds[0][0][:2])[0]
    return 0


def crash_sig(e):
    tb = traceback.extract_tb(e.__traceback__)
    return "%s@%s" % (type(e).__name__, tb[-1].name if tb else "?")


# ------------------------------------------------------------------ spec -> message + expectation
def default_spec():
    return {"kind": "q", "id": 1, "opcode": 0, "hflags": 0x8000, "rcode": 0,
            "edns": None, "eflags": 0, "payload": 1232, "options": [],
            "origin": False, "zclass": 1,
            "questions": [[1, 6, 1]], "items": []}


class Expect:
    __slots__ = ("questions", "sections", "nrr")


def expected(spec):
    """What RFC 1035 / RFC 2136 say the message must contain, from the spec alone."""
    ex = Expect()
    ex.questions = [(W.name_key(W.name_from_text(OWNERS[o])), t, c) for o, t, c in spec["questions"]]
    secs = {1: [], 2: [], 3: []}
    kind = spec["kind"]
    seen = set()
    for item in spec["items"]:
        if kind == "u":
            form, o, entry = item
            okey = W.name_key(W.name_from_text(OWNERS[o]))
            zc = spec["zclass"]
            if form in UPDATE_FORMS_N:
                sec = 2 if form == "del-name" else 1
                cls = W.C_NONE if form == "abs-name" else W.C_ANY
                secs[sec].append((okey, W.ANY_T, cls, 0, b""))
                continue
            _, rtype, _, ttl, rds = POOL[entry]
            if form == "additional":
                k = (3, okey, entry)
                if k in seen:
                    continue
                seen.add(k)
                for fields in rds:
                    secs[3].append((okey, rtype, zc, ttl, ref_rdata(fields)[1]))
            elif form == "add":
                for fields in rds:
                    secs[2].append((okey, rtype, zc, ttl, ref_rdata(fields)[1]))
            elif form == "del-rrset":
                secs[2].append((okey, rtype, W.C_ANY, 0, b""))
            elif form == "del-rr":
                for fields in rds:
                    secs[2].append((okey, rtype, W.C_NONE, 0, ref_rdata(fields)[1]))
            elif form == "pre-rrset":
                secs[1].append((okey, rtype, W.C_ANY, 0, b""))
            elif form == "abs-rrset":
                secs[1].append((okey, rtype, W.C_NONE, 0, b""))
            elif form == "pre-value":
                for fields in rds:
                    secs[1].append((okey, rtype, zc, 0, ref_rdata(fields)[1]))
            else:
                raise AssertionError(form)
        elif kind == "x":
            sec, o, entry, deleting = item
            okey = W.name_key(W.name_from_text(OWNERS[o]))
            _, rtype, rclass, ttl, rds = POOL[entry]
            empty = deleting is not None and (deleting == W.C_ANY or sec == 1)
            # the RRset key of the message index: an empty form has no covered type
            k = (sec, okey, rtype, 0 if empty else covers_of(entry), deleting)
            if k in seen:
                continue
            seen.add(k)
            if deleting is None:
                for fields in rds:
                    secs[sec].append((okey, rtype, rclass, ttl, ref_rdata(fields)[1]))
            elif deleting == W.C_ANY or sec == 1:
                secs[sec].append((okey, rtype, deleting, 0, b""))
            else:
                for fields in rds:
                    secs[sec].append((okey, rtype, W.C_NONE, 0, ref_rdata(fields)[1]))
        else:
            entry, o, sec = item
            okey = W.name_key(W.name_from_text(OWNERS[o]))
            k = (sec, okey, entry)
            if k in seen:
                continue
            seen.add(k)
            _, rtype, rclass, ttl, rds = POOL[entry]
            for fields in rds:
                secs[sec].append((okey, rtype, rclass, ttl, ref_rdata(fields)[1]))
    for big in spec.get("big", []):
        # ("txt", owner text, sec, total rdata length) | ("ns"/"mx"/"a", owner text, sec, target text)
        what, owner, sec = big[0], big[1], big[2]
        okey = W.name_key(W.name_from_text(owner))
        if what == "txt":
            secs[sec].append((okey, W.TXT, 1, 5, txt_fill(big[3])))
        elif what == "ns":
            secs[sec].append((okey, W.NS, 1, 5, ref_rdata([N(big[3])])[1]))
        elif what == "mx":
            secs[sec].append((okey, W.MX, 1, 5, ref_rdata([u16(1), N(big[3])])[1]))
        elif what == "a":
            secs[sec].append((okey, W.A, 1, 5, b"\x7f\x00\x00\x01"))
    ex.sections = secs
    return ex


def txt_fill(total):
    """TXT RDATA of exactly `total` octets (character-strings of <= 255 octets)."""
    out = bytearray()
    left = total
    while left > 0:
        n = min(256, left)
        out.append(n - 1)
        out += bytes([0x61 + (len(out) % 23)]) * (n - 1)
        left -= n
    assert len(out) == total
    return bytes(out)


def header_flags(spec):
    return (spec["hflags"] & 0x87F0) | ((spec["opcode"] & 0xF) << 11) | (spec["rcode"] & 0xF)


def build(spec):
    """Construct the message through the public API."""
    rel = bool(spec["origin"])
    kind = spec["kind"]
    opcode = spec["opcode"]
    if opcode == 5:
        zo, zt, zc = spec["questions"][0]
        m = dns.update.UpdateMessage(mkname(W.name_from_text(OWNERS[zo]), False), zc, id=spec["id"])
        if not rel:
            m.origin = None
        for o, t, c in spec["questions"][1:]:
            m.find_rrset(0, mkname(W.name_from_text(OWNERS[o]), rel), c, t, create=True, force_unique=True)
    else:
        if opcode == 0:
            m = dns.message.QueryMessage(id=spec["id"])
        else:
            m = dns.message.Message(id=spec["id"])
        for o, t, c in spec["questions"]:
            m.find_rrset(0, mkname(W.name_from_text(OWNERS[o]), rel), c, t, create=True, force_unique=True)
    m.flags = dns.flags.Flag(header_flags(spec) & 0xFFF0)
    if spec["edns"] is not None:
        opts = [dns.edns.option_from_wire(OPTIONS[i][0], OPTIONS[i][1], 0, len(OPTIONS[i][1]))
                for i in spec["options"]]
        if spec.get("request_payload"):
            m.use_edns(spec["edns"], spec["eflags"], spec["payload"], request_payload=spec["request_payload"], options=opts)
        else:
            m.use_edns(spec["edns"], spec["eflags"], spec["payload"], options=opts)
    m.set_rcode(spec["rcode"])
    for item in spec["items"]:
        if kind == "u":
            form, o, entry = item
            name = mkname(W.name_from_text(OWNERS[o]), rel)
            if form == "del-name":
                m.delete(name)
                continue
            if form == "pre-name":
                m.present(name)
                continue
            if form == "abs-name":
                m.absent(name)
                continue
            _, rtype, _, ttl, rds = POOL[entry]
            rclass = spec["zclass"]
            lrds = [lib_rdata(entry, i, rel, rclass) for i in range(len(rds))]
            if form == "add":
                m.add(name, ttl, *lrds)
            elif form == "del-rrset":
                m.delete(name, dns.rdatatype.RdataType.make(rtype))
            elif form == "del-rr":
                m.delete(name, *lrds)
            elif form == "pre-rrset":
                m.present(name, dns.rdatatype.RdataType.make(rtype))
            elif form == "abs-rrset":
                m.absent(name, dns.rdatatype.RdataType.make(rtype))
            elif form == "pre-value":
                m.present(name, *lrds)
            elif form == "additional":
                rrs = m.find_rrset(3, name, rclass, rtype, covers_of(entry), None, create=True)
                for rd in lrds:
                    rrs.add(rd, ttl)
        elif kind == "x":
            sec, o, entry, deleting = item
            name = mkname(W.name_from_text(OWNERS[o]), rel)
            _, rtype, rclass, ttl, rds = POOL[entry]
            empty = deleting is not None and (deleting == W.C_ANY or sec == 1)
            rrs = m.find_rrset(sec, name, rclass, rtype, 0 if empty else covers_of(entry),
                               deleting, create=True)
            if not empty:
                for i in range(len(rds)):
                    rrs.add(lib_rdata(entry, i, rel), ttl if deleting is None else 0)
        else:
            entry, o, sec = item
            name = mkname(W.name_from_text(OWNERS[o]), rel)
            _, rtype, rclass, ttl, rds = POOL[entry]
            rrs = m.find_rrset(sec, name, rclass, rtype, covers_of(entry), None, create=True)
            for i in range(len(rds)):
                rrs.add(lib_rdata(entry, i, rel), ttl)
    for big in spec.get("big", []):
        what, owner, sec = big[0], big[1], big[2]
        name = mkname(W.name_from_text(owner), rel)
        if what == "txt":
            raw = txt_fill(big[3])
            rtype = W.TXT
        elif what == "ns":
            raw = ref_rdata([N(big[3])])[0]
            rtype = W.NS
        elif what == "mx":
            raw = ref_rdata([u16(1), N(big[3])])[0]
            rtype = W.MX
        else:
            raw = b"\x7f\x00\x00\x01"
            rtype = W.A
        rd = dns.rdata.from_wire(1, rtype, raw, 0, len(raw), origin=_ORIGIN_NAME if rel else None)
        m.find_rrset(sec, name, 1, rtype, create=True).add(rd, 5)
    return m


# ------------------------------------------------------------------ comparators
ALT = dns.name.Name((b"alt", b"invalid", b""))


def flatten(m, origin, relform=False):
    """Per section sorted list of (owner, class on the wire, type, covers, ttl, rdata by value)."""
    out = []
    for s in (0, 1, 2, 3):
        lst = []
        for rrs in m.sections[s]:
            nm = rrs.name
            if relform:
                ok = (nm.is_absolute(), tuple(x.lower() for x in nm.labels))
            else:
                if not nm.is_absolute():
                    nm = nm.derelativize(origin)
                ok = tuple(x.lower() for x in nm.labels)
            eff = int(rrs.deleting) if rrs.deleting is not None else int(rrs.rdclass)
            if s == 0:
                lst.append((ok, eff, int(rrs.rdtype)))
            elif len(rrs) == 0:
                lst.append((ok, eff, int(rrs.rdtype), int(rrs.covers), int(rrs.ttl), b""))
            else:
                for rd in rrs:
                    if relform:
                        val = rd.to_digestable(origin) + b"|" + rd.to_digestable(ALT)
                    else:
                        val = rd.to_digestable(origin)
                    lst.append((ok, eff, int(rrs.rdtype), int(rrs.covers), int(rrs.ttl), val))
        out.append(sorted(lst))
    return out


def first_diff(a, b):
    sa, sb = list(a), list(b)
    for x in a:
        if x in sb:
            sb.remove(x)
    for x in b:
        if x in sa:
            sa.remove(x)
    return "only-left=%r only-right=%r" % (sa[:2], sb[:2])


def edns_state(m):
    return (int(m.edns), int(m.ednsflags), int(m.payload),
            [(int(o.otype), o.to_wire()) for o in m.options])


def wire_vs_spec(spec, ex, pm, exp_edns, probs, ptr_expected=True):
    """Reference parse against the spec.  exp_edns = (version, eflags16, payload, [(code,data)])
    or None."""
    if pm.id != spec["id"]:
        probs.append(("wire-vs-spec/header-id", "wire id %d spec %d" % (pm.id, spec["id"])))
    hf = header_flags(spec)
    if pm.flags != hf:
        probs.append(("wire-vs-spec/header-flags", "wire flags 0x%04x expected 0x%04x" % (pm.flags, hf)))
    # question
    gotq = [(W.name_key(n), t, c) for n, t, c, _ in pm.questions]
    if gotq != ex.questions:
        probs.append(("wire-vs-spec/question", "wire %r expected %r" % (gotq, ex.questions)))
    opt = None
    for s in (1, 2, 3):
        got = []
        for rr in pm.sections[s - 1]:
            if rr.rtype == W.OPT:
                if s != 3 or opt is not None:
                    probs.append(("wire-vs-spec/opt-misplaced", "OPT in section %d or duplicated" % s))
                opt = rr
                continue
            got.append((W.name_key(rr.owner), rr.rtype, rr.rclass, rr.ttl, rr.canon_rdata()))
        want = ex.sections[s]
        if sorted(got) != sorted(want):
            probs.append(("wire-vs-spec/records-differ/section-%d" % s,
                          "wire has %d RRs, spec %d: %s" % (len(got), len(want), first_diff(got, want))))
    if exp_edns is None:
        if opt is not None:
            probs.append(("wire-vs-spec/opt-unexpected", "OPT present but EDNS is off"))
    else:
        if opt is None:
            probs.append(("wire-vs-spec/opt-missing", "EDNS is on but the wire has no OPT"))
        else:
            payload, ext, ver, fl, opts = W.opt_info(opt)
            want = (exp_edns[2], (spec["rcode"] >> 4) & 0xFF, exp_edns[0], exp_edns[1], exp_edns[3])
            got = (payload, ext, ver, fl, opts)
            if opt.owner != () or got != want:
                probs.append(("wire-vs-spec/opt-fields",
                              "OPT (payload, ext-rcode, version, flags, options) = %r expected %r" % (got, want)))


def judge(spec):
    """Returns (problems, info)."""
    probs = []
    info = {"ptrs": 0, "len": 0}
    origin = _ORIGIN_NAME if spec["origin"] else None
    try:
        m = build(spec)
        ex = expected(spec)
    except Exception as e:
        probs.append(("build/crash/" + crash_sig(e), "%s: %s" % (type(e).__name__, e)))
        return probs, info
    # state of the object before rendering
    st0 = edns_state(m)
    if st0[0] >= 0:
        exp_edns = (st0[0], st0[1] & 0xFFFF, st0[2], st0[3])
    else:
        exp_edns = None
    fl0 = flatten(m, origin)
    try:
        if spec["opcode"] == 5:
            wire = m.to_wire(want_shuffle=False)
        else:
            wire = m.to_wire(origin=origin, want_shuffle=False)
    except Exception as e:
        probs.append(("render/crash/" + crash_sig(e), "%s: %s" % (type(e).__name__, e)))
        return probs, info
    info["len"] = len(wire)
    try:
        pm = W.parse(wire)
    except W.WireError as e:
        probs.append(("refparse/" + e.kind, str(e)))
        return probs, info
    info["ptrs"] = len(pm.pointers)
    info["legacy"] = pm.legacy_ptrs
    info["maxptr"] = max([t for _, t, _ in pm.pointers], default=0)
    wire_vs_spec(spec, ex, pm, exp_edns, probs)
    if "expect_at" in spec:
        # harness self-check of the crafted large messages: the name really starts there
        off, text = spec["expect_at"]
        want = W.name_key(W.name_from_text(text))
        if pm.label_starts.get(off) != want and not probs:
            raise AssertionError("large message construction missed offset %d: %r" % (off, pm.label_starts.get(off)))
    # ---- library round trip
    for mode in ("abs", "rel") if spec["origin"] else ("abs",):
        tag = "roundtrip" if mode == "abs" else "roundtrip-origin"
        try:
            if mode == "abs":
                m2 = dns.message.from_wire(wire)
            else:
                m2 = dns.message.from_wire(wire, origin=origin)
        except Exception as e:
            probs.append((tag + "/parse-crash/" + crash_sig(e), "%s: %s" % (type(e).__name__, e)))
            continue
        if m2.id != spec["id"]:
            probs.append((tag + "/id", "%r vs %r" % (m2.id, spec["id"])))
        if int(m2.flags) != int(m.flags) or int(m2.flags) != header_flags(spec):
            probs.append((tag + "/flags", "parsed 0x%04x original 0x%04x spec 0x%04x" % (
                int(m2.flags), int(m.flags), header_flags(spec))))
        if int(m2.opcode()) != spec["opcode"]:
            probs.append((tag + "/opcode", "%r vs %r" % (int(m2.opcode()), spec["opcode"])))
        if int(m2.rcode()) != spec["rcode"]:
            probs.append((tag + "/rcode", "%r vs %r" % (int(m2.rcode()), spec["rcode"])))
        st2 = edns_state(m2)
        if st2 != st0:
            probs.append((tag + "/edns-state", "parsed (edns, ednsflags, payload, options) %r original %r" % (st2, st0)))
        fl2 = flatten(m2, origin)
        if fl2 != fl0:
            for s in range(4):
                if fl2[s] != fl0[s]:
                    probs.append((tag + "/records-differ/section-%d" % s, first_diff(fl2[s], fl0[s])))
        if mode == "rel":
            a, b = flatten(m2, origin, True), flatten(m, origin, True)
            if a != b:
                # (the UpdateMessage constructor itself stores the zone name absolute)
                for s in range(1 if spec["opcode"] == 5 else 0, 4):
                    if a[s] != b[s]:
                        probs.append((tag + "/relative-form-differs/section-%d" % s, first_diff(a[s], b[s])))
        if spec["opcode"] == 5:
            # RFC 2136: class ANY / NONE in a non-zone section marks delete / prerequisite forms
            zc = m2.sections[0][0].rdclass if m2.sections[0] else None
            for s in (1, 2, 3):
                for rrs in m2.sections[s]:
                    eff = int(rrs.deleting) if rrs.deleting is not None else int(rrs.rdclass)
                    wantdel = eff if eff in (W.C_ANY, W.C_NONE) else None
                    gotdel = None if rrs.deleting is None else int(rrs.deleting)
                    if gotdel != wantdel or (wantdel is not None and rrs.rdclass != zc):
                        probs.append((tag + "/update-class-decoding",
                                      "section %d class-on-wire %d parsed as rdclass=%d deleting=%r" % (
                                          s, eff, int(rrs.rdclass), gotdel)))
        try:
            wire2 = m2.to_wire(want_shuffle=False)
        except Exception as e:
            probs.append((tag + "/rerender-crash/" + crash_sig(e), "%s: %s" % (type(e).__name__, e)))
            continue
        if wire2 != wire:
            d = next((i for i in range(min(len(wire), len(wire2))) if wire[i] != wire2[i]),
                     min(len(wire), len(wire2)))
            probs.append((tag + "/rerender-bytes-differ",
                          "lengths %d/%d, first difference at offset %d" % (len(wire), len(wire2), d)))
    return probs, info


def recheck(case):
    if isinstance(case, dict) and case.get("mode") == "renderer":
        from . import c08
        probs, _ = c08.judge_renderer(case)
        return [("C03/renderer-skip/" + s.split("/", 1)[1], w) for s, w in probs if _skip_relevant(s)]
    probs, _ = judge(case)
    return [("C03/" + s, w) for s, w in probs]


def _skip_relevant(sig):
    # compression soundness and record identity only; size accounting is C08's business
    return sig.startswith(("renderer/refparse", "renderer/kept-sets-differ", "renderer/crash", "renderer/tsig"))


def work_skip(arg, col):
    """Renderer driven directly with a size limit: record sets that do not fit raise TooBig
    and are skipped, rendering continues.  Every pointer emitted afterwards must still
    target an earlier occurrence of its suffix (no pointer into rolled-back bytes)."""
    from . import c08
    mi, lo, hi = arg
    for L in range(lo, hi):
        for tsig in (0, 3):
            case = {"mode": "renderer", "msg": mi, "L": L, "tsig": tsig}
            probs, info = c08.judge_renderer(case)
            col.count("evaluations")
            col.count("evaluations_renderer_skip")
            probs = [(s_, w_) for s_, w_ in probs if _skip_relevant(s_)]
            col.outcome("renderer-skip:%s" % (probs[0][0] if probs else info.get("outcome", "ok")))
            if info.get("outcome") == "renderer-kept-some":
                col.nontrivial(("skip", mi, L, tsig))
            for s_, w_ in probs:
                col.violation("C03/renderer-skip/" + s_.split("/", 1)[1], "%s (message %d, max_size %d, tsig variant %d)" % (w_, mi, L, tsig), case)


# ------------------------------------------------------------------ enumeration
def run_spec(spec, col, family):
    probs, info = judge(spec)
    col.count("evaluations")
    col.count("evaluations_" + family)
    p = info.get("ptrs", 0)
    if probs:
        col.outcome("%s:%s" % (family, probs[0][0]))
        for s, w in probs:
            col.violation("C03/" + s, w, spec)
    else:
        col.outcome("%s:ok:ptrs=%s" % (family, p if p < 3 else "3-5" if p < 6 else "6+"))
        col.count("pointers_audited", p)
        col.count("legacy_type_pointers", info.get("legacy", 0))
        col.max("max_pointer_target", info.get("maxptr", 0))
        col.max("max_wire_len", info.get("len", 0))
        if p or spec["edns"] is not None or spec["kind"] != "q":
            col.nontrivial((family, repr(spec)))
        if p >= 3:
            col.sample({"family": family, "spec": spec, "wire_len": info["len"], "pointers": p}, limit=1)


HEADER_BODY = [[POOL_INDEX["NS2"], 1, 1], [POOL_INDEX["MX3"], 2, 2], [POOL_INDEX["A"], 3, 3]]


def header_domains():
    return [
        ("id", [1, 0, 0xFFFF]),
        ("opcode", list(range(16))),
        ("QR", [0x8000, 0]), ("AA", [0, 0x0400]), ("TC", [0, 0x0200]), ("RD", [0, 0x0100]),
        ("RA", [0, 0x0080]), ("Z", [0, 0x0040]), ("AD", [0, 0x0020]), ("CD", [0, 0x0010]),
        ("rcode", list(range(24)) + [3841, 4095]),
        ("edns", [0, None, 1, 255]),
        ("eflags", [0, 0x8000, 0x4000, 0x0001, 0xFFFF]),
        ("payload", [1232, 0, 512, 65535]),
        ("options", list(range(len(OPTION_LISTS)))),
        ("origin", [False, True]),
        ("body", [0, 1]),
        ("questions", [1, 0, 2, 3]),
    ]


def header_spec(point):
    (id_, opcode, qr, aa, tc, rd, ra, z, ad, cd, rcode, edns, eflags, payload, optl, origin, body, nq) = point
    spec = default_spec()
    spec.update(id=id_, opcode=opcode, hflags=qr | aa | tc | rd | ra | z | ad | cd, rcode=rcode,
                edns=edns, eflags=eflags, payload=payload, options=list(OPTION_LISTS[optl]),
                origin=origin)
    # an UPDATE has exactly one zone entry (RFC 2136 s2.3); other opcodes get 0..3 questions
    # (the third repeats the first: the question section is a list, not a set)
    spec["questions"] = [[1, 6, 1], [2, 1, 1], [1, 6, 1]][:1 if opcode == 5 else nq]
    spec["items"] = [list(x) for x in HEADER_BODY] if body == 0 else []
    return spec


def work_header(task, col):
    k, shard, nshards = task
    doms = [d for _, d in header_domains()]
    if shard == 0:
        # the smallest messages: header only (12 octets), header + question, header + OPT
        names = [n for n, _ in header_domains()]
        base = {n: d[0] for n, d in header_domains()}
        for over in ({"questions": 0, "body": 1, "edns": None}, {"questions": 1, "body": 1, "edns": None},
                     {"questions": 0, "body": 1, "edns": 0}, {"questions": 0, "body": 1, "edns": None, "QR": 0, "id": 0}):
            pt = dict(base, **over)
            run_spec(header_spec(tuple(pt[n] for n in names)), col, "header")
    for i, point in enumerate(engines.k_deviation(doms, k)):
        if i % nshards != shard:
            continue
        run_spec(header_spec(point), col, "header")


def work_bodies(task, col):
    """Bodies of 1..3 record sets.  task = (n, first (entry, owner), section patterns, origins,
    questions, entries)"""
    n, first, patterns, origins, questions, entries = task
    items = [(e, o) for e in entries for o in range(len(OWNERS))]
    rest = [items] * (n - 1)
    for tail in itertools.product(*rest):
        seq = (tuple(first),) + tail
        for pat in patterns:
            for origin in origins:
                for q in questions:
                    spec = default_spec()
                    spec["origin"] = origin
                    spec["questions"] = [] if q is None else [[q, 1, 1]]
                    spec["items"] = [[e, o, s] for (e, o), s in zip(seq, pat)]
                    run_spec(spec, col, "body%d" % n)


def update_items(entries):
    forms = [(f, e) for e in entries for f in UPDATE_FORMS_T] + [(f, None) for f in UPDATE_FORMS_N]
    return [(f, o, e) for f, e in forms for o in range(len(OWNERS))]


def work_update(task, col):
    n, first, origins, entries, zclasses = task
    items = update_items(entries)
    for tail in itertools.product(*([items] * (n - 1))):
        seq = (tuple(first),) + tail
        for origin in origins:
            for zc in zclasses:
                if zc != 1 and any(e is not None and POOL[e][1] == W.A for _, _, e in seq):
                    continue  # class CH gives type A another RDATA format
                spec = default_spec()
                spec.update(kind="u", opcode=5, hflags=0, origin=origin, zclass=zc)
                spec["questions"] = [[1, 6, zc]]
                spec["items"] = [list(x) for x in seq]
                run_spec(spec, col, "update%d" % n)


INDEX_ENTRIES = ["A", "RRSIG-NS", "RRSIG-MX"]


def index_keys():
    keys = []
    for sec in (1, 2, 3):
        for o in (2, 3, 4):
            for en in INDEX_ENTRIES:
                for deleting in (None, W.C_NONE, W.C_ANY):
                    keys.append((sec, o, POOL_INDEX[en], deleting))
    return keys


def work_index(task, col):
    first, origins = task
    for second in index_keys():
        for origin in origins:
            spec = default_spec()
            spec.update(kind="x", opcode=5, hflags=0, origin=origin)
            spec["questions"] = [[1, 6, 1]]
            spec["items"] = [list(first), list(second)]
            run_spec(spec, col, "index")
    # the same keys in an ordinary response (no deleting)
    if first[3] is None:
        for second in index_keys():
            if second[3] is not None:
                continue
            for origin in origins:
                spec = default_spec()
                spec["origin"] = origin
                spec["items"] = [[first[2], first[1], first[0]], [second[2], second[1], second[0]]]
                run_spec(spec, col, "index")


LATE_NAMES = ["a.b.late.", "a.b.example.", "A.B.C.D.E.late."]


def large_spec(target, late, where, origin):
    """A message whose first literal occurrence of `late` starts exactly at offset `target`."""
    spec = default_spec()
    spec["origin"] = origin
    spec["questions"] = [[1, 1, 1]]          # example. IN A : 12 + 9 + 4 = 25
    off = 25
    big = []
    # filler RR: owner "f." (3) + 10 fixed + rdata
    if where == "owner":
        fill = target - off - 13
        big.append(["txt", "f.", 1, fill])
        big.append(["a", late, 1])
    elif where == "ns":
        # NS RR: owner "f." (pointer, 2 octets, second use) + 10 fixed, then the target name
        fill = target - off - 13 - 12
        big.append(["txt", "f.", 1, fill])
        big.append(["ns", "f.", 1, late])
    else:  # mx: pointer owner 2 + 10 fixed + preference 2
        fill = target - off - 13 - 14
        big.append(["txt", "f.", 1, fill])
        big.append(["mx", "f.", 1, late])
    # later uses of the name and of each of its suffixes
    labels = late[:-1].split(".")
    big.append(["ns", late, 2, late])
    for i in range(1, len(labels)):
        suffix = ".".join(labels[i:]) + "."
        big.append(["a", suffix, 2])
        big.append(["mx", "x." + suffix.lower(), 3, "y." + suffix])
    spec["big"] = big
    spec["expect_at"] = [target, late]
    return spec


def work_large(task, col):
    lo, hi, origins = task
    for target in range(lo, hi):
        for late in LATE_NAMES:
            for where in ("owner", "ns", "mx"):
                for origin in origins:
                    spec = large_spec(target, late, where, origin)
                    run_spec(spec, col, "large")
                    if where == "owner" and late == LATE_NAMES[0]:
                        # the same 16 KiB message carrying an OPT that advertises a small
                        # payload (a reply received over TCP): parse + re-render must still
                        # reproduce the bytes
                        spec2 = dict(spec, edns=0, payload=1232, request_payload=65535)
                        run_spec(spec2, col, "large-edns")
                    # independent confirmation that the construction hit the offset
                    col.count("large_targets")


def run(ctx):
    ctx.rule = (
        "E1 enumeration of message specs, each built through the public API, rendered, parsed by the "
        "independent refs/wiremsg parser (pointer audit) and by from_wire, re-rendered.  Families: "
        "header = k-deviation over id/opcode/8 flag bits/rcode/EDNS version/flags/payload/option lists/"
        "origin/body; bodyN = every sequence of N (pool entry, owner) pairs over the stated section "
        "patterns, origins and questions; updateN = every sequence of N RFC 2136 forms x owners; index = "
        "every ordered pair of RRset keys differing in section/owner-case/type/covers/deleting built "
        "with find_rrset(create=True); large = first literal occurrence of a name at every offset around "
        "0x3FFF (owner / NS target / MX target).  A case counts as distinct non-trivial when its wire "
        "holds >= 1 compression pointer, an OPT, or update-form records (key = the spec).")
    ctx.assume("names are plain ASCII labels; owners from a 6-name set giving every suffix-sharing pattern "
               "(root, apex, child, case variant, grandchild, unrelated)")
    ctx.assume("empty RRsets are enumerated only in UPDATE messages (RFC 2136 forms); in other opcodes an "
               "empty RRset has no well-formed wire form")
    ctx.assume("TTLs <= 2^31-1 (RFC 2181 s8: larger values are read as 0 by design)")
    ctx.assume("records are compared by value (ASCII case of names folded); SRV/NAPTR/LP/TKEY/CH-A names "
               "compressed by dnspython are tolerated and audited like RFC 1035 names")
    allent = list(range(len(POOL)))
    owners = range(len(OWNERS))
    tasks = []
    # header family
    hk = ctx.pick(2, 3)
    nsh = ctx.pick(16, 128)
    tasks += [(work_header, (hk, s, nsh)) for s in range(nsh)]
    # single bodies: every section, question variant, origin
    qs = [None] + list(owners)
    tasks += [(work_bodies, (1, (e, o), [(1,), (2,), (3,)], [False, True], qs, allent))
              for e in allent for o in owners]
    # pairs
    pats2 = ctx.pick([(1, 1), (2, 3)], [(1, 1), (1, 2), (2, 3), (3, 3)])
    tasks += [(work_bodies, (2, (e, o), pats2, [False, True], [1], allent))
              for e in allent for o in owners]
    # triples
    if ctx.quick:
        core = [POOL_INDEX[x] for x in ("NS2", "MX3", "CNAME", "SOA", "RRSIG-MX", "SRV", "TXT2", "PTR", "CH-A")]
        tasks += [(work_bodies, (3, (e, o), [(1, 2, 3)], [False], [1], core))
                  for e in core for o in owners]
        ctx.extra["triples_pool"] = [POOL[i][0] for i in core]
    else:
        tasks += [(work_bodies, (3, (e, o), [(1, 2, 3)], [False], [1], allent))
                  for e in allent for o in owners]
        core = [POOL_INDEX[x] for x in ("NS2", "MX3", "CNAME", "SOA", "RRSIG-MX", "SRV", "TXT2", "PTR", "CH-A")]
        tasks += [(work_bodies, (3, (e, o), [(1, 1, 1), (3, 3, 3)], [True], [1], core))
                  for e in core for o in owners]
        ctx.extra["triples_pool"] = [e[0] for e in POOL]
        ctx.extra["triples_pool_with_origin"] = [POOL[i][0] for i in core]
    # updates
    uent = [POOL_INDEX[x] for x in ctx.pick(("NS2", "MX3"), ("A", "NS2", "MX3", "RRSIG-NS"))]
    for it in update_items(uent):
        tasks.append((work_update, (1, it, [False, True], uent, [1, 3])))
        tasks.append((work_update, (2, it, [False, True], uent, [1])))
    if not ctx.quick:
        u3 = [POOL_INDEX[x] for x in ("NS2", "MX3")]
        for it in update_items(u3):
            tasks.append((work_update, (3, it, [False], u3, [1])))
    # index
    tasks += [(work_index, (k, [False, True])) for k in index_keys()]
    # large
    lo, hi = ctx.pick((0x3FF6, 0x4006), (0x3FE0, 0x4020))
    tasks += [(work_large, (t, t + 1, ctx.pick([False], [False, True]))) for t in range(lo, hi)]
    ctx.extra.update({
        "pool": [e[0] for e in POOL], "owners": OWNERS, "origin": ORIGIN,
        "option_pool": len(OPTIONS), "option_lists": len(OPTION_LISTS),
        "header_k_deviation": hk, "header_domains": {n: len(d) for n, d in header_domains()},
        "pair_section_patterns": pats2, "update_entries": [POOL[i][0] for i in uent],
        "update_forms": UPDATE_FORMS_T + UPDATE_FORMS_N, "index_keys": len(index_keys()),
        "large_target_offsets": [hex(lo), hex(hi - 1)], "large_names": LATE_NAMES,
        "tasks": len(tasks),
    })
    # size-limited Renderer that skips what does not fit (compression soundness after a rollback)
    from . import c08
    nmsg = len(c08.MESSAGES)
    step = ctx.pick(3, 1)
    for mi in range(0, nmsg, step):
        full = c08.base_facts(mi)["full"]
        for lo in range(512, full + 20, 120):
            tasks.append((work_skip, (mi, lo, min(lo + 120, full + 20))))
    ctx.extra["renderer_skip_messages"] = list(range(0, nmsg, step))
    ctx.pmap(_dispatch, tasks)


def _dispatch(task, col):
    fn, arg = task
    fn(arg, col)
