"""C04: untrusted wire or text input only ever raises the library's own errors.

Fault enumeration (E4) + small-alphabet enumeration (E1) against the real parsers:

  wire   msg-wire    dns.message.from_wire   header x short bodies; corpus of valid messages:
                                              every truncation, every byte -> alphabet, count x body
                                              double faults, under parsing-option vectors
         name-wire   dns.name.from_wire      every short octet string at every start offset
         rdata-wire  dns.rdata.from_wire     every short octet string per implemented type; byte
                                              faults / truncation / insertion on valid rdata
  text   name-text   dns.name.from_text      every short string over a small alphabet
         ttl-text    dns.ttl.from_text       every short string over a small alphabet
         rdata-text  dns.rdata.from_text     token and character faults of valid forms per type
         zone-text   dns.zone.from_text      line, token, character faults of valid zone files
         rrsets-text dns.zonefile.read_rrsets  likewise
         msg-text    dns.message.from_text   likewise

Oracle per case (DESIGN section 2, C04): the call terminates (setitimer watchdog), the result
is a value or an exception of the library's family for that entry point, every returned
value renders with to_text()/to_wire() without a non-library exception, and in
continue_on_error mode nothing but the header error / requested Truncated is raised and
every recorded offset lies inside the message.
"""
from __future__ import annotations

import ast
import atexit
import io
import itertools
import os
import re
import shutil
import signal
import tempfile

import dns.exception
import dns.message
import dns.name
import dns.rdata
import dns.rdataclass
import dns.rdatatype
import dns.tsig
import dns.ttl
import dns.versioned
import dns.zone
import dns.zonefile

from .. import core
from ..refs import c04_corpus as corpus

PROPERTY = "C04"
LEVEL = "fault_enumeration"

WATCHDOG_S = 5.0        # CPU seconds (ITIMER_PROF): immune to machine load
WATCHDOG_WALL_S = 120.0  # wall-clock backstop (ITIMER_REAL) for a call that blocks instead of spinning
DNSDIR = os.path.dirname(os.path.abspath(dns.__file__)) + os.sep
ORIGIN = dns.name.from_text("example.")


# ---------------------------------------------------------------- determinism seams
class _Clock:
    @staticmethod
    def time():
        return float(corpus.NOW)


dns.message.time = _Clock  # TSIG validation/signing inside dns.message reads time.time()
# (dns.rdataset.random is pinned by the corpus module: no shuffling of RRsets when rendering)


# ---------------------------------------------------------------- watchdog
class Hang(BaseException):
    pass


_hung = [False, "?"]
_handler_pid = [None]
_samples = []  # stacks (dns frames, outermost first) seen at successive expiries
N_SAMPLES = 3


def _dns_stack(frame):
    st = []
    f = frame
    while f is not None:
        if f.f_code.co_filename.startswith(DNSDIR):
            st.append(f)
        f = f.f_back
    st.reverse()
    return st


def _on_alarm(signum, frame):
    """The first expiries only sample the stack (the timer re-fires every 0.5 s); the last
    one raises.  The reported site is the innermost dns frame that stayed alive across all
    samples, i.e. the function that contains the spinning loop - stable from run to run,
    unlike the frame that happens to execute at the instant of the signal."""
    _hung[0] = True
    st = _dns_stack(frame)
    if signum == signal.SIGALRM:  # wall-clock backstop: no sampling
        if not _samples:
            _samples.append(st)
        _hung[1] = _site()
        del _samples[:]
        raise Hang()
    if not _samples:
        _samples.append(st)
    else:
        common = []
        for a, b in zip(_samples[0], st):
            if a is not b:
                break
            common.append(a)
        _samples[0] = common
        _samples.append(None)
    _hung[1] = _site()
    if len(_samples) < N_SAMPLES:
        return
    del _samples[:]
    raise Hang()


def _site():
    common = _samples[0] if _samples else None
    if not common:
        return "?"
    code = common[-1].f_code
    return "%s.%s" % (code.co_filename[len(DNSDIR):].rsplit(".", 1)[0].replace(os.sep, "."),
                      code.co_qualname.replace("<locals>.", ""))


def _ensure_handler():
    if _handler_pid[0] != os.getpid():
        signal.signal(signal.SIGALRM, _on_alarm)
        signal.signal(signal.SIGPROF, _on_alarm)
        _handler_pid[0] = os.getpid()


def _arm():
    signal.setitimer(signal.ITIMER_PROF, WATCHDOG_S, 0.5)
    signal.setitimer(signal.ITIMER_REAL, WATCHDOG_WALL_S, 1.0)


def _disarm():
    signal.setitimer(signal.ITIMER_PROF, 0)
    signal.setitimer(signal.ITIMER_REAL, 0)


def attempt(fn):
    """Run fn() under the watchdog.  -> ('ok', value) | ('exc', exception) | ('hang', site).
    The flag covers wrappers that convert *any* exception (dns.exception.ExceptionWrapper
    would turn the watchdog's own exception into a FormError); the timer keeps firing
    after the first expiry for the same reason.  A call that returns after the first expiry
    is a hang as well (slower than the watchdog)."""
    _ensure_handler()
    _hung[0] = False
    _hung[1] = "?"
    del _samples[:]
    try:
        _arm()
        try:
            v = fn()
        except Hang:
            return "hang", _hung[1]
        except Exception as e:  # noqa: BLE001 - classification is the whole point
            if _hung[0]:
                return "hang", _hung[1]
            return "exc", e
        finally:
            _disarm()
        if _hung[0]:
            return "hang", _hung[1]
        return "ok", v
    except Hang:
        _disarm()
        return "hang", _hung[1]


# ---------------------------------------------------------------- exception classification
def exc_name(e):
    t = type(e)
    if t.__module__ in ("builtins", "exceptions"):
        return t.__name__
    if t.__module__.startswith("dns."):
        return t.__name__
    return "%s.%s" % (t.__module__, t.__name__)


def exc_site(e):
    """'module.qualname' of the innermost frame inside the dns package (else innermost)."""
    tb = e.__traceback__
    best = None
    last = None
    while tb is not None:
        code = tb.tb_frame.f_code
        last = (code.co_filename, code.co_qualname, tb.tb_lineno)
        if code.co_filename.startswith(DNSDIR):
            best = last
        tb = tb.tb_next
    fn, qn, _ = best or last or ("?", "?", 0)
    if fn.startswith(DNSDIR):
        mod = fn[len(DNSDIR):].rsplit(".", 1)[0].replace(os.sep, ".")
    else:
        mod = os.path.basename(fn).rsplit(".", 1)[0]
    return "%s.%s" % (mod, qn.replace("<locals>.", ""))


def innermost(e):
    tb = e.__traceback__
    last = None
    while tb is not None:
        last = (tb.tb_frame.f_code.co_filename, tb.tb_lineno)
        tb = tb.tb_next
    return last


_raise_lines = {}


def _raise_ranges(path):
    r = _raise_lines.get(path)
    if r is None:
        with open(path, encoding="utf-8") as f:
            tree = ast.parse(f.read())
        r = [(n.lineno, n.end_lineno) for n in ast.walk(tree) if isinstance(n, ast.Raise)]
        _raise_lines[path] = r
    return r


_ZONE_FILES = tuple(DNSDIR + n for n in ("zone.py", "transaction.py", "zonefile.py"))


def deliberate_zone_error(e):
    """DESIGN *Reading*: a ValueError/KeyError is the documented zone-semantic signal only
    if the innermost frame is a `raise` statement in dns/zone.py, transaction.py or
    zonefile.py (so a KeyError leaking from a dict lookup or a ValueError from int() is
    not)."""
    if type(e) not in (ValueError, KeyError):
        return False
    loc = innermost(e)
    if loc is None or loc[0] not in _ZONE_FILES:
        return False
    return any(a <= loc[1] <= b for a, b in _raise_ranges(loc[0]))


def is_lib(e):
    return isinstance(e, dns.exception.DNSException)


_TSIG_ERRS = (dns.tsig.BadTime, dns.tsig.BadSignature, dns.tsig.BadKey, dns.tsig.BadAlgorithm,
              dns.tsig.PeerError)


def ok_msg_wire(e, keyring_given, want_trunc):
    if isinstance(e, dns.exception.FormError):
        return True
    if isinstance(e, dns.message.UnknownTSIGKey):
        return True
    if keyring_given and isinstance(e, _TSIG_ERRS):
        return True
    if want_trunc and isinstance(e, dns.message.Truncated):
        return True
    return False


def ok_formerror(e):
    return isinstance(e, dns.exception.FormError)


def ok_syntax(e):
    return isinstance(e, dns.exception.SyntaxError)


def ok_name_text(e):
    return isinstance(e, dns.exception.SyntaxError) or (is_lib(e) and type(e).__module__ == "dns.name")


_FILELINE = re.compile(r"^[^\n]*:\d+: ")
_ZONE_MODS = ("dns.name", "dns.zone", "dns.zonefile", "dns.transaction")


def zone_exc_problem(e, include_allowed):
    """None if acceptable, else a short failure class."""
    if isinstance(e, dns.exception.SyntaxError):
        if _FILELINE.match(str(e)) or type(e).__module__ == "dns.name":
            return None
        return "no-file-line"
    if is_lib(e) and type(e).__module__ in _ZONE_MODS:
        return None
    if deliberate_zone_error(e):
        return None
    if include_allowed and isinstance(e, OSError):
        return None  # $INCLUDE of an unreadable file: environment, not parsing
    return "leak"


def crash(entry, e, extra=""):
    return "C04/%s/%s%s@%s" % (entry, extra, exc_name(e), exc_site(e))


def show(text):
    """repr of an input, with long digit runs abbreviated."""
    return repr(text).replace(BIGNUM, "<1 x %d>" % len(BIGNUM))


def describe(e):
    return "%s: %s" % (exc_name(e), str(e)[:200])


# ---------------------------------------------------------------- rendering of returned values
def render(entry, probs, what, **calls):
    """calls: stage name -> thunk.  A non-library exception (or a hang) while rendering a
    value the parser returned is a violation."""
    for stage, fn in calls.items():
        st, v = attempt(fn)
        if st == "hang":
            probs.append(("C04/%s.%s/hang@%s" % (entry, stage, v), "%s: rendering did not finish in %g CPU-seconds" % (what, WATCHDOG_S)))
        elif st == "exc" and not is_lib(v):
            probs.append((crash("%s.%s" % (entry, stage), v), "%s: accepted, then %s raises %s" % (what, stage, describe(v))))


# ---------------------------------------------------------------- entry: message wire
OPT_BITS = ["question_only", "one_rr_per_rrset", "ignore_trailing", "raise_on_truncation",
            "continue_on_error", "xfr", "origin"]
B_QONLY, B_ONE, B_TRAIL, B_TRUNC, B_COE, B_XFR, B_ORIGIN = (1 << i for i in range(7))
ALL_MASK = 127

_KEYRINGS = None


def keyring_of(kr):
    global _KEYRINGS
    if _KEYRINGS is None:
        _KEYRINGS = dict(corpus.keyrings(), none=None, false=False)
    return _KEYRINGS[kr]


def do_msg_wire(wire, mask, kr="none", mac=b""):
    keyring = keyring_of(kr)
    coe = bool(mask & B_COE)
    trunc = bool(mask & B_TRUNC)
    st, v = attempt(lambda: dns.message.from_wire(
        wire, keyring=keyring, request_mac=mac, xfr=bool(mask & B_XFR),
        origin=ORIGIN if mask & B_ORIGIN else None,
        question_only=bool(mask & B_QONLY), one_rr_per_rrset=bool(mask & B_ONE),
        ignore_trailing=bool(mask & B_TRAIL), raise_on_truncation=trunc, continue_on_error=coe))
    what = "from_wire(%d octets, options=%s, keyring=%s)" % (
        len(wire), "+".join(n for i, n in enumerate(OPT_BITS) if mask >> i & 1) or "default", kr)
    probs = []
    if st == "hang":
        return "hang", [("C04/msg-wire/hang@%s" % v, what + " did not finish in %g CPU-seconds" % WATCHDOG_S)]
    if st == "exc":
        e = v
        if not ok_msg_wire(e, keyring is not None, trunc):
            probs.append((crash("msg-wire", e), what + " raises " + describe(e)))
        elif coe and not (isinstance(e, dns.message.ShortHeader) or isinstance(e, dns.message.Truncated)):
            probs.append((crash("msg-wire", e, "continue_on_error-raised/"),
                          what + " raises " + describe(e) + " instead of recording it"))
        return exc_name(e), probs
    m = v
    label = "ok"
    if coe:
        errs = getattr(m, "errors", None)
        if errs is None:
            probs.append(("C04/msg-wire/continue_on_error-no-errors-attribute", what))
            errs = []
        if errs:
            label = "ok+recorded"
        for me in errs:
            off = getattr(me, "offset", None)
            if not isinstance(off, int) or not 0 <= off <= len(wire):
                probs.append(("C04/msg-wire/continue_on_error-offset-outside-message",
                              "%s: recorded offset %r, message has %d octets" % (what, off, len(wire))))
            ex = getattr(me, "exception", None)
            if isinstance(ex, Exception) and not ok_msg_wire(ex, keyring is not None, trunc):
                probs.append((crash("msg-wire", ex), what + " records " + describe(ex)))
    render("msg-wire", probs, what, to_text=m.to_text, to_wire=m.to_wire)
    return label, probs


# ---------------------------------------------------------------- entry: name / rdata wire
def do_name_wire(wire, current):
    st, v = attempt(lambda: dns.name.from_wire(wire, current))
    what = "dns.name.from_wire(%s, %d)" % (wire.hex(), current)
    if st == "hang":
        return "hang", [("C04/name-wire/hang@%s" % v, what + " did not finish in %g CPU-seconds" % WATCHDOG_S)]
    if st == "exc":
        if not ok_formerror(v):
            return exc_name(v), [(crash("name-wire", v), what + " raises " + describe(v))]
        return exc_name(v), []
    probs = []
    name = v[0]
    render("name-wire", probs, what, to_text=name.to_text, to_wire=name.to_wire)
    return "ok", probs


RD_PREFIX = b"\x07example\x00"  # so that compression pointers have a target


def do_rdata_wire(cls, typ, data, with_origin):
    wire = RD_PREFIX + data
    origin = ORIGIN if with_origin else None
    st, v = attempt(lambda: dns.rdata.from_wire(cls, typ, wire, len(RD_PREFIX), len(data), origin))
    what = "dns.rdata.from_wire(%s, %s, %s%s)" % (cls, typ, data.hex(), ", origin" if with_origin else "")
    if st == "hang":
        return "hang", [("C04/rdata-wire/hang@%s" % v, what + " did not finish in %g CPU-seconds" % WATCHDOG_S)]
    if st == "exc":
        if not ok_formerror(v):
            return exc_name(v), [(crash("rdata-wire", v), what + " raises " + describe(v))]
        return exc_name(v), []
    probs = []
    rd = v
    render("rdata-wire", probs, what,
           to_text=lambda: rd.to_text(origin=origin, relativize=False),
           to_wire=lambda: rd.to_wire(origin=origin))
    return "ok", probs


# ---------------------------------------------------------------- entry: name / ttl text
_CODECS = None


def codec_of(name):
    global _CODECS
    if _CODECS is None:
        _CODECS = {"default": None, "2003s": dns.name.IDNA_2003_Strict, "2008": dns.name.IDNA_2008_Practical,
                   "2008uts46": dns.name.IDNA_2008_UTS_46}
    return _CODECS[name]


_ORIGINS = {"root": dns.name.root, "none": None, "example": ORIGIN}


def do_name_text(text, origin, codec):
    org = _ORIGINS[origin]
    st, v = attempt(lambda: dns.name.from_text(text, org, codec_of(codec)))
    what = "dns.name.from_text(%r, origin=%s, idna=%s)" % (text, origin, codec)
    if st == "hang":
        return "hang", [("C04/name-text/hang@%s" % v, what + " did not finish in %g CPU-seconds" % WATCHDOG_S)]
    if st == "exc":
        if not ok_name_text(v):
            return exc_name(v), [(crash("name-text", v), what + " raises " + describe(v))]
        return exc_name(v), []
    probs = []
    render("name-text", probs, what, to_text=v.to_text, to_wire=lambda: v.to_wire(origin=ORIGIN))
    return "ok", probs


def do_ttl_text(text):
    st, v = attempt(lambda: dns.ttl.from_text(text))
    what = "dns.ttl.from_text(%s)" % (repr(text) if len(text) < 60 else "%r...(%d chars)" % (text[:20], len(text)),)
    if st == "hang":
        return "hang", [("C04/ttl-text/hang@%s" % v, what + " did not finish in %g CPU-seconds" % WATCHDOG_S)]
    if st == "exc":
        if not ok_syntax(v):
            return exc_name(v), [(crash("ttl-text", v), what + " raises " + describe(v))]
        return exc_name(v), []
    if not isinstance(v, int) or not 0 <= v <= 0xFFFFFFFF:
        shown = "a %d-bit integer" % v.bit_length() if isinstance(v, int) else repr(v)[:80]
        return "ok", [("C04/ttl-text/value-not-renderable", "%s returned %s, not a 32-bit TTL" % (what, shown))]
    return "ok", []


# ---------------------------------------------------------------- entry: rdata text
_RDOPTS = {"abs": (None, True), "org": (ORIGIN, False), "rel": (ORIGIN, True)}


def do_rdata_text(cls, typ, text, opt):
    origin, relativize = _RDOPTS[opt]
    st, v = attempt(lambda: dns.rdata.from_text(cls, typ, text, origin=origin, relativize=relativize))
    what = "dns.rdata.from_text(%s, %s, %s, %s)" % (cls, typ, show(text), opt)
    if st == "hang":
        return "hang", [("C04/rdata-text/hang@%s" % v, what + " did not finish in %g CPU-seconds" % WATCHDOG_S)]
    if st == "exc":
        if not ok_syntax(v):
            return exc_name(v), [(crash("rdata-text", v), what + " raises " + describe(v))]
        return exc_name(v), []
    probs = []
    rd = v
    render("rdata-text", probs, what,
           to_text=lambda: rd.to_text(origin=origin, relativize=relativize),
           to_wire=lambda: rd.to_wire(origin=ORIGIN))
    return "ok", probs


# ---------------------------------------------------------------- entry: zone text
_incdir = [None, None]


def incdir():
    """Directory with the $INCLUDE targets (created once per run, removed at exit)."""
    if _incdir[0] is None or not os.path.isdir(_incdir[0]):
        d = tempfile.mkdtemp(prefix="verif-c04-")
        for fn, text in corpus.INCLUDE_FILES.items():
            with open(os.path.join(d, fn), "w", encoding="utf-8") as f:
                f.write(text)
        _incdir[0] = d
        _incdir[1] = os.getpid()
        atexit.register(_rm_incdir)
    return _incdir[0]


def _rm_incdir():
    if _incdir[0] and _incdir[1] == os.getpid():
        shutil.rmtree(_incdir[0], ignore_errors=True)
        _incdir[0] = None


# option vector of dns.zone.from_text: (relativize, check_origin, allow_include, factory,
# origin given, allow_directives)
ZOPT_DEFAULT = (True, True, True, "zone", True, "all")
ZOPT_DOMAINS = [[True, False], [True, False], [True, False], ["zone", "versioned"], [True, False],
                ["all", "none", "ttl-only"]]
_DIRECTIVES = {"all": True, "none": False, "ttl-only": ["$TTL"]}


def _render_zone(z):
    # a zone that never learned an origin (no origin argument, no usable $ORIGIN, no data)
    # cannot be relativized; render it the way that is defined for it
    z.to_text(relativize=z.origin is not None)
    for name, node in z.items():
        for rds in node:
            rds.to_wire(name, io.BytesIO(), origin=z.origin)
            rds.to_text(name, origin=z.origin)


def do_zone_text(text, origin, zopt):
    rel, chk, inc, fac, give_origin, directives = zopt
    real = text.replace("@INC@", incdir())
    factory = dns.zone.Zone if fac == "zone" else dns.versioned.Zone
    st, v = attempt(lambda: dns.zone.from_text(
        real, origin=origin if give_origin else None, relativize=rel, zone_factory=factory,
        allow_include=inc, check_origin=chk, allow_directives=_DIRECTIVES[directives]))
    what = "dns.zone.from_text(%s, origin=%s, relativize=%s, check_origin=%s, allow_include=%s, %s, directives=%s)" % (
        show(text), origin if give_origin else None, rel, chk, inc, fac, directives)
    if st == "hang":
        return "hang", [("C04/zone-text/hang@%s" % v, what + " did not finish in %g CPU-seconds" % WATCHDOG_S)]
    if st == "exc":
        p = zone_exc_problem(v, inc and directives == "all")
        if p == "no-file-line":
            return exc_name(v), [(crash("zone-text", v, "no-file-line/"),
                                  what + " raises a syntax error without file:line: " + describe(v))]
        if p:
            return exc_name(v), [(crash("zone-text", v), what + " raises " + describe(v))]
        return exc_name(v), []
    probs = []
    render("zone-text", probs, what, render=lambda: _render_zone(v))
    return "ok", probs


def _render_rrsets(rrsets):
    for rrs in rrsets:
        rrs.to_text()
        rrs.to_wire(io.BytesIO(), origin=ORIGIN)


def do_rrsets_text(text, kw):
    st, v = attempt(lambda: dns.zonefile.read_rrsets(text, **kw))
    what = "dns.zonefile.read_rrsets(%s, %s)" % (show(text), ", ".join("%s=%r" % kv for kv in sorted(kw.items())))
    if st == "hang":
        return "hang", [("C04/rrsets-text/hang@%s" % v, what + " did not finish in %g CPU-seconds" % WATCHDOG_S)]
    if st == "exc":
        p = zone_exc_problem(v, False)
        if p == "no-file-line":
            return exc_name(v), [(crash("rrsets-text", v, "no-file-line/"),
                                  what + " raises a syntax error without file:line: " + describe(v))]
        if p:
            return exc_name(v), [(crash("rrsets-text", v), what + " raises " + describe(v))]
        return exc_name(v), []
    probs = []
    render("rrsets-text", probs, what, render=lambda: _render_rrsets(v))
    return "ok", probs


# ---------------------------------------------------------------- entry: message text
# (origin given, one_rr_per_rrset, relativize)
MOPT_DEFAULT = (True, False, True)
MOPTS = [(True, False, True), (False, False, True), (True, True, True), (True, False, False)]


def do_msg_text(text, mopt):
    give_origin, one, rel = mopt
    st, v = attempt(lambda: dns.message.from_text(text, one_rr_per_rrset=one,
                                                  origin=ORIGIN if give_origin else None, relativize=rel))
    what = "dns.message.from_text(%s, origin=%s, one_rr_per_rrset=%s, relativize=%s)" % (
        show(text), "example." if give_origin else None, one, rel)
    if st == "hang":
        return "hang", [("C04/msg-text/hang@%s" % v, what + " did not finish in %g CPU-seconds" % WATCHDOG_S)]
    if st == "exc":
        if not is_lib(v):
            return exc_name(v), [(crash("msg-text", v), what + " raises " + describe(v))]
        return exc_name(v), []
    probs = []
    m = v
    render("msg-text", probs, what, to_text=m.to_text, to_wire=lambda: m.to_wire(origin=ORIGIN))
    return "ok", probs


# ---------------------------------------------------------------- recheck
def run_case(case):
    e = case["e"]
    if e == "mw":
        return do_msg_wire(case["wire"], case["mask"], case.get("kr", "none"), case.get("mac", b""))
    if e == "nw":
        return do_name_wire(case["wire"], case["current"])
    if e == "rw":
        return do_rdata_wire(case["cls"], case["typ"], case["data"], case["origin"])
    if e == "nt":
        return do_name_text(case["text"], case["origin"], case["codec"])
    if e == "tt":
        return do_ttl_text(case["text"])
    if e == "rt":
        return do_rdata_text(case["cls"], case["typ"], case["text"], case["opt"])
    if e == "zt":
        return do_zone_text(case["text"], case["origin"], tuple(case["zopt"]))
    if e == "rr":
        return do_rrsets_text(case["text"], case["kw"])
    if e == "mt":
        return do_msg_text(case["text"], tuple(case["mopt"]))
    raise AssertionError(e)


def recheck(case):
    return run_case(case)[1]


_ENTRY_LABEL = {"mw": "msg-wire", "nw": "name-wire", "rw": "rdata-wire", "nt": "name-text", "tt": "ttl-text",
                "rt": "rdata-text", "zt": "zone-text", "rr": "rrsets-text", "mt": "msg-text"}


HANG_LIMIT = 8
_TRACE = os.environ.get("C04_TRACE")  # development aid: per-case outcome log (one file per worker)


class ShardAbort(Exception):
    pass


def judge(col, case, base, kind):
    """Execute one case and book it."""
    label, probs = run_case(case)
    if _TRACE:
        with open("%s.%d" % (_TRACE, os.getpid()), "a") as f:
            f.write("%s\t%s\n" % (label, sorted(core.jsonable(case).items())))
    entry = _ENTRY_LABEL[case["e"]]
    col.count("evaluations")
    col.count("cases:" + entry)
    col.count("faults:%s:%s" % (entry, kind))
    if label.startswith("ok"):
        col.count("accepted")
    else:
        col.count("rejected")
    col.outcome("%s:%s" % (entry, label))
    col.nontrivial((entry, base, kind, label))
    if len(col.samples) < 3 and (col.counts["evaluations"] % 997) == 1:
        col.sample({"entry": entry, "fault": kind, "outcome": label, "case": case}, limit=3)
    for sig, what in probs:
        col.violation(sig, what, case)
    if label == "hang":
        col.count("hangs")
        if col.counts["hangs"] > HANG_LIMIT:
            raise ShardAbort()
    return label


# ---------------------------------------------------------------- fault generators (pure)
WIRE_ALPHA = (0x00, 0x01, 0x3F, 0x40, 0x7F, 0x80, 0xC0, 0xC1, 0xFF)


def byte_values(b, alpha=WIRE_ALPHA):
    vs = set(alpha)
    vs.add(b ^ 1)
    vs.add((b + 1) & 0xFF)
    vs.discard(b)
    return sorted(vs)


def masks_upto(k):
    """Option vectors differing from the default in <= k options, plus all-on."""
    out = []
    for kk in range(k + 1):
        for bits in itertools.combinations(range(7), kk):
            out.append(sum(1 << b for b in bits))
    if ALL_MASK not in out:
        out.append(ALL_MASK)
    return out


def strings_upto(alpha, n):
    for k in range(n + 1):
        for t in itertools.product(alpha, repeat=k):
            yield t


_TOKEN_RE = re.compile(r'"(?:\\.|[^"\\])*"|(?:\\.|[^\s"])+')

BIGNUM = "1" * 4400  # more digits than CPython's int<->str conversion limit (4300)
# LONGDATA: valid hex (65536 octets) and valid base64 (98304 octets): one octet more than a
# 16-bit length prefix can describe
LONGDATA = "abab" * 32768
TOKEN_REPL = ['""', "\\", "\\#", "-1", "256", "65536", "4294967296", "x", "nan", "1e999", "\\300", "(", ")", ";", BIGNUM,
              LONGDATA]
ZONE_TOKEN_REPL = TOKEN_REPL + ["@", "$TTL", "$ORIGIN", "$INCLUDE", "$GENERATE", "IN", "CH", "ANY", "1-2", "a\\300"]
MSG_TOKEN_REPL = TOKEN_REPL + ["@", "XX", "FLAG16", "FLAG77", "IN", "NONE", "ANY", "UPDATE", "99", "a\\300"]
CHARS_Q = ["\\", '"', " ", "(", ")", ";", "\n", ".", "@", "$", "0", "9", "é", "-"]
CHARS_T = CHARS_Q + ["/", "\t", "{", ",", "=", ":", "。", "#", "a"]

JUNK_LINES = ["out.other. 300 IN A 10.0.0.9", "out.other. 300 IN A 10.0.0.9 ; not ours", '""', '"" 300 IN A 10.0.0.1', '"', "(", ")", "\\", "@", "$", "$TTL", "$TTL 1 2", "$TTL x", "$ORIGIN",
              "$ORIGIN rel", "$ORIGIN example. x", "$INCLUDE", "$INCLUDE /nonexistent/verif-c04", "$GENERATE",
              "$GENERATE 1-2", "$GENERATE 1-2 a$", "$GENERATE 1-2 a$ A", "$GENERATE 2-1 a$ A 10.0.0.$",
              "$GENERATE 1-2/0 a$ A 10.0.0.$", "$GENERATE 1-2 a${0,1,q} A 10.0.0.$", "$GENERATE 1-2 a${ A 10.0.0.$",
              "$GENERATE 1-2 a$ A 10.0.0.${0,2,n}", "$GENERATE 1-2 a$ 1x IN A 10.0.0.$", "$GENERATE 1-2 \"\" A 10.0.0.$",
              "$GENERATE 1-2 a$ TXT \"", "$UNICODE", "$UNICODE 2003 x \"", "$FOO", "$ttl 5", " ", " A", "x CH A 1 2",
              "x TYPE0 \\# 0", "x 4294967296 A 10.0.0.1", "x A", "example. 5 IN SOA . . 1 2 3 4 5", "x CNAME y",
              "@ CNAME y", "$TTL " + BIGNUM, "$GENERATE 1-2 a${" + BIGNUM + "} A 10.0.0.$",
              "$GENERATE 1-2 a${0,99999999999999999999,d} A 10.0.0.$", "$GENERATE 1-2 a$ TXT ${0,99999999999999999999,x}"]
MSG_JUNK_LINES = ['""', '"', "(", "\\", "id", "id 65536", "id x", "flags XX", "flags FLAG16", "edns 256", "edns -1",
                  "eflags XX", "payload 65536", "opcode 16", "opcode XX", "rcode 4096", "rcode XX", "foo 1", ";QUESTION",
                  ";ANSWER", ";ZONE", ";BOGUS", "a. 4294967296 IN A 10.0.0.1", "a. -1 IN A 10.0.0.1", "a. IN OPT",
                  "a. 0 IN TSIG x", "a. 0 ANY TSIG", " A 1.2.3.4", "a. A", "a. 5 NONE ANY", "a. 1 IN TYPE0 \\# 0", "",
                  "id " + BIGNUM, "a. " + BIGNUM + " IN A 10.0.0.1"]


def split_line(line):
    lead = line[: len(line) - len(line.lstrip(" \t"))]
    return lead, _TOKEN_RE.findall(line)


def token_faults(tokens, repl, double=False):
    """yield (kind, new token list)"""
    n = len(tokens)
    for i in range(n):
        yield "tok-drop", tokens[:i] + tokens[i + 1:]
        yield "tok-dup", tokens[:i + 1] + tokens[i:]
        for r in repl:
            if r != tokens[i]:
                yield "tok-repl", tokens[:i] + [r] + tokens[i + 1:]
        if i + 1 < n:
            yield "tok-swap", tokens[:i] + [tokens[i + 1], tokens[i]] + tokens[i + 2:]
    for r in repl:
        yield "tok-append", tokens + [r]
    if double:
        for i in range(n):
            for j in range(i + 1, n):
                for r1 in repl:
                    for r2 in ('""', "\\#", "-1", "4294967296", "x", "(", ")"):
                        yield "tok-repl2", tokens[:i] + [r1] + tokens[i + 1:j] + [r2] + tokens[j + 1:]


def char_faults(text, chars, insert):
    seen = set()
    for i in range(len(text)):
        t = text[:i] + text[i + 1:]
        if t not in seen:
            seen.add(t)
            yield "chr-del", t
        for c in chars:
            if c != text[i]:
                t = text[:i] + c + text[i + 1:]
                if t not in seen:
                    seen.add(t)
                    yield "chr-repl", t
    if insert:
        for i in range(len(text) + 1):
            for c in chars:
                t = text[:i] + c + text[i:]
                if t not in seen:
                    seen.add(t)
                    yield "chr-ins", t


def text_faults(text, repl, junk, chars, insert, double=False, line_repl=True):
    """All single line / token / character faults of a multi-line text."""
    yield "valid", text
    lines = text.split("\n")
    if lines and lines[-1] == "":
        lines.pop()
    n = len(lines)

    def join(ls):
        return "\n".join(ls) + "\n"

    for i in range(n):
        yield "line-drop", join(lines[:i] + lines[i + 1:])
        yield "line-dup", join(lines[:i + 1] + lines[i:])
        if i + 1 < n:
            yield "line-swap", join(lines[:i] + [lines[i + 1], lines[i]] + lines[i + 2:])
        if i:
            yield "line-first", join([lines[i]] + lines[:i] + lines[i + 1:])
        for j in junk:
            if line_repl:
                yield "line-repl", join(lines[:i] + [j] + lines[i + 1:])
            yield "line-ins", join(lines[:i] + [j] + lines[i:])
    for j in junk:
        yield "line-ins", join(lines + [j])
    yield "no-final-newline", text.rstrip("\n")
    for j in junk:
        # the junk line is the last line and the input ends without a newline
        yield "line-ins-no-final-newline", "\n".join(lines + [j])
    for i in range(n):
        lead, toks = split_line(lines[i])
        for kind, nt in token_faults(toks, repl, double):
            yield kind, join(lines[:i] + [lead + " ".join(nt)] + lines[i + 1:])
    for kind, t in char_faults(text, chars, insert):
        yield kind, t


# ---------------------------------------------------------------- shards
HEADER_COUNTS = [(0, 0, 0, 0), (1, 0, 0, 0), (0, 1, 0, 0), (0, 0, 1, 0), (0, 0, 0, 1), (1, 1, 0, 0), (2, 0, 0, 0),
                 (1, 0, 0, 1), (0xFFFF, 0, 0, 0), (0, 0xFFFF, 0, 0), (0, 0, 0, 0xFFFF),
                 (0xFFFF, 0xFFFF, 0xFFFF, 0xFFFF)]
HEADER_FLAGS = [0x0000, 0x2800, 0x8200, 0x2000, 0x7800]  # QUERY, UPDATE, QR+TC, NOTIFY, opcode 15
BODY_ALPHA = (0x00, 0x01, 0x02, 0x0C, 0x29, 0xC0, 0xFA, 0xFF)
# a complete RR header needs 11 octets: enumerate the rdata tail after fixed RR prefixes
RR_PREFIXES = [bytes.fromhex(h) for h in (
    "00" "0029" "04d0" "00000000",   # root OPT payload 1232, then rdlen + options
    "00" "00fa" "00ff" "00000000",   # root TSIG ANY
    "c00c" "0001" "0001" "00000001",  # pointer-to-self owner, A IN
    "00" "0006" "00fe" "00000000",   # SOA class NONE (update delete form)
    "00" "0005" "0001" "80000000",   # CNAME, TTL > 2^31-1
)]
NAME_ALPHA = (0x00, 0x01, 0x02, 0x3F, 0x40, 0x61, 0xC0, 0xFF)
RDATA_ALPHA = (0x00, 0x01, 0x02, 0x04, 0x40, 0x61, 0xC0, 0xFF)
NAME_TEXT_ALPHA = ["a", "0", "2", "5", "9", ".", "\\", "@", '"', " ", "é", "。"]
TTL_ALPHA = ["0", "1", "9", "w", "d", "h", "m", "s", "W", "-", "٣"]

_CORPUS = {}


def messages(quick):
    k = ("m", quick)
    if k not in _CORPUS:
        _CORPUS[k] = corpus.messages(all_types=not quick)
    return _CORPUS[k]


def rdata_types():
    """(class, type) for every implemented rdata type (text corpus plus OPT/TSIG)."""
    ts = [ct for ct in corpus.RDATA_TEXT if ct[1] != "TYPE1"]
    return ts + [("CLASS1232", "OPT"), ("ANY", "TSIG")]


def rdata_wires():
    if "rw" not in _CORPUS:
        ws = corpus.rdata_wires()
        # OPT and TSIG rdata taken from rendered messages of the corpus
        ws.append(("CLASS1232", "OPT", 0, bytes.fromhex("0003000261620008000700011800010203" "000f00020010")))
        ws.append(("ANY", "TSIG", 0, bytes.fromhex("0b686d61632d73686132353600" "00006553f100" "012c" "0004" "01020304"
                                                    "1234" "0000" "0000")))
        _CORPUS["rw"] = ws
    return _CORPUS["rw"]


def shard_header(task, col):
    _, flags, counts, maxlen = task
    hdr = bytes([0x12, 0x34]) + flags.to_bytes(2, "big") + b"".join(c.to_bytes(2, "big") for c in counts)
    masks = [0, B_COE] if task[3] <= 3 else [0, B_COE, B_TRAIL | B_ONE | B_ORIGIN]
    for body in strings_upto(BODY_ALPHA, maxlen):
        wire = hdr + bytes(body)
        for mask in masks:
            judge(col, {"e": "mw", "wire": wire, "mask": mask}, "header", "hdr-x-body")
    if counts in ((0, 1, 0, 0), (0, 0, 0, 1), (0, 0, 1, 0)):
        for pre in RR_PREFIXES:
            for tail in strings_upto(BODY_ALPHA, maxlen - 1):
                for rdlen in sorted({len(tail), 0, len(tail) + 1, 0xFFFF}):
                    wire = hdr + pre + rdlen.to_bytes(2, "big") + bytes(tail)
                    for mask in masks:
                        judge(col, {"e": "mw", "wire": wire, "mask": mask, "kr": "bytes"}, "header", "hdr-x-rr")


QUICK_BYTE_MASKS = [0, B_COE, ALL_MASK, B_ONE | B_TRAIL | B_XFR | B_ORIGIN]


def _mw_variants(meta, primary_masks, secondary_masks):
    """(keyring name, masks) pairs for one corpus message."""
    if meta.get("tsig"):
        return [("keys", primary_masks), ("bytes", secondary_masks), ("none", secondary_masks),
                ("false", secondary_masks)]
    return [("none", primary_masks)]


def shard_msg(task, col):
    """Faults of one corpus message.  task = ('msg', quick, index, kind, part, nparts)"""
    _, quick, idx, kind, part, nparts = task
    name, wire, meta = messages(quick)[idx]
    mac = meta.get("request_mac", b"")
    structural = not name.startswith("type-")
    if quick:
        m_trunc = masks_upto(1)
        m_byte = QUICK_BYTE_MASKS if structural else [0, B_COE]
        m_sec = [0]
        m_dbl = [0, B_COE]
    else:
        m_trunc = list(range(128))
        m_byte = list(range(128)) if structural else masks_upto(2)
        m_sec = masks_upto(1)
        m_dbl = [0, B_COE, ALL_MASK]

    def go(w, masks, secondary, fault):
        for kr, ms in _mw_variants(meta, masks, secondary):
            for mask in ms:
                judge(col, {"e": "mw", "wire": w, "mask": mask, "kr": kr, "mac": mac}, name, fault)

    if kind == "valid":
        go(wire, list(range(128)), list(range(128)), "valid")
        go(wire + b"\x00", list(range(128)), m_sec, "trailing-octet")
    elif kind == "trunc":
        for n in range(part, len(wire), nparts):
            go(wire[:n], m_trunc, m_sec, "truncate")
    elif kind == "byte":
        for i in range(part, len(wire), nparts):
            for v in byte_values(wire[i]):
                go(wire[:i] + bytes([v]) + wire[i + 1:], m_byte, m_sec, "byte")
    elif kind == "double":
        cvals_of = (lambda n: [n + 1]) if quick else \
            (lambda n: sorted({0, 1, 2, max(n - 1, 0), n + 1, 0xFFFF} - {n}))
        bvals_of = (lambda b: sorted({0x00, 0xC0, 0xFF} - {b})) if quick else \
            (lambda b: sorted({0x00, 0x3F, 0xC0, 0xFF, b ^ 1} - {b}))
        for field in range(4):
            off = 4 + 2 * field
            n = int.from_bytes(wire[off:off + 2], "big")
            for cv in cvals_of(n):
                w1 = wire[:off] + cv.to_bytes(2, "big") + wire[off + 2:]
                for i in range(12 + part, len(wire), nparts):
                    for v in bvals_of(wire[i]):
                        go(w1[:i] + bytes([v]) + w1[i + 1:], m_dbl, [0], "count-x-byte")
    else:
        raise AssertionError(kind)


def shard_name_wire(task, col):
    _, first, maxlen = task
    for rest in strings_upto(NAME_ALPHA, maxlen - 1):
        wire = bytes((first,) + rest)
        for cur in range(len(wire) + 1):
            judge(col, {"e": "nw", "wire": wire, "current": cur}, "short", "all-strings")
    if first == NAME_ALPHA[0]:
        judge(col, {"e": "nw", "wire": b"", "current": 0}, "short", "all-strings")
        judge(col, {"e": "nw", "wire": b"", "current": 1}, "short", "all-strings")
        # names around the 255-octet limit reached directly and through pointers
        l63 = b"\x3f" + b"a" * 63
        for last in range(55, 64):
            for tail in (b"\x00", b"\x01a\x00", b"\xc0\x00", b"\xc0\x40", b""):
                body = l63 * 3 + bytes([last]) + b"b" * last + tail
                for cur in (0, 64, len(body) - len(tail)):
                    judge(col, {"e": "nw", "wire": body, "current": cur}, "long", "limit-255")
                w2 = body + b"\x3f" + b"c" * 63 + b"\xc0\x00"
                judge(col, {"e": "nw", "wire": w2, "current": len(body)}, "long", "limit-255")
        # every value of a length octet, followed by that many octets and the root
        for n in range(256):
            w = bytes([n]) + b"a" * n + b"\x00"
            judge(col, {"e": "nw", "wire": w, "current": 0}, "long", "length-octet")
            judge(col, {"e": "nw", "wire": b"\x01b\x00" + w, "current": 3}, "long", "length-octet")
        # pointer chains
        for depth in (1, 2, 64, 127, 200):
            w = b"\x01a\x00" + b"".join((0xC000 | (3 + 2 * (k - 1) if k else 0)).to_bytes(2, "big")
                                        for k in range(depth))
            judge(col, {"e": "nw", "wire": w, "current": len(w) - 2}, "long", "pointer-chain")


def shard_rdata_wire(task, col):
    _, cls, typ, maxlen, origins = task
    for data in strings_upto(RDATA_ALPHA, maxlen):
        for o in origins:
            judge(col, {"e": "rw", "cls": cls, "typ": typ, "data": bytes(data), "origin": o}, typ, "all-strings")


def shard_rdata_wire_faults(task, col):
    _, cls, typ, idx, data, thorough = task
    base = "%s#%d" % (typ, idx)

    def go(d, kind):
        judge(col, {"e": "rw", "cls": cls, "typ": typ, "data": d, "origin": False}, base, kind)

    go(data, "valid")
    judge(col, {"e": "rw", "cls": cls, "typ": typ, "data": data, "origin": True}, base, "valid")
    for n in range(len(data)):
        go(data[:n], "truncate")
    for i in range(len(data)):
        for v in byte_values(data[i]):
            go(data[:i] + bytes([v]) + data[i + 1:], "byte")
        go(data[:i] + data[i + 1:], "delete")
    for i in range(len(data) + 1):
        for v in (WIRE_ALPHA if thorough else (0x00, 0x40, 0xC0, 0xFF)):
            go(data[:i] + bytes([v]) + data[i:], "insert")
    if thorough:
        vals = (0x00, 0x40, 0xC0, 0xFF)
        for i in range(len(data)):
            for j in range(i + 1, min(len(data), i + 9)):
                for a in vals:
                    for b in vals:
                        if a != data[i] and b != data[j]:
                            go(data[:i] + bytes([a]) + data[i + 1:j] + bytes([b]) + data[j + 1:], "byte2")


# characters that str.isdigit() accepts but int() does not (superscript two), that both accept although
# they are not ASCII (Arabic-Indic three, fullwidth one), next to the escape character
NAME_TEXT_ALPHA_DIGITS = ["\\", "\u00b2", "\u0663", "\uff11", "1", "a", "."]


def shard_name_text(task, col):
    _, first, maxlen, combos = task
    if first == "unicode-digits":
        for rest in strings_upto(NAME_TEXT_ALPHA_DIGITS, maxlen + 1):
            text = "".join(rest)
            for origin, codec in combos:
                judge(col, {"e": "nt", "text": text, "origin": origin, "codec": codec}, "short", "unicode-digit-strings")
        return
    for rest in strings_upto(NAME_TEXT_ALPHA, maxlen - 1):
        text = first + "".join(rest)
        for origin, codec in combos:
            judge(col, {"e": "nt", "text": text, "origin": origin, "codec": codec}, "short", "all-strings")
    if first == NAME_TEXT_ALPHA[0]:
        for origin, codec in combos:
            judge(col, {"e": "nt", "text": "", "origin": origin, "codec": codec}, "short", "all-strings")
        # every \DDD value and label/name length limits
        for ddd in range(0, 1000, 1):
            judge(col, {"e": "nt", "text": "a\\%03d" % ddd, "origin": "root", "codec": "default"}, "escape", "ddd")
        for n in (62, 63, 64):
            for suffix in ("", ".", "." + "b" * 63 + "." + "c" * 63 + "." + "d" * 61, "." + "b" * 63 + "." + "c" * 63 + "." + "d" * 62):
                judge(col, {"e": "nt", "text": "a" * n + suffix, "origin": "root", "codec": "default"}, "long", "limits")
                judge(col, {"e": "nt", "text": "é" * (n - 8) + suffix, "origin": "root", "codec": "2008"}, "long", "limits")


def shard_ttl_text(task, col):
    _, first, maxlen = task
    for rest in strings_upto(TTL_ALPHA, maxlen - 1):
        judge(col, {"e": "tt", "text": first + "".join(rest)}, "short", "all-strings")
    if first == TTL_ALPHA[0]:
        for t in ["", "4294967295", "4294967296", "4294967295s", "7101w", "7102w", "9" * 30, "1" * 5000 + "w", "1" * 5000,
                  "0x10", "1e3", " 1", "1 ", "+1", "١٢w"]:
            judge(col, {"e": "tt", "text": t}, "boundary", "listed")


def shard_rdata_text(task, col):
    _, cls, typ, idx, text, opts, chars, insert, double, part, nparts = task
    base = "%s#%d" % (typ, idx)
    n = [0]

    def go(t, opt, kind):
        n[0] += 1
        if n[0] % nparts == part:
            judge(col, {"e": "rt", "cls": cls, "typ": typ, "text": t, "opt": opt}, base, kind)

    for opt in opts:
        go(text, opt, "valid")
    toks = _TOKEN_RE.findall(text)
    hangs = col.counts.get("hangs", 0)
    for kind, nt in token_faults(toks, TOKEN_REPL, False):
        t = " ".join(nt)
        for opt in opts:
            go(t, opt, kind)
    if double and col.counts.get("hangs", 0) > hangs:
        col.cap("double token faults of %s skipped: a single token fault already hangs" % base)
        double = False
    if double:
        for kind, nt in token_faults(toks, TOKEN_REPL, True):
            if kind == "tok-repl2":
                t = " ".join(nt)
                for opt in opts:
                    go(t, opt, kind)
    for kind, t in char_faults(text, chars, insert):
        go(t, "org", kind)
    for t in ["", " ", "(", ")", "( )", '"', "\\", "\\# ", "\\# 1", "\\# x", "\\# 1 0", "\\# 65536 00", "\\# 1 zz",
              "\\# 2 ( 00", "\\# -1", '""', ";", "\n", text + "\n" + text, text + " ;c", "( " + text + " )"]:
        go(t, "org", "listed")


JUNK_Q = ['""', '"" 300 IN A 10.0.0.1', '"', "(", ")", "\\", "$TTL", "$TTL x", "$ORIGIN", "$ORIGIN rel", "$INCLUDE",
          "$INCLUDE /nonexistent/verif-c04", "$GENERATE 1-2", "$GENERATE 1-2 a$ A", "$GENERATE 1-2/0 a$ A 10.0.0.$",
          "$GENERATE 1-2 a${0,1,q} A 10.0.0.$", "$GENERATE 1-2 \"\" A 10.0.0.$", "$UNICODE 2003 x \"", "$FOO", " A",
          "x CH A 1 2", "x 4294967296 A 10.0.0.1", "x CNAME y", "@ CNAME y", "$TTL " + BIGNUM,
          "$GENERATE 1-2 a${" + BIGNUM + "} A 10.0.0.$",
              "$GENERATE 1-2 a${0,99999999999999999999,d} A 10.0.0.$", "$GENERATE 1-2 a$ TXT ${0,99999999999999999999,x}"]
assert set(JUNK_Q) <= set(JUNK_LINES)
ZCHARS_Q = ["\\", '"', " ", "(", ";", "\n", "$", "é"]


def text_profile(quick):
    if quick:
        return {"junk": JUNK_Q, "chars": ZCHARS_Q, "insert": False, "line_repl": False}
    return {"junk": JUNK_LINES, "chars": CHARS_T, "insert": True, "line_repl": True}


def zone_opts(k):
    """Option vectors differing from the default in <= k options."""
    from .. import engines
    return list(engines.k_deviation([[d] + [x for x in dom if x != d] for d, dom in zip(ZOPT_DEFAULT, ZOPT_DOMAINS)], k))


# token faults (quick): the options that change how a record line is processed
ZTOK_OPTS_Q = [ZOPT_DEFAULT, (False, True, True, "versioned", True, "all")]


def zone_opts_for(quick):
    if quick:
        return {"valid": zone_opts(6), "line": zone_opts(1), "no": zone_opts(1), "tok": ZTOK_OPTS_Q, "chr": [ZOPT_DEFAULT]}
    z2 = zone_opts(2)
    return {"valid": zone_opts(6), "line": z2, "no": z2, "tok": z2,
            "chr": ZTOK_OPTS_Q + [(True, True, True, "zone", False, "all"), (True, False, False, "zone", True, "ttl-only")]}


def shard_zone_text(task, col):
    _, zname, quick, part, nparts = task
    origin, text = corpus.ZONES[zname]
    prof = text_profile(quick)
    opts = zone_opts_for(quick)
    n = 0
    for kind, t in text_faults(text, ZONE_TOKEN_REPL, prof["junk"], prof["chars"], prof["insert"],
                               line_repl=prof["line_repl"]):
        n += 1
        if n % nparts != part:
            continue
        for zopt in opts[kind.split("-")[0]]:
            judge(col, {"e": "zt", "text": t, "origin": origin, "zopt": list(zopt)}, zname, kind)
    if part == 0 and zname == sorted(corpus.ZONES)[0]:
        # degenerate files under every option combination
        for t in ["", "\n", "; only a comment\n", "$TTL 5\n", "$ORIGIN rel\n", "$ORIGIN example.\n",
                  "$ORIGIN rel\n@ 5 SOA a b 1 2 3 4 5\n@ 5 NS a\n"]:
            for zopt in opts["valid"]:
                judge(col, {"e": "zt", "text": t, "origin": origin, "zopt": list(zopt)}, "degenerate", "listed")


def shard_rrsets_text(task, col):
    _, rname, quick = task
    text, kw = corpus.RRSETS[rname]
    prof = text_profile(quick)
    kws = [kw]
    if "relativize" not in kw:
        kws.append(dict(kw, relativize=True, origin="example."))
    kws.append(dict(kw, origin=None))
    for kind, t in text_faults(text, ZONE_TOKEN_REPL, prof["junk"], prof["chars"], prof["insert"],
                               line_repl=prof["line_repl"]):
        for k in (kws if not kind.startswith("chr") or not quick else kws[:1]):
            judge(col, {"e": "rr", "text": t, "kw": k}, rname, kind)


def shard_msg_text(task, col):
    _, mname, quick, part, nparts = task
    text = corpus.MESSAGE_TEXTS[mname]
    prof = text_profile(quick)
    if quick:
        opts = {"valid": MOPTS, "line": MOPTS, "no": MOPTS, "tok": MOPTS[:2], "chr": MOPTS[:1]}
    else:
        opts = {"valid": MOPTS, "line": MOPTS, "no": MOPTS, "tok": MOPTS, "chr": MOPTS[:2]}
    n = 0
    for kind, t in text_faults(text, MSG_TOKEN_REPL, MSG_JUNK_LINES, prof["chars"], prof["insert"],
                               line_repl=prof["line_repl"]):
        n += 1
        if n % nparts != part:
            continue
        for mopt in opts[kind.split("-")[0]]:
            judge(col, {"e": "mt", "text": t, "mopt": list(mopt)}, mname, kind)


_SHARDS = {"hdr": shard_header, "msg": shard_msg, "nw": shard_name_wire, "rw": shard_rdata_wire,
           "rwf": shard_rdata_wire_faults, "nt": shard_name_text, "tt": shard_ttl_text, "rt": shard_rdata_text,
           "zt": shard_zone_text, "rr": shard_rrsets_text, "mt": shard_msg_text}


def worker(task, col):
    import time
    t0 = time.process_time()
    try:
        try:
            _SHARDS[task[0]](task, col)
        finally:
            ms = int((time.process_time() - t0) * 1000)
            col.count("cpu_ms:" + task[0], ms)
            col.max("max_shard_cpu_ms", ms)
    except ShardAbort:
        col.cap("shard %r abandoned after %d watchdog expiries (each costs %gs)" % (
            tuple(str(x)[:40] for x in task[:4]), HANG_LIMIT + 1, WATCHDOG_S))


# ---------------------------------------------------------------- run
def run(ctx):
    quick = ctx.quick
    only = set(filter(None, os.environ.get("C04_ONLY", "").split(",")))  # development aid
    ctx.rule = (
        "one case = (entry point, input, option vector).  Inputs: (a) every octet/character string up to the "
        "stated length over the stated alphabet; (b) every single fault (each truncation length, each octet -> "
        "alphabet value or b^1/b+1, octet insert/delete for rdata; each line drop/dup/swap/replace/insert, each "
        "token drop/dup/swap/replace/append, each character delete/replace/insert for text) and count-field x "
        "body-octet double faults of a corpus of valid inputs built with the library.  A case is counted as a "
        "distinct non-trivial case per (entry point, base input, fault kind, outcome class); `evaluations` "
        "counts every executed case.")
    ctx.assume("watchdog: %g CPU-seconds per call (ITIMER_PROF, so machine load cannot fake a hang) plus a %g s "
               "wall-clock backstop for a blocking call; a hang is anything slower (inputs are < 1 KiB)"
               % (WATCHDOG_S, WATCHDOG_WALL_S))
    ctx.assume("$INCLUDE targets live in a scratch directory; an OSError from opening an include file is "
               "environment, not parsing, and is accepted only when $INCLUDE is allowed")
    ctx.assume("$GENERATE ranges in the corpus are <= 16 steps; unbounded shifts such as 'flags FLAG<10^11>' in "
               "message text are not executed (a C-level shift cannot be interrupted by the watchdog); FLAG16 and "
               "FLAG77 stand in for them")
    ctx.assume("dns.message.time is pinned to %d and dns.rdataset.random.shuffle is a no-op, so the corpus and "
               "TSIG validation are deterministic" % corpus.NOW)
    ctx.assume("dns.edns.option_from_wire is reached through OPT records/messages only (DESIGN reading)")

    if only:
        ctx.cap("C04_ONLY=%s: only these sections were run" % ",".join(sorted(only)))
    msgs = messages(quick)
    rdata_wires()
    incdir()
    tasks = []
    bounds = {}

    def want(k):
        return not only or k in only

    # --- message wire: header x body
    hb = ctx.pick(3, 4)
    bounds["header_body_maxlen"] = hb
    bounds["header_vectors"] = len(HEADER_COUNTS) * len(HEADER_FLAGS)
    if want("hdr"):
        for fl in HEADER_FLAGS:
            for counts in HEADER_COUNTS:
                tasks.append(("hdr", fl, counts, hb))
    # --- message wire: corpus faults
    bounds["corpus_messages"] = len(msgs)
    bounds["corpus_octets"] = sum(len(w) for _, w, _ in msgs)
    bounds["option_vectors"] = {
        "valid": 128,
        "truncate": ctx.pick(len(masks_upto(1)), 128),
        "byte_structural": ctx.pick(len(QUICK_BYTE_MASKS), 128),
        "byte_per_type": ctx.pick(2, len(masks_upto(2))),
        "double": ctx.pick(2, 3),
        "tsig_keyrings": ["keys (primary vectors)", "bytes", "none", "false"],
    }
    if want("msg"):
        for idx, (name, wire, meta) in enumerate(msgs):
            tasks.append(("msg", quick, idx, "valid", 0, 1))
            np_ = max(1, len(wire) // ctx.pick(60, 12))
            for part in range(np_):
                tasks.append(("msg", quick, idx, "byte", part, np_))
            np_ = max(1, len(wire) // ctx.pick(200, 40))
            for part in range(np_):
                tasks.append(("msg", quick, idx, "trunc", part, np_))
            if not name.startswith("type-"):
                np_ = max(1, len(wire) // ctx.pick(100, 12))
                for part in range(np_):
                    tasks.append(("msg", quick, idx, "double", part, np_))
    # --- name wire
    nwl = ctx.pick(5, 6)
    bounds["name_wire_maxlen"] = nwl
    if want("nw"):
        for first in NAME_ALPHA:
            tasks.append(("nw", first, nwl))
    # --- rdata wire
    rwl = ctx.pick(3, 5)
    bounds["rdata_wire_maxlen"] = rwl
    bounds["rdata_types"] = len(rdata_types())
    if want("rw"):
        for cls, typ in rdata_types():
            tasks.append(("rw", cls, typ, rwl, [False] if quick else [False, True]))
        for cls, typ, idx, data in rdata_wires():
            tasks.append(("rwf", cls, typ, idx, data, not quick))
    # --- name / ttl text
    ntl = ctx.pick(4, 5)
    bounds["name_text_maxlen"] = ntl
    combos = [("root", "default"), ("none", "default"), ("example", "default"), ("root", "2008"),
              ("root", "2003s"), ("none", "2008uts46")]
    bounds["name_text_option_combos"] = combos
    if want("nt"):
        for first in NAME_TEXT_ALPHA:
            tasks.append(("nt", first, ntl, combos))
        tasks.append(("nt", "unicode-digits", ntl, combos))
    ttl_len = ctx.pick(5, 6)
    bounds["ttl_text_maxlen"] = ttl_len
    if want("tt"):
        for first in TTL_ALPHA:
            tasks.append(("tt", first, ttl_len))
    # --- rdata text
    chars = CHARS_Q if quick else CHARS_T
    bounds["rdata_text_char_alphabet"] = chars
    bounds["char_insertions"] = not quick
    bounds["rdata_text_forms"] = sum(len(f) for f in corpus.RDATA_TEXT.values())
    if want("rt"):
        for (cls, typ), forms in corpus.RDATA_TEXT.items():
            for i, text in enumerate(forms):
                for part in range(3):
                    tasks.append(("rt", cls, typ, i, text, ["org"] if quick else ["org", "abs", "rel"], chars,
                                  not quick, (not quick) and len(_TOKEN_RE.findall(text)) <= 6, part, 3))
    # --- zone text, read_rrsets, message text
    prof = text_profile(quick)
    bounds["zone_text"] = {
        "zones": sorted(corpus.ZONES), "junk_lines": len(prof["junk"]), "line_replacement": prof["line_repl"],
        "char_alphabet": prof["chars"], "char_insertions": prof["insert"],
        "option_vectors": {k: len(v) for k, v in zone_opts_for(quick).items()},
        "token_replacements": [t if t != BIGNUM else "<1 x %d>" % len(BIGNUM) for t in ZONE_TOKEN_REPL]}
    bounds["read_rrsets_inputs"] = sorted(corpus.RRSETS)
    bounds["message_texts"] = sorted(corpus.MESSAGE_TEXTS)
    if want("zt"):
        nparts = ctx.pick(12, 64)
        for zname in corpus.ZONES:
            for part in range(nparts):
                tasks.append(("zt", zname, quick, part, nparts))
    if want("rr"):
        for rname in corpus.RRSETS:
            tasks.append(("rr", rname, quick))
    if want("mt"):
        nparts = ctx.pick(6, 24)
        for mname in corpus.MESSAGE_TEXTS:
            for part in range(nparts):
                tasks.append(("mt", mname, quick, part, nparts))
    bounds["shards"] = len(tasks)
    bounds["wire_fault_alphabet"] = ["%02x" % v for v in WIRE_ALPHA] + ["b^1", "b+1"]
    bounds["alphabets"] = {"header_body": ["%02x" % v for v in BODY_ALPHA], "name_wire": ["%02x" % v for v in NAME_ALPHA],
                           "rdata_wire": ["%02x" % v for v in RDATA_ALPHA], "name_text": NAME_TEXT_ALPHA, "name_text_unicode_digits": NAME_TEXT_ALPHA_DIGITS,
                           "ttl_text": TTL_ALPHA}
    bounds["header_flag_words"] = ["%04x" % f for f in HEADER_FLAGS]
    bounds["header_count_vectors"] = len(HEADER_COUNTS)
    bounds["watchdog_cpu_s"] = WATCHDOG_S
    bounds["token_replacements"] = [t if t != BIGNUM else "<1 x %d>" % len(BIGNUM) for t in TOKEN_REPL]
    ctx.extra["bounds"] = bounds
    # heavy shards first so the pool drains evenly
    order = {"rt": 0, "msg": 1, "zt": 2, "mt": 3}
    tasks.sort(key=lambda t: order.get(t[0], 9))
    ctx.pmap(worker, tasks)
    _rm_incdir()
