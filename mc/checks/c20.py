"""C20: B-tree zone flags, delegation index and bounds are a function of zone content.

Explicit-state BFS over histories of committed transactions on the real
dns.btreezone.Zone (relativized and absolute); canon = content PLUS the derived state
(flags, delegation index), so history-dependent derived state shows up as two states
with one content.  In every state the derived state and bounds() for a closure of query
names are compared with a reference recomputed from content alone.  Initial loads in
every record order are explored too.
"""
from __future__ import annotations

import itertools

import dns.btreezone
import dns.name
import dns.rdata
import dns.rdataset
import dns.rdatatype
import dns.zone

from .. import engines

PROPERTY = "C20"
LEVEL = "model_checking"

ORIGIN = dns.name.from_text("example.")
F = dns.btreezone.NodeFlags
NAMES = ["@", "a", "b.a", "c.b.a", "_d", "x._d"]
RD = {
    "NS": dns.rdata.from_text("IN", "NS", "ns.other."),
    "A": dns.rdata.from_text("IN", "A", "10.0.0.1"),
    "DS": dns.rdata.from_text("IN", "DS", "1 8 2 " + "00" * 32),
    "SOA": dns.rdata.from_text("IN", "SOA", "m. r. 1 2 3 4 5"),
    "CNAME": dns.rdata.from_text("IN", "CNAME", "t.other."),
    # dns.node: a signature covering CNAME is CNAME-kind too (it displaces regular data, NS included);
    # NSEC is neutral (coexists with either kind)
    "RRSIG-CNAME": dns.rdata.from_text("IN", "RRSIG", "CNAME 8 2 10 20300101000000 20200101000000 1 example. AAAA"),
    "NSEC": dns.rdata.from_text("IN", "NSEC", "z.example. A"),
}
CNAME_KIND = {"CNAME", "RRSIG-CNAME"}
NEUTRAL_KIND = {"NSEC"}


def absname(key):
    return ORIGIN if key == "@" else dns.name.from_text(key, ORIGIN)


def spelled(key, form):
    if form == "abs":
        return absname(key)
    return dns.name.empty if key == "@" else dns.name.from_text(key, None)


# ------------------------------------------------------------------ reference
def ckey(name):
    """RFC 4034 s6.1 canonical ordering key, independent of dns.name comparisons: labels right
    to left, octets with only A-Z folded to lower case, a prefix sorts first."""
    return tuple(bytes(c + 32 if 0x41 <= c <= 0x5A else c for c in lab) for lab in reversed(name.labels))


def below(n, d):
    """n is d or beneath d (independent of Name.is_subdomain)."""
    kn, kd = ckey(n), ckey(d)
    return len(kn) >= len(kd) and kn[:len(kd)] == kd


def ref_derived(content):
    """content: {absolute Name: set(type text)} -> (flags dict, delegation set)."""
    okey = ckey(ORIGIN)
    ns_keys = {ckey(n) for n, ts in content.items() if "NS" in ts and ckey(n) != okey}

    def has_proper_ancestor_in(k, keys):
        return any(k[:i] in keys for i in range(len(okey) + 1, len(k)))

    dkeys = {k for k in ns_keys if not has_proper_ancestor_in(k, ns_keys)}
    delegations = {n for n in content if ckey(n) in dkeys}
    flags = {}
    for n in content:
        k = ckey(n)
        f = 0
        if k == okey:
            f |= int(F.ORIGIN)
        if k in dkeys:
            f |= int(F.DELEGATION)
        if has_proper_ancestor_in(k, dkeys):
            f |= int(F.GLUE)
        flags[n] = f
    return flags, delegations


def ref_bounds(content, q, derived=None):
    flags, delegations = derived if derived is not None else ref_derived(content)
    cut = None
    for d in delegations:
        if below(q, d):
            cut = d
    visible = sorted((n for n in content if not (flags[n] & int(F.GLUE))), key=ckey)
    if cut is not None:
        left = cut
    else:
        le = [n for n in visible if ckey(n) <= ckey(q)]
        left = le[-1] if le else None
    gt = [n for n in visible if ckey(n) > ckey(q)]
    right = gt[0] if gt else None
    ce = None
    a = q
    while True:
        if a in visible or any(ckey(v) != ckey(a) and below(v, a) for v in visible):
            ce = a
            break
        if a == ORIGIN or len(a) <= len(ORIGIN):
            break
        a = a.parent()
    return {"left": left, "right": right, "closest_encloser": ce, "is_equal": left == q,
            "is_delegation": cut is not None}


# ------------------------------------------------------------------ real zone handling
def new_zone(relativize):
    z = dns.btreezone.Zone(ORIGIN, relativize=relativize)
    with z.writer(True) as txn:
        txn.add(spelled("@", "rel"), 10, RD["SOA"])
        txn.add(spelled("@", "rel"), 10, RD["NS"])
    return z


def apply_op(txn, op, form):
    verb, key = op[0], op[1]
    name = spelled(key, form)
    if verb == "add":
        txn.add(name, 10, RD[op[2]])
    elif verb == "replace":
        txn.replace(name, 10, RD[op[2]])
    elif verb == "del":
        if op[2] == "RRSIG-CNAME":
            txn.delete(name, dns.rdatatype.RRSIG, dns.rdatatype.CNAME)
        else:
            txn.delete(name, op[2])
    elif verb == "delnode":
        txn.delete(name)
    else:
        raise AssertionError(op)


def model_apply(content, op):
    verb, key = op[0], op[1]
    n = absname(key)
    if verb in ("add", "replace"):
        # CNAME and other (regular) data exclude each other at a node (dns.node): the newer wins
        cur = content.setdefault(n, set())
        if op[2] in CNAME_KIND:
            cur.difference_update({t for t in cur if t not in CNAME_KIND and t not in NEUTRAL_KIND})
        elif op[2] not in NEUTRAL_KIND:
            cur.difference_update(CNAME_KIND)
        cur.add(op[2])
    elif verb == "del":
        if n in content:
            content[n].discard(op[2])
            if not content[n]:
                del content[n]
    elif verb == "delnode":
        content.pop(n, None)


def real_state(z):
    """(content, flags, delegations, iteration order) of the newest committed version,
    all names made absolute."""
    v = z._versions[-1]
    content, flags, order = {}, {}, []
    for name, node in v.nodes.items():
        n = name.derelativize(ORIGIN)
        order.append(n)
        content[n] = {dns.rdatatype.to_text(r.rdtype) + ("-" + dns.rdatatype.to_text(r.covers) if r.covers else "")
                      for r in node.rdatasets}
        flags[n] = int(node.flags)
    dele = {n.derelativize(ORIGIN) for n in v.delegations}
    return content, flags, dele, order


def build(relativize, history):
    z = new_zone(relativize)
    content = {ORIGIN: {"SOA", "NS"}}
    for txnops in history:
        if txnops and tuple(txnops[0][0])[0] == "reload":
            # a replacement transaction (what a zone reload / AXFR does): the new content
            # starts from nothing, and so must the derived state
            recs = [tuple(r) for r in tuple(txnops[0][0])[1]]
            with z.writer(True) as txn:
                txn.add(spelled("@", "rel"), 10, RD["SOA"])
                txn.add(spelled("@", "rel"), 10, RD["NS"])
                for key, t in recs:
                    txn.add(spelled(key, txnops[0][1]), 10, RD[t])
            content = {ORIGIN: {"SOA", "NS"}}
            for key, t in recs:
                content.setdefault(absname(key), set()).add(t)
            continue
        with z.writer() as txn:
            for op, form in txnops:
                apply_op(txn, tuple(op), form)
        for op, form in txnops:
            model_apply(content, tuple(op))
    return z, content


def queries():
    qs = []
    for k in NAMES:
        n = absname(k)
        qs.append(n)
        qs.append(dns.name.from_text("0", n))
        qs.append(dns.name.from_text("zz", n))
    for extra in ("aa", "b", "e", "c.a", "y.c.b.a", "b._d", "0.x._d", "*", "[", "Z", "_"):
        qs.append(dns.name.from_text(extra, ORIGIN))
    seen, out = set(), []
    for q in qs:
        if q not in seen:
            seen.add(q)
            out.append(q)
    return out


QUERIES = queries()


def fl(f):
    return "|".join(x.name for x in F if f & int(x)) or "0"


def name_class(n, content, flags_ref, dele_ref):
    """Coarse, data-free description of a name's situation for signatures."""
    if n == ORIGIN:
        return "apex"
    parts = []
    if n in dele_ref:
        parts.append("cut")
    elif "NS" in content.get(n, ()):  # NS owner beneath a cut
        parts.append("ns-below-cut")
    if flags_ref.get(n, 0) & int(F.GLUE):
        parts.append("below-cut")
    return "+".join(parts) or "plain"


def check_state(z, content_model, relativize, probs):
    content, flags, dele, order = real_state(z)
    if content != content_model:
        probs.append(("content", "real content %s model %s" % (fmt(content), fmt(content_model))))
        return
    fref, dref = ref_derived(content)
    for n in sorted(content):
        if flags[n] != fref[n]:
            probs.append(("flags/%s/has-%s-expected-%s" % (name_class(n, content, fref, dref), fl(flags[n]), fl(fref[n])),
                          "node %s has flags %s, definition gives %s; content %s" % (n, fl(flags[n]), fl(fref[n]), fmt(content))))
    if dele != dref:
        extra, missing = dele - dref, dref - dele
        cls = []
        if extra:
            cls.append("extra-" + name_class(sorted(extra)[0], content, fref, dref))
        if missing:
            cls.append("missing-" + name_class(sorted(missing)[0], content, fref, dref))
        probs.append(("delegation-index/" + "+".join(cls), "index %s, definition gives %s; content %s" % (
            sorted(map(str, dele)), sorted(map(str, dref)), fmt(content))))
    if order != sorted(content, key=ckey):
        probs.append(("iteration-order", "iteration %s is not canonical order" % list(map(str, order))))
    # bounds
    v = z._versions[-1]
    for q in QUERIES:
        exp = ref_bounds(content, q, (fref, dref))
        for form in ("abs", "rel"):
            qq = q if form == "abs" else q.relativize(ORIGIN)
            try:
                b = v.bounds(qq)
            except Exception as e:
                import traceback
                probs.append(("bounds/crash/%s@%s" % (type(e).__name__, traceback.extract_tb(e.__traceback__)[-1].name),
                              "bounds(%s) raised %r; content %s" % (qq, e, fmt(content))))
                continue

            def norm(x):
                return None if x is None else x.derelativize(ORIGIN)

            got = {"left": norm(b.left), "right": norm(b.right), "closest_encloser": norm(b.closest_encloser),
                   "is_equal": b.is_equal, "is_delegation": b.is_delegation}
            for k in ("left", "right", "closest_encloser", "is_equal", "is_delegation"):
                if got[k] != exp[k]:
                    qc = "at-or-below-cut" if exp["is_delegation"] else ("apex" if q == ORIGIN else "plain")
                    detail = ""
                    if k in ("left", "right") and got[k] is not None and (fref.get(got[k], 0) & int(F.GLUE)):
                        detail = "/returns-glue"
                    if k == "closest_encloser" and got[k] == q and not b.is_equal:
                        detail = "/returns-query-name"
                    probs.append(("bounds/%s/query-%s%s/%s" % (k, qc, detail, "relzone" if relativize else "abszone"),
                                  "bounds(%s).%s = %s, definition gives %s; content %s" % (qq, k, got[k], exp[k], fmt(content))))
            if relativize and any(x is not None and x.is_absolute() for x in (b.left, b.right, b.closest_encloser)):
                probs.append(("bounds/relativity", "absolute name returned by a relativized zone for %s" % qq))


def fmt(content):
    return "{" + ", ".join("%s:%s" % (n.relativize(ORIGIN), "+".join(sorted(ts))) for n, ts in sorted(content.items())) + "}"


def canon(z):
    content, flags, dele, order = real_state(z)
    return (tuple(sorted((str(n), tuple(sorted(ts)), flags[n]) for n, ts in content.items())),
            tuple(sorted(map(str, dele))))


def crash_sig(e):
    import traceback
    return "crash/%s@%s" % (type(e).__name__, traceback.extract_tb(e.__traceback__)[-1].name)


def run_case(case):
    probs = []
    rel = case["relativize"]
    try:
        if case["mode"] == "textload":
            # the zone-file route: origin learned from $ORIGIN (origin argument None) or given
            lines = ["$ORIGIN example."]
            content = {}
            for key, t in [("@", "SOA"), ("@", "NS")] + [tuple(x) for x in case["records"]]:
                lines.append("%s 10 IN %s %s" % (key, t, RD[t].to_text()))
                content.setdefault(absname(key), set()).add(t)
            z = dns.zone.from_text("\n".join(lines) + "\n", origin=ORIGIN if case["origin_given"] else None,
                                   relativize=rel, zone_factory=dns.btreezone.Zone)
        elif case["mode"] == "load":
            z = dns.btreezone.Zone(ORIGIN, relativize=rel)
            content = {}
            with z.writer(True) as txn:
                for key, t in [("@", "SOA"), ("@", "NS")] + [tuple(x) for x in case["records"]]:
                    txn.add(spelled(key, case.get("form", "rel")), 10, RD[t])
                    content.setdefault(absname(key), set()).add(t)
        else:
            z, content = build(rel, [[(tuple(o), f) for o, f in t] for t in case["history"]])
        check_state(z, content, rel, probs)
    except Exception as e:
        probs.append((crash_sig(e), repr(e)))
        return probs, None
    return probs, canon(z)


def recheck(case):
    if case.get("mode") == "large":
        return [("C20/" + s, w) for s, w in run_large(case)]
    if case.get("mode") == "deep":
        return [("C20/" + s, w) for s, w in run_deep(case)]
    probs, _ = run_case(case)
    suffix = "/origin-from-$ORIGIN" if case.get("mode") == "textload" and not case.get("origin_given") else ""
    return [("C20/" + s + suffix, w) for s, w in probs]


def single_ops():
    ops = []
    for k in NAMES:
        if k != "@":
            ops.append(("add", k, "NS"))
            ops.append(("del", k, "NS"))
            ops.append(("delnode", k))
        ops.append(("add", k, "A"))
        ops.append(("del", k, "A"))
    ops.append(("add", "a", "CNAME"))
    ops.append(("replace", "_d", "CNAME"))
    ops.append(("add", "b.a", "CNAME"))
    ops.append(("add", "a", "RRSIG-CNAME"))
    ops.append(("del", "a", "RRSIG-CNAME"))
    ops.append(("add", "_d", "RRSIG-CNAME"))
    ops.append(("add", "a", "NSEC"))
    ops.append(("add", "a", "DS"))
    ops.append(("del", "a", "DS"))
    ops.append(("replace", "b.a", "NS"))
    return ops


def expand(state, col):
    rel, history, pairs = state
    ops = single_ops()
    txns = [((op, "rel"),) for op in ops] + [((op, "abs"),) for op in ops[::3]]
    for recs in ((), (("_d", "NS"),), (("b.a", "A"), ("a", "A")), (("c.b.a", "NS"), ("x._d", "A")), (("a", "NS"), ("b.a", "NS"))):
        txns.append(((("reload", recs), "rel"),))
    eval_only = set()   # judged in full, but (quick) not used to extend the frontier: the content they
    #                     reach is reachable by single operations, and derived state is judged here
    # two operations on ONE name in one transaction (the second finds the node already copied and
    # flagged by the first): touch-then-uncut, touch-then-cut, cut-then-uncut, uncut-then-cut
    for k in NAMES:
        if k != "@":
            for a, b in ((("add", k, "A"), ("del", k, "NS")), (("add", k, "A"), ("add", k, "NS")),
                         (("add", k, "NS"), ("del", k, "NS")), (("del", k, "NS"), ("add", k, "NS"))):
                txns.append(((a, "rel"), (b, "rel")))
                eval_only.add(txns[-1])
    if pairs and len(history) <= 1:
        txns += [((a, "rel"), (b, "rel")) for a in ops for b in ops if a[1] != b[1] or a[0] != b[0]]
    for t in txns:
        h2 = history + (t,)
        case = {"mode": "hist", "relativize": rel, "history": [[[list(o), f] for o, f in tt] for tt in h2]}
        probs, cn = run_case(case)
        col.count("evaluations")
        col.outcome(probs[0][0].split("/")[0] + "/" + probs[0][0].split("/")[1] if probs and "/" in probs[0][0] else (probs[0][0] if probs else "ok"))
        for s, w in probs:
            col.violation("C20/" + s, w + " (history %s)" % (h2,), case)
        if cn is not None:
            col.nontrivial((rel, cn))
            if pairs or t not in eval_only:
                yield (rel, cn), (rel, h2, pairs)
    if len(history) == 2:
        col.sample({"relativize": rel, "history": [[[list(o), f] for o, f in tt] for tt in history]}, limit=2)


def version_problems(v, rel, content, queries, tag):
    """Derived state of ONE (possibly older, pinned) version against the reference."""
    probs = []
    fref, dref = ref_derived(content)
    dele = {n.derelativize(ORIGIN) for n in v.delegations}
    if dele != dref:
        probs.append((tag + "/delegation-index", "index has %d entries, definition gives %d (missing e.g. %s, extra e.g. %s)" % (
            len(dele), len(dref), sorted(map(str, dref - dele))[:2], sorted(map(str, dele - dref))[:2])))
    names = [n.derelativize(ORIGIN) for n in v.nodes.keys()]
    if names != sorted(content, key=ckey):
        probs.append((tag + "/names", "names of the version are not the content in canonical order (%d vs %d names)" % (len(names), len(content))))
    for n, node in v.nodes.items():
        a = n.derelativize(ORIGIN)
        if a in fref and int(node.flags) != fref[a]:
            probs.append((tag + "/flags", "node %s has flags %s, definition %s" % (a, fl(int(node.flags)), fl(fref[a]))))
            break
    for q in queries:
        exp = ref_bounds(content, q, (fref, dref))
        try:
            b = v.bounds(q if not rel else q.relativize(ORIGIN))
        except Exception as e:
            probs.append((tag + "/bounds-crash/" + type(e).__name__, "bounds(%s) raised %r" % (q, e)))
            continue
        got = {"left": b.left.derelativize(ORIGIN), "right": None if b.right is None else b.right.derelativize(ORIGIN),
               "is_delegation": b.is_delegation}
        for k in got:
            if got[k] != exp[k]:
                probs.append((tag + "/bounds-" + k, "bounds(%s).%s = %s, definition %s" % (q, k, got[k], exp[k])))
    return probs


def run_large(case):
    """Many delegation points (around the sizes at which nodes of the default-branching-factor
    B-trees fill up): a reader pins version 1, a later transaction adds cuts; both the pinned
    and the new version must have exactly the derived state their own content defines."""
    n, rel, commit = case["n"], case["relativize"], case["commit"]
    z = dns.btreezone.Zone(ORIGIN, relativize=rel)
    content = {ORIGIN: {"SOA", "NS"}}
    with z.writer(True) as txn:
        txn.add(spelled("@", "rel"), 10, RD["SOA"])
        txn.add(spelled("@", "rel"), 10, RD["NS"])
        for i in range(n):
            key = "d%04d" % i
            txn.add(spelled(key, "rel"), 10, RD["NS"])
            content[absname(key)] = {"NS"}
    old = z._versions[-1]
    rd = z.reader()
    txn = z.writer()
    newc = {k: set(v) for k, v in content.items()}
    for key in case["add"]:
        txn.add(spelled(key, "rel"), 10, RD["NS"])
        newc[absname(key)] = {"NS"}
    if commit:
        txn.commit()
    else:
        txn.rollback()
    qs = [absname(k) for k in ("d0000", "d%04d" % (n // 2), "d%04d" % (n - 1), "zz", "x.d%04d" % (n // 2), "d0100x")]
    probs = version_problems(old, rel, content, qs, "large/pinned-version")
    cur = z._versions[-1]
    probs += version_problems(cur, rel, newc if commit else content, qs, "large/newest-version")
    rd.rollback()
    return probs


def run_deep(case):
    """Many names beneath ONE name that becomes (and later stops being) a delegation point after
    they exist, at sizes around which a node of the default-branching-factor B-tree is full: the
    walk that re-flags the subtree must reach every name whatever the tree does underneath."""
    n, rel, how = case["n"], case["relativize"], case["how"]
    z = dns.btreezone.Zone(ORIGIN, relativize=rel)
    content = {ORIGIN: {"SOA", "NS"}}
    probs = []
    qs = [absname(k) for k in ("h0000.sub", "h%04d.sub" % (n // 2), "h%04d.sub" % (n - 1), "sub", "zz", "a0", "x.h0001.sub")]

    def fill(txn):
        for i in range(n):
            key = "h%04d.sub" % i
            txn.add(spelled(key, "rel"), 10, RD["A"])
            content[absname(key)] = {"A"}
        for key in case.get("outside", ()):
            txn.add(spelled(key, "rel"), 10, RD["A"])
            content[absname(key)] = {"A"}

    with z.writer(True) as txn:
        txn.add(spelled("@", "rel"), 10, RD["SOA"])
        txn.add(spelled("@", "rel"), 10, RD["NS"])
        fill(txn)
        if how == "same-txn":
            txn.add(spelled("sub", "rel"), 10, RD["NS"])
            content[absname("sub")] = {"NS"}
    probs += version_problems(z._versions[-1], rel, content, qs, "deep/after-fill")
    if how == "later-txn":
        with z.writer() as txn:
            txn.add(spelled("sub", "rel"), 10, RD["NS"])
        content[absname("sub")] = {"NS"}
        probs += version_problems(z._versions[-1], rel, content, qs, "deep/after-cut-added")
    with z.writer() as txn:
        txn.delete(spelled("sub", "rel"))
    del content[absname("sub")]
    probs += version_problems(z._versions[-1], rel, content, qs, "deep/after-cut-removed")
    return probs


def _deep_task(task, col):
    n, rel = task
    for how in ("same-txn", "later-txn"):
        for outside in ((), ("a0", "zz")):
            case = {"mode": "deep", "n": n, "relativize": rel, "how": how, "outside": list(outside)}
            try:
                probs = run_deep(case)
            except Exception as e:
                probs = [("deep/" + crash_sig(e), repr(e))]
            col.count("evaluations")
            col.count("deep_cases")
            col.outcome("deep:" + (probs[0][0] if probs else "ok"))
            col.nontrivial(("deep", n, rel, how, outside))
            for s, w in probs:
                col.violation("C20/" + s, w + " [%d names beneath sub, relativize=%s, NS at sub %s, outside %s]" % (n, rel, how, list(outside)), case)


def _large_task(task, col):
    n, rel = task
    for add in (["d9999"], ["d0100x"], ["d0100x", "d9999", "a0"]):
        for commit in (True, False):
            case = {"mode": "large", "n": n, "relativize": rel, "commit": commit, "add": add}
            try:
                probs = run_large(case)
            except Exception as e:
                probs = [("large/" + crash_sig(e), repr(e))]
            col.count("evaluations")
            col.count("large_cases")
            col.outcome("large:" + (probs[0][0] if probs else "ok"))
            col.nontrivial(("large", n, rel, tuple(add), commit))
            for s, w in probs:
                col.violation("C20/" + s, w + " [%d delegations, relativize=%s, add %s, %s]" % (n, rel, add, "commit" if commit else "rollback"), case)


def _load_task(task, col):
    rel, recs, form = task
    for perm in itertools.permutations(recs):
        case = {"mode": "load", "relativize": rel, "records": [list(r) for r in perm], "form": form}
        probs, cn = run_case(case)
        col.count("evaluations")
        col.count("load_orders")
        col.outcome("load:" + (probs[0][0].split("/")[0] if probs else "ok"))
        for s, w in probs:
            col.violation("C20/" + s, w + " (load order %s)" % (perm,), case)
        if cn is not None:
            col.nontrivial(("load", rel, cn))
        for given in (False, True):
            case = {"mode": "textload", "relativize": rel, "records": [list(r) for r in perm], "origin_given": given}
            probs, cn = run_case(case)
            col.count("evaluations")
            col.count("text_loads")
            col.outcome("textload:" + (probs[0][0].split("/")[0] if probs else "ok"))
            for s, w in probs:
                col.violation("C20/" + s + ("/origin-from-$ORIGIN" if not given else ""), w + " (zone text, origin argument %s, order %s)" % (
                    "given" if given else "None", perm,), case)


def run(ctx):
    ctx.rule = ("BFS over histories of committed transactions (1 op; thorough: also 2 ops) adding/removing NS, A, DS "
                "rdatasets and nodes at {apex, a, b.a, c.b.a, d, x.d} (names spelled relative and absolute) on the real "
                "btreezone.Zone, relativized and absolute; canon = content + node flags + delegation index; in every "
                "state flags/index/iteration order and bounds() for %d query names (both spellings) are compared with "
                "a reference computed from content alone; plus every load order of every record set of <= k records; "
                "distinct = distinct canon" % len(QUERIES))
    ctx.assume("definition of derived state taken from the property statement and the class docstrings")
    depth = ctx.pick(3, 4)
    ctx.extra["bfs_depth_in_transactions"] = depth
    init = [((rel, "init"), (rel, (), not ctx.quick)) for rel in (True, False)]
    ctx.extra["two_op_transactions_at_depth_le_1"] = not ctx.quick
    engines.bfs(ctx, init, expand, max_depth=depth)
    ctx.caps[:] = []   # the depth bound is the stated bound
    pool = [("a", "NS"), ("b.a", "NS"), ("c.b.a", "A"), ("a", "A"), ("b.a", "A"), ("_d", "NS"), ("x._d", "A"), ("c.b.a", "NS")]
    k = ctx.pick(4, 5)
    ctx.extra["load_pool"] = len(pool)
    ctx.extra["load_max_records"] = k
    tasks = []
    for n in range(1, k + 1):
        for recs in itertools.combinations(pool, n):
            for rel in (True, False):
                tasks.append((rel, recs, "rel" if rel else "abs"))
    ctx.pmap(_load_task, tasks, chunksize=8)
    sizes = ctx.pick([127, 253, 254, 380, 381], [126, 127, 128, 252, 253, 254, 255, 380, 381, 382, 507, 508])
    ctx.extra["large_delegation_counts"] = sizes
    ctx.pmap(_large_task, [(n, rel) for n in sizes for rel in (True, False)])
    deep = ctx.pick([126, 249, 250, 251, 252, 253, 254, 380], list(range(124, 130)) + list(range(247, 258)) + [379, 380, 381, 506, 507])
    ctx.extra["deep_subtree_sizes"] = deep
    ctx.pmap(_deep_task, [(n, rel) for n in deep for rel in (True, False)])
    ctx.counts["traces_validated_against_impl"] = ctx.counts.get("evaluations", 0)
