"""C09: zones survive write-then-read as text; equivalent zone-file spellings agree.

Part a  write -> read round trip of programmatically built zones under the lossless
        output options (real Zone.to_text/to_file/to_styled_text/to_styled_file),
        judged by a strict snapshot equality written here.
Part b  an independent master-file writer (mc/refs/zonetext.py) renders one canonical
        record list under every combination of spelling toggles; every spelling must
        load (dns.zone.from_text on three zone classes, dns.zonefile.read_rrsets) to
        the snapshot predicted from the record list by an independent wire encoder.
Part g  $GENERATE forms against the BIND-ARM reference expansion.
Part c  out-of-zone owners vanish; CNAME never coexists with other data for any order.
"""
from __future__ import annotations

import io
import itertools
import os
import tempfile
import traceback

import dns.btreezone
import dns.exception
import dns.name
import dns.rdata
import dns.rdataclass
import dns.rdatatype
import dns.versioned
import dns.zone
import dns.zonefile

from ..refs import zonetext as zt

PROPERTY = "C09"
LEVEL = "exploration"

O_T = (b"z", b"example")          # zone origin as label tuple
SUB_T = (b"b",) + O_T
O = dns.name.Name(O_T + (b"",))
IMPLS = {"plain": dns.zone.Zone, "versioned": dns.versioned.Zone, "btree": dns.btreezone.Zone}


# =========================================================================== snapshots
def name_key(n):
    return (n.is_absolute(), tuple(l.lower() for l in n.labels))


def rd_key(rd):
    try:
        rd.to_wire()
        rel = False
    except dns.name.NeedAbsoluteNameOrOrigin:
        rel = True
    return (rel, rd.to_digestable(dns.name.root))


def snap_nodes(pairs):
    """pairs: iterable of (name, iterable of rdatasets).  Returns
    {namekey: {(type, covers): (class, ttl, frozenset(rdata keys), n)}} and comments."""
    out = {}
    comments = {}
    for name, rdatasets in pairs:
        nk = name_key(name)
        d = out.setdefault(nk, {})
        for rds in rdatasets:
            key = (int(rds.rdtype), int(rds.covers))
            if key in d:
                key = key + ("duplicate-rdataset",)
            ks = []
            for rd in rds:
                k = rd_key(rd)
                ks.append(k)
                if rd.rdcomment is not None:
                    comments[(nk, key, k)] = rd.rdcomment
            d[key] = (int(rds.rdclass), int(rds.ttl), frozenset(ks), len(ks))
    return out, comments


def snap_zone(z):
    return snap_nodes((name, list(node.rdatasets)) for name, node in z.items())


def snap_rrsets(rrsets):
    return snap_nodes((rr.name, [rr]) for rr in rrsets)


def diff_snap(exp, got):
    """First difference as (kind, human text); None if strictly equal."""
    for nk in sorted(exp, key=repr):
        if nk not in got:
            return ("name-missing", "owner %r is missing" % (nk,))
    for nk in sorted(got, key=repr):
        if nk not in exp:
            return ("name-extra", "unexpected owner %r" % (nk,))
    for nk in sorted(exp, key=repr):
        e, g = exp[nk], got[nk]
        for k in sorted(e, key=repr):
            if k not in g:
                return ("rdataset-missing", "owner %r lacks rdataset %r" % (nk, k))
        for k in sorted(g, key=repr):
            if k not in e:
                return ("rdataset-extra", "owner %r has unexpected rdataset %r" % (nk, k))
        for k in sorted(e, key=repr):
            ec, et, es, en = e[k]
            gc, gt, gs, gn = g[k]
            if ec != gc:
                return ("class", "owner %r %r class %d != %d" % (nk, k, gc, ec))
            if et != gt:
                return ("ttl", "owner %r %r TTL %d, expected %d" % (nk, k, gt, et))
            if es != gs or en != gn:
                return ("rdata", "owner %r %r records differ: only expected %r / only got %r"
                        % (nk, k, sorted(es - gs)[:2], sorted(gs - es)[:2]))
    return None


def crash_class(e):
    tb = traceback.extract_tb(e.__traceback__)
    s = "%s@%s" % (type(e).__name__, tb[-1].name if tb else "?")
    if isinstance(e, dns.exception.SyntaxError):
        # message class: leading words of the message without position or quoted input
        msg = str(e)
        while msg[:1] == "<" or (":" in msg.split(" ")[0]):
            msg = msg.split(":", 1)[1].lstrip() if ":" in msg else ""
        words = []
        for w in msg.split():
            if not w.strip(",.").isalpha():
                break
            words.append(w.strip(",.").lower())
            if len(words) == 5:
                break
        if words:
            s += ":" + "-".join(words)
    return s


def short(text, n=700):
    return text if len(text) <= n else text[:n] + "...[%d chars]" % len(text)


# =========================================================================== part a: data
L63 = "l" + "0123456789" * 6 + "xy"
assert len(L63) == 63
B64_LONG = "AwEAAc" + "abcdEFGH0123+/zZ" * 11 + "Aw=="
B64_SHORT = "AQPSKmynfzW4kyBv015MUG2DeIQ3Cbl+BBZH4b/0PY1kxkmvHjcZc8nokfzj31GajIQKY+5CptLr3buXA10hWqTkF7H6RfoRqXQeogmMHfpftf6zMv1LyBUgia7za6ZEzOJBOztyvhjL742iU/TpPSEDhm2SNKLijfUppn1UaNvv4w=="
HEX64 = "0123456789abcdef" * 4
HEX96 = "00112233445566778899aabbccddeeff" * 3
HEX140 = "a1b2c3d4e5" * 28

# (owner, type, ttl, [rdata text ...], rdata names below the origin?)
POOL = [
    ("@", "A", 300, ["10.0.0.1"], False),
    ("@", "MX", 300, ["10 mail", "20 mx.example.net."], True),
    ("@", "TXT", 0, ['"v=spf1 -all"'], False),
    ("@", "DNSKEY", 300, ["257 3 8 " + B64_LONG, "256 3 8 " + B64_SHORT + " ; zsk"], False),
    ("@", "RRSIG", 300, ["SOA 8 2 300 20300101000000 20200101000000 12345 @ " + B64_SHORT], True),
    ("@", "NSEC", 300, ["www A NS SOA MX TXT RRSIG NSEC DNSKEY TYPE65280"], True),
    ("www", "A", 300, ["10.0.0.2", "10.0.0.3 ; second address"], False),
    ("www", "AAAA", 2147483647, ["2001:db8::1"], False),
    ("www", "RRSIG", 300, ["A 8 3 300 20300101000000 20200101000000 12345 z.example.net. "
                           + B64_SHORT], False),
    ("*", "MX", 4294967295, ["10 mail.elsewhere.example."], False),
    ("*", "TXT", 300, ['"wild" ; card'], False),
    ("a.b", "A", 300, ["10.0.1.1"], False),
    (r"\@", "A", 0, ["10.0.2.1"], False),
    (r"a\.b", "TXT", 300, [r'"semi;colon" "q\"uote" "back\\slash" "(paren)" "" '
                           r'"\000\031\127\128\255" "@ $ORIGIN x." " lead and trail "',
                           '"second record"'], False),
    (r"\$x", "TYPE65280", 300, [r"\# 5 00ff10aa55", r"\# 0"], False),
    (r'q\"uo\\te', "A", 300, ["10.0.3.1"], False),
    (L63, "CNAME", 300, ["www"], True),
    ("alias", "CNAME", 0, [L63 + ".other.example."], False),
    ("_sip._tcp", "SRV", 300, ["0 5 5060 sip", "1 0 5061 ."], True),
    ("sub", "NS", 300, ["ns.sub", "ns.elsewhere.example."], True),
    ("sub", "DS", 300, ["12345 8 2 " + HEX64, "12345 8 4 " + HEX96 + " ; sha384",
                        "12345 8 250 " + HEX140], False),
    ("ns.sub", "A", 300, ["10.0.4.1"], False),
    (r"sp\032ace\;\(x\)", "A", 300, ["10.0.5.1"], False),
    (r"\200\255hi\009", "AAAA", 300, ["::1"], False),
    ("MiXed", "TXT", 300, ['"' + "x" * 255 + '" "second" "third"'], False),
    ("utf8", "TXT", 300, [r'"caf\195\169 \226\130\172" "bad \195 utf8" "ctl\009\010\194\133"',
                          r'"\"\\ \217\163"'], False),
    ("host", "HINFO", 300, [r'"PC \"x\"" "OS;1"'], False),
    ("0p9mhaveqvm6t7vbl5lop2u3t2rp3tom", "NSEC3", 300,
     ["1 1 12 aabbccdd 2t7b4g4vsa5smi47k61mv5bv1a22bojr MX DNSKEY NS SOA NSEC3PARAM RRSIG"], False),
    ("_443._tcp", "TLSA", 300, ["3 1 1 " + HEX64], False),
    ("caa", "CAA", 300, ['0 issue "ca.example; policy=ev"', '128 iodef "mailto:x@z.example"'], False),
    ("xn--caf-dma", "A", 300, ["10.0.6.1"], False),
]
BASES = {
    "int": ([("@", "SOA", 300, ["ns1 hostmaster 2024010101 7200 900 1209600 3600"]),
             ("@", "NS", 300, ["ns1", "ns2.elsewhere.example."])], True),
    "ext": ([("@", "SOA", 300, ["ns.elsewhere.example. hostmaster.elsewhere.example. "
                                "1 7200 900 1209600 3600"]),
             ("@", "NS", 300, ["ns.elsewhere.example.", "ns2.elsewhere.example."])], False),
}

# style option domains; element 0 is the default.  "origin_mode", "unicode", "idna" are
# harness dimensions mapped onto style.origin/relativize, Zone.unicode, style.idna_codec.
STYLE_DOMAINS = [
    ("sorted", [True, False]),
    ("want_origin", [False, True]),
    ("default_ttl", [None, 300, 12345, 0]),
    ("deduplicate_names", [False, True]),
    ("name_just", [0, -4, -24]),
    ("ttl_just", [0, -12]),
    ("rdclass_just", [0, -6]),
    ("rdtype_just", [0, -10]),
    ("base64_chunk_size", [32, 0, 1, 7, 1000]),
    ("base64_chunk_separator", [" ", "\t", "   "]),
    ("hex_chunk_size", [128, 0, 1, 7, 1000]),
    ("hex_chunk_separator", [" ", "\t", "  "]),
    ("want_generic", [False, True]),
    ("want_comments", [False, True]),
    ("omit_rdclass", [False, True]),
    ("nl", [None, "\n", "\r\n"]),
    ("want_unicode_directive", [True, False]),
    ("txt_is_utf8", [False, True]),
    ("origin_mode", ["rel", "none", "abs"]),
    ("unicode", [[], ["TXT"]]),
    ("idna", [None, "2003"]),
]
STYLE_DEFAULT = {k: v[0] for k, v in STYLE_DOMAINS}
LEGACY_OPTS = {"sorted", "nl", "want_comments", "want_origin", "origin_mode"}
VIAS = ["styled_text", "styled_file_text", "styled_file_bin", "styled_path",
        "to_file_style_text", "to_file_style_bin",
        "legacy_text", "legacy_file_text", "legacy_file_bin", "legacy_path"]

_rd_cache = {}


def _rdata(rel, rtype, text):
    k = (rel, rtype, text)
    rd = _rd_cache.get(k)
    if rd is None:
        rd = dns.rdata.from_text("IN", rtype, text, origin=O, relativize=rel, relativize_to=O)
        _rd_cache[k] = rd
    return rd


def build_zone(impl, rel, base, subset):
    z = IMPLS[impl](O, relativize=rel)
    entries = list(BASES[base][0]) + [POOL[i][:4] for i in subset]
    n = 0
    with z.writer(True) as txn:
        for owner, rtype, ttl, texts in entries:
            name = dns.name.from_text(owner, O)
            if rel:
                name = name.relativize(O)
            for t in texts:
                txn.add(name, ttl, _rdata(rel, rtype, t))
                n += 1
    return z, n


def nameref(base, subset):
    return BASES[base][1] or any(POOL[i][4] for i in subset)


def make_style(opts):
    kw = {k: v for k, v in opts.items() if k not in ("origin_mode", "unicode", "idna")}
    om = opts.get("origin_mode", "rel")
    if om == "rel":
        kw["origin"] = O
        kw["relativize"] = True
    elif om == "abs":
        kw["origin"] = O
        kw["relativize"] = False
    if opts.get("idna") == "2003":
        kw["idna_codec"] = dns.name.IDNA_2003_Practical
    return dns.zone.ZoneStyle(**kw)


def do_write(z, opts, via):
    z.unicode = set(opts.get("unicode", []))
    if via.startswith("legacy"):
        kw = {"sorted": opts.get("sorted", True), "nl": opts.get("nl"),
              "want_comments": opts.get("want_comments", False),
              "want_origin": opts.get("want_origin", False),
              "relativize": opts.get("origin_mode", "rel") == "rel"}
        if via == "legacy_text":
            return z.to_text(**kw)
        if via == "legacy_file_text":
            f = io.StringIO()
            z.to_file(f, **kw)
            return f.getvalue()
        if via == "legacy_file_bin":
            f = io.BytesIO()
            z.to_file(f, **kw)
            return f.getvalue().decode("utf-8")
        fd, path = tempfile.mkstemp(prefix="c09-", suffix=".zone")
        os.close(fd)
        try:
            z.to_file(path, **kw)
            with open(path, "rb") as fh:
                return fh.read().decode("utf-8")
        finally:
            os.unlink(path)
    style = make_style(opts)
    if via == "styled_text":
        return z.to_styled_text(style)
    if via == "styled_file_text":
        f = io.StringIO()
        z.to_styled_file(style, f)
        return f.getvalue()
    if via == "styled_file_bin":
        f = io.BytesIO()
        z.to_styled_file(style, f)
        return f.getvalue().decode("utf-8")
    if via == "to_file_style_text":
        f = io.StringIO()
        z.to_file(f, style=style)
        return f.getvalue()
    if via == "to_file_style_bin":
        f = io.BytesIO()
        z.to_file(f, style=style)
        return f.getvalue().decode("utf-8")
    assert via == "styled_path", via
    fd, path = tempfile.mkstemp(prefix="c09-", suffix=".zone")
    os.close(fd)
    try:
        z.to_styled_file(style, path)
        with open(path, "rb") as fh:
            return fh.read().decode("utf-8")
    finally:
        os.unlink(path)


def read_zone(text, impl, rel, universal, origin=O):
    """universal: go through a text-mode file object (universal newlines), as a real
    file would; otherwise hand the string to from_text."""
    if universal:
        f = io.TextIOWrapper(io.BytesIO(text.encode("utf-8")), encoding="utf-8")
        return dns.zone.from_file(f, origin=origin, relativize=rel, zone_factory=IMPLS[impl])
    return dns.zone.from_text(text, origin=origin, relativize=rel, zone_factory=IMPLS[impl])


def nondefault(opts):
    return sorted(k for k, v in opts.items() if v != STYLE_DEFAULT.get(k))


def eval_a(case):
    """One write->read case.  Returns [(klass, what)]."""
    impl, rel, base = case["impl"], case["rel"], case["base"]
    subset, opts, via = case["subset"], case["opts"], case.get("via", "styled_text")
    z, nrec = build_zone(impl, rel, base, subset)
    s0, c0 = snap_zone(z)
    assert sum(v[3] for d in s0.values() for v in d.values()) == nrec
    try:
        text = do_write(z, opts, via)
    except Exception as e:
        return [("a/write-crash/" + crash_class(e), "%s: %s" % (type(e).__name__, e))]
    universal = ("\r" in text) or opts.get("nl") is not None or via.endswith(("_bin", "_path"))
    origins = [O]
    if opts.get("want_origin"):
        origins.append(None)
    probs = []
    for origin in origins:
        if probs:
            break       # the $ORIGIN-only re-read is judged once the plain one agrees
        tag = "" if origin is not None else "origin-from-file/"
        try:
            z2 = read_zone(text, impl, rel, universal, origin)
        except Exception as e:
            probs.append(("a/reread-crash/" + tag + crash_class(e),
                          "%s: %s\noutput was:\n%s" % (type(e).__name__, e, short(text))))
            continue
        s2, c2 = snap_zone(z2)
        d = diff_snap(s0, s2)
        if d is not None:
            probs.append(("a/zone-differs/" + tag + d[0], "%s\noutput was:\n%s" % (d[1], short(text))))
        elif opts.get("want_comments") and c0 != c2:
            probs.append(("a/comments-differ/" + tag[:-1] if tag else "a/comments-differ",
                          "rdata comments %r re-read as %r" % (sorted(c0.values()), sorted(c2.values()))))
        if z2.origin != O:
            probs.append(("a/origin-differs/" + tag[:-1] if tag else "a/origin-differs",
                          "origin %r" % (z2.origin,)))
    return probs


def descr_a(case):
    nd = nondefault(case["opts"])
    s = "opts=" + ("+".join(nd) if nd else "default")
    s += "/zone=" + ("rel" if case["rel"] else "abs")
    if nameref(case["base"], case["subset"]):
        s += "+nameref"
    via = case.get("via", "styled_text")
    if via != "styled_text":
        s += "/via=" + via
    return s


def minimise_a(case, klass):
    """Greedy 1-minimal reduction of subset / options / via / impl keeping `klass`."""
    def still(c):
        try:
            return any(k == klass for k, _ in eval_a(c))
        except Exception:
            return False
    cur = dict(case, opts=dict(case["opts"]), subset=list(case["subset"]))
    changed = True
    while changed:
        changed = False
        for i in list(cur["subset"]):
            c = dict(cur, subset=[x for x in cur["subset"] if x != i])
            if still(c):
                cur = c
                changed = True
        for k in nondefault(cur["opts"]):
            o = dict(cur["opts"])
            o[k] = STYLE_DEFAULT[k]
            c = dict(cur, opts=o)
            if still(c):
                cur = c
                changed = True
        if cur.get("via", "styled_text") != "styled_text":
            c = dict(cur, via="styled_text")
            if still(c):
                cur = c
                changed = True
        if cur["impl"] != "plain":
            c = dict(cur, impl="plain")
            if still(c):
                cur = c
                changed = True
    cur["opts"] = {k: cur["opts"][k] for k in nondefault(cur["opts"])}
    return cur


def _strip(case, trig):
    o = {k: v for k, v in case["opts"].items() if k not in trig}
    return dict(case, opts=o)


def report(col, part, case, probs, minimiser, describer, evaluator):
    """Minimise a failing case and file it.  Minimal trigger option sets already found
    (per failure class, per worker) explain later failures that contain them, provided
    the case passes once the trigger is reset -- otherwise the rest is minimised too."""
    known = col.__dict__.setdefault("_triggers", {})
    seen = set()
    for klass, what in probs:
        if klass in seen:
            continue
        seen.add(klass)
        cur = dict(case, part=part)
        explained = False
        for trig in known.get(klass, []):
            if all(cur["opts"].get(k) == v for k, v in trig.items()) and trig:
                c2 = _strip(cur, trig)
                if any(k2 == klass for k2, _ in evaluator(c2)):
                    cur = c2          # another cause remains
                else:
                    explained = True
                    break
        if explained:
            col.count("failures_explained_by_known_minimal_trigger")
            continue
        m = minimiser(cur, klass) if minimiser else cur
        m = dict(m, part=part)
        m.pop("_items", None)
        for k2, w2 in evaluator(m):
            if k2 == klass:
                col.violation("C09/%s/%s" % (klass, describer(m)), w2, m)
                trig = {k: v for k, v in m["opts"].items()}
                if trig not in known.setdefault(klass, []):
                    known[klass].append(trig)
                break
        else:  # minimisation lost it: report the original
            c = dict(case, part=part)
            col.violation("C09/%s/%s" % (klass, describer(c)), what, c)


def style_points(k, dims=None):
    """All option dicts differing from the default in <= k dimensions."""
    doms = [(n, v) for n, v in STYLE_DOMAINS if dims is None or n in dims]
    yield {}
    for kk in range(1, k + 1):
        for combo in itertools.combinations(doms, kk):
            for vals in itertools.product(*[d[1][1:] for d in combo]):
                yield {d[0]: v for d, v in zip(combo, vals)}


def zone_subsets(k, pool=None):
    idx = list(range(len(POOL))) if pool is None else list(pool)
    for kk in range(0, k + 1):
        for c in itertools.combinations(idx, kk):
            yield list(c)


def work_a(task, col):
    """task: {"zones": [(impl, rel, base, subset)...], "styles": spec}"""
    spec = task["styles"]
    if spec[0] == "kdev":
        points = list(style_points(spec[1], spec[2] if len(spec) > 2 else None))
    elif spec[0] == "product":
        names = spec[1]
        doms = [(n, dict(STYLE_DOMAINS)[n]) for n in names]
        points = [{n: v for (n, _), v in zip(doms, vals) if v != STYLE_DEFAULT[n]}
                  for vals in itertools.product(*[d[1] for d in doms])]
    else:
        points = spec[1]
    vias = task.get("vias", ["styled_text"])
    lo, step = task.get("slice", (0, 1))
    for impl, rel, base, subset in task["zones"]:
        for pi, opts in enumerate(points):
            if pi % step != lo:
                continue
            for via in vias:
                if via.startswith("legacy") and (set(opts) - LEGACY_OPTS or
                                                 opts.get("origin_mode") == "abs"):
                    continue
                case = {"impl": impl, "rel": rel, "base": base, "subset": subset,
                        "opts": opts, "via": via}
                probs = eval_a(case)
                col.count("evaluations")
                col.count("a_roundtrips")
                col.nontrivial(("a", impl, rel, base, tuple(subset), repr(sorted(opts.items())), via))
                if not probs:
                    col.outcome("a:equal")
                else:
                    col.outcome("a:" + probs[0][0])
                    report(col, "a", case, probs, minimise_a, descr_a, eval_a)
        col.sample({"part": "a", "impl": impl, "rel": rel, "base": base, "subset": subset}, limit=2)


# =========================================================================== part b: data
def n_(text):
    """'a.b' relative to the zone origin, 'x.example.' absolute (plain labels only)."""
    return zt.parse_plain_name(text, O_T)


KEY_BYTES = bytes(range(1, 100))
SIG_BYTES = bytes((7 * i + 3) & 0xFF for i in range(64))
T31, T32 = 2 ** 31 - 1, 2 ** 32 - 1


def gen_item(start, stop, step, lhs, rhs, rtype, ttl, org=None):
    """A $GENERATE block and its reference expansion (templates use plain labels); `org` is
    the $ORIGIN in force at the $GENERATE line (default: the zone origin)."""
    exp = []
    org = O_T if org is None else org
    for i in zt.gen_range(start, stop, step):
        owner = zt.parse_plain_name(zt.gen_subst(lhs, i), org)
        r = zt.gen_subst(rhs, i)
        if rtype == "A":
            exp.append(zt.A(owner, ttl, r))
        elif rtype == "CNAME":
            exp.append(zt.CNAME(owner, ttl, zt.parse_plain_name(r, org)))
        elif rtype == "PTR":
            exp.append(zt.PTR(owner, ttl, zt.parse_plain_name(r, org)))
        else:
            raise AssertionError(rtype)

    def absolute(t):
        return t if t.endswith(".") or rtype == "A" and t is rhs else t + ".z.example."
    return {"gen": {"range": (start, stop, step), "lhs": lhs, "rhs": rhs, "type": rtype,
                    "code": zt.TYPES[rtype], "ttl": ttl,
                    "lhs_abs": absolute(lhs), "rhs_abs": absolute(rhs)},
            "expansion": exp}


def blk(r):
    return dict(r, blk=1)


def canonical_items():
    apex = O_T
    odd = (b'e$x"q\\b s.;(@)',) + O_T
    items = [
        zt.SOA(apex, 300, n_("ns1"), n_("hostmaster"), 2024010101, 7200, 900, 1209600, 300),
        zt.NS(apex, 300, n_("ns1")),
        zt.NS(apex, 300, n_("ns2.elsewhere.example.")),
        zt.MX(apex, 7200, 10, n_("mail")),
        zt.MX(apex, 7200, 20, n_("mx.example.net.")),
        zt.TXT(apex, 7200, b"v=spf1 -all"),
        zt.DNSKEY(apex, 7200, 257, 3, 8, KEY_BYTES),
        zt.RRSIG(apex, 300, "SOA", 8, 2, 300, "20300101000000", "20200101000000", 12345, apex,
                 SIG_BYTES),
        zt.NSEC(apex, 300, n_("mail"), ["NS", "SOA", "MX", "TXT", "RRSIG", "NSEC", "DNSKEY",
                                        "TYPE65280"]),
        zt.A(n_("ns1"), 300, "10.0.0.1"),
        zt.AAAA(n_("ns1"), 300, "2001:db8::1"),
        zt.A(n_("mail"), 300, "10.0.0.2"),
        zt.A(n_("mail"), 300, "10.0.0.3"),
        zt.CNAME(n_("www"), 7200, n_("host1")),
        zt.TXT(n_("*"), 0, b"wild;card", b"two words", b"", b'q"\\\x00\x1f\x7f\xff'),
        zt.A((b"@",) + O_T, T31, "10.0.2.1"),
        zt.TXT((b"a.b",) + O_T, T32, b"x" * 255, b"(paren)", b"unquotable?no"),
        zt.A(odd, 300, "10.0.3.1"),
        zt.HINFO(odd, 300, b"PC", b"OS 1"),
        zt.SRV(n_("_sip._tcp"), 300, 0, 5, 5060, n_("sip.b")),
        zt.SRV(n_("_sip._tcp"), 300, 1, 0, 5061, ()),
        blk(zt.MX(n_("b"), 300, 5, n_("a.b"))),
        blk(zt.A(n_("a.b"), 300, "10.0.1.1")),
        blk(zt.TXT(n_("a.b"), 300, b"under b")),
        blk(zt.PTR(n_("c.a.b"), 7200, apex)),
        blk(zt.CNAME(n_("up.b"), 300, n_("mail"))),
        blk(zt.A(n_("sip.b"), 7200, "10.0.1.2")),
        zt.AAAA(n_("sip.b"), 7200, "2001:db8::2"),   # same owner across the $ORIGIN switch
        zt.NS(n_("sub"), 300, n_("ns.sub")),
        zt.DS(n_("sub"), 300, 12345, 8, 2, HEX64),
        zt.A(n_("ns.sub"), 300, "10.0.4.1"),
        zt.UNKNOWN(n_("unk"), 300, bytes.fromhex("00ff10aa55")),
        gen_item(1, 4, 1, "host$", "10.0.9.$", "A", 300),
        gen_item(10, 14, 2, "p${0,3,d}", "host${-9}", "CNAME", 7200),
        zt.TXT(n_("last"), 300, b"end of zone"),
    ]
    return items


def flat(items):
    out = []
    for it in items:
        if "gen" in it:
            out += it["expansion"]
        elif "origin" not in it:
            out.append(it)
    return out


def model_snapshot(records, rel):
    """Expected snapshot from the record list with the independent wire encoder:
    owners outside the origin vanish; relativize strips the origin from names below it."""
    out = {}
    for r in records:
        owner = r["owner"]
        if not zt.is_under(owner, O_T):
            continue
        if rel:
            nk = (False, tuple(l.lower() for l in owner[:len(owner) - len(O_T)]))
        else:
            nk = (True, tuple(l.lower() for l in owner) + (b"",))
        anyrel = False
        wire = b""
        for kind, v in r["wire"]:
            if kind == "w":
                wire += v
            else:
                if rel and zt.is_under(v, O_T):
                    anyrel = True
                    v = v[:len(v) - len(O_T)]
                wire += zt.name_wire(tuple(l.lower() for l in v))
        d = out.setdefault(nk, {})
        key = (r["code"], r["covers"])
        cur = d.get(key)
        rk = (anyrel, wire)
        if cur is None:
            d[key] = (1, r["ttl"], frozenset([rk]), 1)
        else:
            s = cur[2] | {rk}
            d[key] = (1, min(cur[1], r["ttl"]), s, len(s))
    return out


SPELL_CORE = [("own", [0, 1]), ("ttl", [0, 1, 2, 3]), ("cls", [0, 1]), ("order", [0, 1]),
              ("rel", [0, 1]), ("mid", [0, 1, 2]), ("par", [0, 1]), ("com", [0, 1]),
              ("gen", [0, 1])]
SPELL_EXTRA = [("par", [2, 3]), ("units", [1]), ("lc", [1]), ("gm", [1]), ("gr", [1, 2]),
               ("ws", [1]), ("uq", [1]), ("esc", [1]), ("hdr", [1, 2]), ("noeol", [1]),
               ("chunk", [1, 7, 60]), ("crlf", [1]), ("rorder", [1, 2])]
LOADERS = [("plain", True), ("plain", False), ("versioned", True), ("versioned", False),
           ("btree", True), ("btree", False), ("rrsets", True), ("rrsets", False)]
DOLLAR_TTL = 7200
_canon = {}


def small_items():
    apex = O_T
    odd = (b'e$x"q\\b s.;(@)',) + O_T
    return [
        zt.SOA(apex, 300, n_("ns1"), n_("hostmaster"), 2024010101, 7200, 900, 1209600, 300),
        zt.NS(apex, 300, n_("ns1")),
        zt.NS(apex, 300, n_("ns2.elsewhere.example.")),
        zt.MX(apex, 7200, 10, n_("mail")),
        zt.TXT(apex, 7200, b"v=spf1 -all", b'q"\\;(\x00\xff', b""),
        zt.A(n_("mail"), 300, "10.0.0.2"),
        zt.A(n_("mail"), 300, "10.0.0.3"),
        zt.AAAA(n_("mail"), T32, "2001:db8::1"),
        zt.A(odd, 0, "10.0.3.1"),
        blk(zt.MX(n_("b"), 300, 5, n_("a.b"))),
        blk(zt.PTR(n_("c.a.b"), 7200, apex)),
        blk(zt.CNAME(n_("up.b"), 300, n_("mail"))),
        blk(zt.A(n_("a.b"), 300, "10.0.1.1")),
        zt.TXT(n_("a.b"), 300, b"same owner across the $ORIGIN switch"),
        zt.DS(n_("sub"), 300, 12345, 8, 2, HEX64),
        zt.UNKNOWN(n_("unk"), T31, bytes.fromhex("00ff10aa55")),
        gen_item(9, 11, 1, "p${0,3,d}", "host${-8}", "CNAME", 7200),
        zt.TXT(n_("last"), 300, b"end of zone"),
    ]


def canon(which):
    if which not in _canon:
        _canon[which] = canonical_items() if which == "full" else small_items()
    return _canon[which]


def items_for(case):
    items = list(canon(case.get("canon", "full")))
    if "junk" in case:
        junk = junk_items(case["junk"])
        pos = {0: 3, 1: len(items) // 2, 2: len(items)}[case.get("pos", 0)]
        items = items[:pos] + junk + items[pos:]
    return items


def order_items(items, rorder):
    if not rorder:
        return items
    if rorder == 1:                       # SOA last (RFC 1035 TTL inheritance before it)
        return items[1:] + items[:1]
    rest = items[1:]                      # SOA first, the remainder reversed
    return items[:1] + rest[::-1]


def rrsets_applicable(opts):
    return not (opts.get("mid") or opts.get("gen") or opts.get("hdr") or opts.get("ttl") == 3)


def load_snapshot(text, loader, rel, opts):
    """Load `text` through one loader; returns snapshot.  API arguments follow opts."""
    universal = bool(opts.get("crlf"))
    if loader == "rrsets":
        kw = {}
        if opts.get("ttl") == 1:
            kw["default_ttl"] = DOLLAR_TTL
        src = text
        if universal:
            src = io.TextIOWrapper(io.BytesIO(text.encode("utf-8")), encoding="utf-8")
        rr = dns.zonefile.read_rrsets(src, origin=O, relativize=rel, rdclass=None, **kw)
        return snap_rrsets(rr)[0]
    origin = None if opts.get("hdr") == 2 else O
    z = read_zone(text, loader, rel, universal, origin)
    if z.origin != O:
        raise AssertionError("zone origin %r" % (z.origin,))
    return snap_zone(z)[0]


def render_b(case, loader):
    opts = case["opts"]
    items = order_items(items_for(case), opts.get("rorder", 0))
    directives = loader != "rrsets"
    text = zt.render(items, O_T, opts, directives=directives, sub=SUB_T,
                     api_default_ttl=DOLLAR_TTL)
    if opts.get("crlf"):
        text = text.replace("\n", "\r\n")
    return items, text


def eval_b(case):
    """One spelling x one loader.  Returns [(klass, what)]."""
    loader, rel = case["loader"], case["rel"]
    items, text = render_b(case, loader)
    exp = model_snapshot(flat(items), rel)
    part = case.get("part", "b")
    try:
        got = load_snapshot(text, loader, rel, case["opts"])
    except Exception as e:
        return [("%s/load-crash/%s" % (part, crash_class(e)),
                 "%s: %s\nfile was:\n%s" % (type(e).__name__, e, short(text, 1500)))]
    d = diff_snap(exp, got)
    if d is not None:
        return [("%s/zone-differs/%s" % (part, d[0]), "%s\nfile was:\n%s" % (d[1], short(text, 1500)))]
    return []


def descr_b(case):
    nd = sorted("%s=%s" % (k, v) for k, v in case["opts"].items() if v)
    s = "spelling=" + ("+".join(nd) if nd else "canonical")
    s += "/" + ("rrsets" if case["loader"] == "rrsets" else "zone")
    return s


def minimise_b(case, klass):
    def still(c):
        try:
            return any(k == klass for k, _ in eval_b(c))
        except Exception:
            return False
    cur = dict(case, opts={k: v for k, v in case["opts"].items() if v})
    changed = True
    while changed:
        changed = False
        for k in sorted(cur["opts"]):
            o = dict(cur["opts"])
            del o[k]
            c = dict(cur, opts=o)
            if (c["loader"] != "rrsets" or rrsets_applicable(o)) and still(c):
                cur = c
                changed = True
        if cur["loader"] != "plain":
            c = dict(cur, loader="plain")
            if still(c):
                cur = c
                changed = True
        if cur.get("canon", "full") == "full":
            c = dict(cur, canon="small")
            if still(c):
                cur = c
                changed = True
    return cur


def _deviations(dims, k):
    out = [{}]
    for kk in range(1, k + 1):
        for combo in itertools.combinations(dims, kk):
            if len({c[0] for c in combo}) < kk:
                continue
            for vals in itertools.product(*[[v for v in c[1] if v] for c in combo]):
                out.append({c[0]: v for c, v in zip(combo, vals)})
    return out


def spell_points(core_k, extra_k):
    """Core toggles (full product if core_k is None, else <= core_k deviations) x every
    <= extra_k deviation of the extra toggles."""
    extras = _deviations(SPELL_EXTRA, extra_k)
    if core_k is None:
        cores = [{d[0]: v for d, v in zip(SPELL_CORE, vals) if v}
                 for vals in itertools.product(*[d[1] for d in SPELL_CORE])]
    else:
        cores = _deviations(SPELL_CORE, core_k)
    for core in cores:
        if core.get("order") and core.get("cls"):
            continue            # class absent: no TTL/class order to flip
        for ex in extras:
            if "par" in ex and not core.get("par"):
                continue        # the two other parenthesis placements refine par=1
            o = dict(core)
            o.update(ex)
            yield o


def work_b(task, col):
    lo, step = task["slice"]
    for pi, opts in enumerate(spell_points(task["core_k"], task["extra_k"])):
        if pi % step != lo:
            continue
        if task.get("skip_plain_core") and not any(k in opts for k, _ in SPELL_EXTRA):
            continue
        for loader, rel in task["loaders"]:
            if loader == "rrsets" and not rrsets_applicable(opts):
                continue
            case = {"opts": opts, "loader": loader, "rel": rel, "canon": task.get("canon", "full")}
            probs = eval_b(case)
            col.count("evaluations")
            col.count("b_spellings_loaded")
            col.nontrivial(("b", repr(sorted(opts.items())), loader, rel))
            if not probs:
                col.outcome("b:equal")
            else:
                col.outcome("b:" + probs[0][0])
                report(col, "b", case, probs, minimise_b, descr_b, eval_b)
        if pi < 3:
            col.sample({"part": "b", "opts": opts,
                        "file": short(render_b({"opts": opts}, "plain")[1], 400)}, limit=1)


# =========================================================================== part c1: out-of-zone
def _j(r):
    return dict(r, junk=1)


JUNK_KINDS = ["sibling", "parent", "label-prefix", "label-suffix", "other-tld", "root",
              "pair-inherit", "cname-and-a", "soa", "excursion", "generate", "nested-origin"]


def junk_items(kind):
    ex = lambda t: zt.parse_plain_name(t, ())
    if kind == "sibling":
        return [_j(zt.A(ex("y.example."), 60, "192.0.2.1"))]
    if kind == "parent":
        return [_j(zt.NS(ex("example."), 60, n_("ns1"))), _j(zt.MX(ex("example."), 60, 1, n_("mail")))]
    if kind == "label-prefix":
        return [_j(zt.A(ex("zz.example."), 60, "192.0.2.1")), _j(zt.A(ex("www.zz.example."), 60, "192.0.2.2"))]
    if kind == "label-suffix":
        return [_j(zt.A(ex("az.example."), 60, "192.0.2.1"))]
    if kind == "other-tld":
        return [_j(zt.A(ex("mail.z.example.net."), 60, "192.0.2.1")),
                _j(zt.TXT(ex("z.example.z.example.com."), 60, b"not below the origin"))]
    if kind == "root":
        return [_j(zt.TXT((), 60, b"root ( owner"))]
    if kind == "pair-inherit":
        return [_j(zt.A(ex("mail.y.example."), 60, "192.0.2.1")),
                _j(zt.TXT(ex("mail.y.example."), 60, b"( not a paren", b"; not a comment")),
                _j(zt.A(ex("mail.y.example."), 60, "192.0.2.2"))]
    if kind == "cname-and-a":
        return [_j(zt.CNAME(ex("c.y.example."), 60, n_("mail"))), _j(zt.A(ex("c.y.example."), 60, "192.0.2.1"))]
    if kind == "soa":
        return [_j(zt.SOA(ex("y.example."), 60, ex("ns.y.example."), ex("h.y.example."), 1, 2, 3, 4, 5))]
    if kind == "excursion":
        oo = ex("other.example.")
        return [{"origin": oo}, _j(zt.A(ex("mail.other.example."), 60, "192.0.2.1")),
                _j(zt.MX(oo, 60, 1, ex("mail.other.example."))), {"origin": O_T}]
    if kind == "nested-origin":
        oo = ex("z.example.other.example.")
        return [{"origin": oo}, _j(zt.A(oo, 60, "192.0.2.1")),
                _j(zt.A(ex("www.z.example.other.example."), 60, "192.0.2.2")), {"origin": O_T}]
    if kind == "generate":
        g = gen_item(1, 3, 1, "j$.other.example.", "192.0.2.$", "A", 60)
        g["gen"]["junk"] = 1
        g["gen"]["lhs"] = g["gen"]["lhs_abs"]
        g["expansion"] = [_j(r) for r in g["expansion"]]
        return [g]
    raise AssertionError(kind)


C1_DIMS = [("own", [0, 1]), ("ttl", [0, 1, 2]), ("rel", [0, 1]), ("mid", [0, 1]), ("par", [0, 1]),
           ("com", [0, 1]), ("gen", [0, 1])]


C1_EXTRAS = ["par", "ws", "esc", "hdr", "noeol", "chunk", "crlf", "uq"]


def work_c1(task, col):
    lo, step = task["slice"]
    points = []
    dims = [d for d in C1_DIMS if d[0] in task["dims"]]
    for vals in itertools.product(*[d[1] for d in dims]):
        core = {d[0]: v for d, v in zip(dims, vals) if v}
        for ex in _deviations([d for d in SPELL_EXTRA if d[0] in C1_EXTRAS], task["extra_k"]):
            if "par" in ex and not core.get("par"):
                continue
            if task.get("skip_plain") and not ex:
                continue
            o = dict(core)
            o.update(ex)
            points.append(o)
    n = 0
    for kind in JUNK_KINDS:
        for pos in (0, 1, 2):
            for opts in points:
                n += 1
                if n % step != lo:
                    continue
                for loader, rel in task["loaders"]:
                    if loader == "rrsets" and not rrsets_applicable(opts):
                        continue
                    case = {"part": "c1", "opts": opts, "loader": loader, "rel": rel,
                            "canon": "small", "junk": kind, "pos": pos}
                    probs = eval_b(case)
                    col.count("evaluations")
                    col.count("c1_out_of_zone_loads")
                    col.nontrivial(("c1", kind, pos, repr(sorted(opts.items())), loader, rel))
                    if not probs:
                        col.outcome("c1:junk-vanished")
                    else:
                        col.outcome("c1:" + probs[0][0])
                        report(col, "c1", case, probs, minimise_b, descr_c1, eval_b)
    col.sample({"part": "c1", "file": short(render_b({"opts": {"own": 1}, "canon": "small",
                "junk": "pair-inherit", "pos": 1}, "plain")[1], 900)}, limit=1)


def descr_c1(case):
    return "junk=%s/%s" % (case["junk"], descr_b(case))


# =========================================================================== part c2: CNAME
def _c2_menu(owner):
    t1 = n_("mail")
    sig = lambda cov: zt.RRSIG(owner, 300, cov, 8, 3, 300, "20300101000000", "20200101000000",
                               12345, O_T, SIG_BYTES)
    return {
        "CNAME": zt.CNAME(owner, 300, t1),
        "A": zt.A(owner, 300, "10.0.7.1"),
        "TXT": zt.TXT(owner, 300, b"other data"),
        "MX": zt.MX(owner, 300, 1, t1),
        "NSEC": zt.NSEC(owner, 300, n_("zzz"), ["CNAME", "RRSIG", "NSEC"]),
        "KEY": zt.DNSKEY(owner, 300, 256, 3, 8, KEY_BYTES, rtype="KEY"),
        "RRSIG-CNAME": sig("CNAME"),
        "RRSIG-A": sig("A"),
        "RRSIG-NSEC": sig("NSEC"),
    }


C2_TYPES = ["CNAME", "A", "TXT", "MX", "NSEC", "KEY", "RRSIG-CNAME", "RRSIG-A", "RRSIG-NSEC"]
C2_OWNERS = {"node": "n", "apex": "@", "wild": "*", "deep": "x.y"}


def kind_of(code, covers):
    """RFC 1034 3.6.2 / RFC 4035 2.5 (as documented by dns.node): CNAME and its signature
    are 'cname'; NSEC, NSEC3, KEY and their signatures may accompany it; the rest is other
    data."""
    t = covers if code == 46 else code
    if t == 5:
        return "cname"
    if t in (47, 50, 25):
        return "neutral"
    return "other"


def eval_c2(case):
    owner = n_(C2_OWNERS[case["owner"]]) if case["owner"] != "apex" else O_T
    menu = _c2_menu(owner)
    seq = [menu[t] for t in case["seq"]]
    base = [zt.SOA(O_T, 300, n_("ns1"), n_("hostmaster"), 1, 7200, 900, 1209600, 300),
            zt.NS(O_T, 300, n_("ns1")), zt.A(n_("mail"), 300, "10.0.0.2")]
    gap = zt.A(n_("gap"), 300, "10.0.8.1")
    gap2 = zt.TXT(n_("gap"), 300, b"g")
    items = list(base)
    for i, r in enumerate(seq):
        if case.get("gap") and i:
            items.append(gap if i % 2 else gap2)
        items.append(r)
    loader, rel = case["loader"], case["rel"]
    opts = case.get("opts", {})
    text = zt.render(items, O_T, opts, directives=(loader != "rrsets"), sub=SUB_T,
                     api_default_ttl=DOLLAR_TTL)
    kinds = {}
    for r in items:
        kinds.setdefault(r["owner"], set()).add(kind_of(r["code"], r["covers"]))
    compatible = not any("cname" in k and "other" in k for k in kinds.values())
    try:
        got = load_snapshot(text, loader, rel, opts)
    except (dns.zonefile.CNAMEAndOtherData, dns.exception.SyntaxError) as e:
        if compatible:
            return [("c2/compatible-rejected/" + crash_class(e),
                     "%s: %s\nfile was:\n%s" % (type(e).__name__, e, short(text)))], "rejected"
        return [], "incompatible-rejected"
    except Exception as e:
        return [("c2/load-crash/" + crash_class(e),
                 "%s: %s\nfile was:\n%s" % (type(e).__name__, e, short(text)))], "crash"
    probs = []
    for nk, d in got.items():
        ks = {kind_of(k[0], k[1]) for k in d}
        if "cname" in ks and "other" in ks:
            probs.append(("c2/cname-coexists-with-other-data",
                          "after loading, owner %r holds %r\nfile was:\n%s"
                          % (nk, sorted(d), short(text))))
            break
    if compatible:
        dd = diff_snap(model_snapshot(items, rel), got)
        if dd is not None:
            probs.append(("c2/zone-differs/" + dd[0], "%s\nfile was:\n%s" % (dd[1], short(text))))
        return probs, "compatible-loaded"
    return probs, "incompatible-accepted-pruned"


def descr_c2(case):
    return "seq=%s/owner=%s/%s" % (">".join(case["seq"]), case["owner"],
                                   "rrsets" if case["loader"] == "rrsets" else "zone")


def minimise_c2(case, klass):
    def still(c):
        try:
            return any(k == klass for k, _ in eval_c2(c)[0])
        except Exception:
            return False
    cur = dict(case)
    changed = True
    while changed:
        changed = False
        for i in range(len(cur["seq"])):
            c = dict(cur, seq=cur["seq"][:i] + cur["seq"][i + 1:])
            if c["seq"] and still(c):
                cur = c
                changed = True
                break
        for k, v in (("gap", 0), ("opts", {})):
            if cur.get(k) and still(dict(cur, **{k: v})):
                cur = dict(cur, **{k: v})
                changed = True
        if cur["loader"] != "plain" and still(dict(cur, loader="plain")):
            cur = dict(cur, loader="plain")
            changed = True
    return cur


def work_c2(task, col):
    lo, step = task["slice"]
    n = 0
    for size in range(task.get("min_len", 1), task["max_len"] + 1):
        for seq in itertools.permutations(C2_TYPES, size):
            n += 1
            if n % step != lo:
                continue
            for owner in task["owners"]:
                for gap in (0, 1):
                    if gap and size < 2:
                        continue
                    for own in (0, 1):
                        for loader, rel in task["loaders"]:
                            case = {"part": "c2", "seq": list(seq), "owner": owner, "gap": gap,
                                    "opts": {"own": own} if own else {}, "loader": loader, "rel": rel}
                            probs, label = eval_c2(case)
                            col.count("evaluations")
                            col.count("c2_cname_orders")
                            col.nontrivial(("c2", seq, owner, gap, own, loader, rel))
                            col.outcome("c2:" + (probs[0][0] if probs else label))
                            seen = set()
                            for klass, what in probs:
                                if klass in seen:
                                    continue
                                seen.add(klass)
                                m = minimise_c2(case, klass)
                                for k2, w2 in eval_c2(m)[0]:
                                    if k2 == klass:
                                        col.violation("C09/%s/%s" % (klass, descr_c2(m)), w2, m)
                                        break


# =========================================================================== part g: $GENERATE
def g_modifiers(full=True):
    mods = [""]
    mods += ["{%s}" % o for o in ("0", "3", "+3", "-2", "16")]
    mods += ["{%s,%d}" % (o, w) for o in ("0", "-2", "5") for w in (0, 1, 2, 3, 5)]
    widths = (0, 1, 2, 3, 4, 5, 8) if full else (0, 3)
    mods += ["{%s,%d,%s}" % (o, w, b) for o in ("0", "7", "-2") for w in widths
             for b in "doxXnN"]
    return mods


G_RANGES = [(0, 0, 1), (1, 3, 1), (9, 12, 1), (0, 20, 5), (250, 260, 1), (14, 18, 2), (3, 3, 7),
            (26, 27, 1), (4095, 4097, 1)]
G_LHS = ["h$M", "$M", "$M.h", "h$M-$M", "h$Mj", "$M.z.example."]
G_RHS = ["t$M", "$M.t", "t$M.z.example.", "$M.elsewhere.example."]
G_MIXED = [("h$-${0,3,d}", "t$"), ("${0,2,d}x$", "t$"), ("h${0,2,d}-${1,3,x}", "t$"),
           ("h$", "t$.${0,2,d}"), ("h$", "${1}.${2}.t")]


def g_refs(template):
    """The '$' references of a template as (offset, width, base)."""
    out = []
    p = 0
    while p < len(template):
        if template[p] == "$":
            p += 1
            off, w, b = 0, 0, "d"
            if p < len(template) and template[p] == "{":
                q = template.index("}", p)
                parts = template[p + 1:q].split(",")
                off = int(parts[0])
                if len(parts) > 1:
                    w = int(parts[1])
                if len(parts) > 2:
                    b = parts[2]
                p = q + 1
            out.append((off, w, b))
        else:
            p += 1
    return out


def g_valid(rng, lhs, rhs):
    """Only cases whose reference expansion is a well-formed, non-negative, plain name."""
    for i in zt.gen_range(*rng):
        for t in (lhs, rhs):
            if any(i + off < 0 for off, _, _ in g_refs(t)):
                return False
            x = zt.gen_subst(t, i)
            if ".." in x or x.startswith(".") or any(len(l) > 63 for l in x.split(".")):
                return False
    return True


def g_cause(case):
    rng = tuple(case["range"])
    causes = []
    for t in (case["lhs"], case["rhs"]):
        refs = g_refs(t)
        if len(set(refs)) > 1:
            causes.append("distinct-references-on-one-side")
        for off, w, b in refs:
            if b in "nN":
                for i in zt.gen_range(*rng):
                    if w < 2 * len("%x" % (i + off)) - 1:
                        causes.append("nibble-width-below-natural-length")
                        break
    inz = {zt.is_under(zt.parse_plain_name(zt.gen_subst(case["lhs"], i), O_T), O_T)
           for i in zt.gen_range(*rng)}
    if len(inz) > 1:
        causes.append("owners-partly-out-of-zone")
    return "+".join(sorted(set(causes))) or "plain"


def eval_g(case):
    rng = tuple(case["range"])
    lhs, rhs, rtype = case["lhs"], case["rhs"], case.get("type", "CNAME")
    tc = case.get("ttlcls", 0)
    base = [zt.SOA(O_T, 300, n_("ns1"), n_("hostmaster"), 1, 7200, 900, 1209600, 300),
            zt.NS(O_T, 300, n_("ns1"))]
    ttl = 7200 if tc & 1 else 300
    g = gen_item(rng[0], rng[1], rng[2], lhs, rhs, rtype, ttl, SUB_T if case.get("sub") else None)
    head = []
    if tc & 1:
        head.append("7200")
    if tc & 2:
        head.append("IN")
    line = " ".join(["$GENERATE", zt.gen_range_text(*rng, always_step=bool(case.get("step1"))), lhs]
                    + head + [rtype, rhs])
    text = zt.render(base, O_T, {}, True) + ("$ORIGIN b.z.example.\n" if case.get("sub") else "") + line + "\n"
    follow = []
    if case.get("follow") and g["expansion"] and zt.is_under(g["expansion"][-1]["owner"], O_T):
        # a record line with an inherited owner right after the $GENERATE line: as after the written-out
        # expansion, the owner is the last generated name (NSEC: a type that may sit beside a CNAME)
        follow = [zt.NSEC(g["expansion"][-1]["owner"], 300, n_("ns1"), ["A"])]
        text += "  300 IN NSEC ns1.z.example. A\n"
    loader, rel = case["loader"], case["rel"]
    exp = model_snapshot(base + g["expansion"] + follow, rel)
    shown = [(zt.gen_subst(lhs, i), zt.gen_subst(rhs, i)) for i in zt.gen_range(*rng)][:4]
    try:
        got = load_snapshot(text, loader, rel, {})
    except Exception as e:
        # with a known cause of divergence the way it surfaces (wrong names, clash,
        # malformed name) is incidental; otherwise keep the crash class
        klass = "g/load-crash/" + crash_class(e) if g_cause(case) == "plain" else "g/expansion-differs"
        return [(klass, "%s: %s\nline: %s\nreference expansion starts %r"
                 % (type(e).__name__, e, line, shown))]
    d = diff_snap(exp, got)
    if d is not None:
        return [("g/expansion-differs", "%s\nline: %s\nreference expansion starts %r" % (d[1], line, shown))]
    return []


def descr_g(case):
    return g_cause(case)


def g_cases(full):
    mods = g_modifiers(full)
    small = ["", "{3}", "{0,3}", "{0,3,x}", "{-2,2,o}", "{0,5,n}", "{7,4,X}", "{0,8,N}"]
    for rng in G_RANGES:
        for lt in G_LHS:
            for m in mods:
                yield rng, lt.replace("M", m), "t$", "CNAME", 0
        for rt in G_RHS:
            for m in mods:
                yield rng, "h$", rt.replace("M", m), "CNAME", 0
        for m1 in small:
            for m2 in small:
                yield rng, "h$" + m1, "t$" + m2, "CNAME", 0
        for m in ("", "{3}", "{+1}"):
            for tc in (0, 1, 2, 3):
                yield rng, "a$" + m, "10.0.0.$" + m, "A", tc
        for tc in (1, 2, 3):
            yield rng, "h$", "$.t", "PTR", tc
        yield rng, "same", "$.t", "PTR", 0       # no reference on the left
        for l, r in G_MIXED:
            yield rng, l, r, "CNAME", 0


def work_g(task, col):
    lo, step = task["slice"]
    n = 0
    for rng, lhs, rhs, rtype, tc in g_cases(task["full"]):
        n += 1
        if n % step != lo:
            continue
        if not g_valid(rng, lhs, rhs):
            col.count("g_skipped_negative_or_malformed_reference_expansion")
            continue
        if rtype == "A" and rng[1] + 3 > 255:
            continue
        for loader, rel in task["loaders"]:
            variants = [(s1, 0) for s1 in ((0, 1) if rng[2] == 1 and n % 7 == 0 else (0,))]
            if n % 4 == 0:
                variants.append((0, 1))       # $GENERATE under a mid-file $ORIGIN below the zone origin
            variants = [(s1, sb, 0) for s1, sb in variants]
            if n % 5 == 0:
                variants.append((0, 0, 1))    # inherited-owner record right after the $GENERATE line
            if n % 20 == 0:
                variants.append((0, 1, 1))
            for step1, sub, follow in variants:
                case = {"part": "g", "range": list(rng), "lhs": lhs, "rhs": rhs, "type": rtype,
                        "ttlcls": tc, "loader": loader, "rel": rel, "step1": step1, "sub": sub,
                        "follow": follow}
                probs = eval_g(case)
                col.count("evaluations")
                col.count("g_generate_lines")
                col.nontrivial(("g", rng, lhs, rhs, rtype, tc, loader, rel, step1, sub, follow))
                if not probs:
                    col.outcome("g:equal")
                    continue
                col.outcome("g:%s/%s" % (probs[0][0], g_cause(case)))
                for klass, what in probs:
                    col.violation("C09/%s/%s" % (klass, descr_g(case)), what, case)
    col.sample({"part": "g", "line": "$GENERATE 14-18/2 h${-2,3,x} CNAME t$.z.example."}, limit=1)


# =========================================================================== driver
def recheck(case):
    part = case.get("part")
    if part == "a":
        return [("C09/%s/%s" % (k, descr_a(case)), w) for k, w in eval_a(case)]
    if part == "b":
        return [("C09/%s/%s" % (k, descr_b(case)), w) for k, w in eval_b(case)]
    if part == "c1":
        return [("C09/%s/%s" % (k, descr_c1(case)), w) for k, w in eval_b(case)]
    if part == "c2":
        return [("C09/%s/%s" % (k, descr_c2(case)), w) for k, w in eval_c2(case)[0]]
    if part == "g":
        return [("C09/%s/%s" % (k, descr_g(case)), w) for k, w in eval_g(case)]
    if part == "r":
        return [("C09/%s/%s" % (k, descr_r(case)), w) for k, w in eval_r(case)]
    raise AssertionError(part)


WORKERS = {}


def work(task, col):
    if os.environ.get("VERIF_C09_TIMING"):
        import time
        t = time.process_time()
        WORKERS[task["w"]](task, col)
        dt = time.process_time() - t
        col.count("timing_cpu_ms_" + task["w"], int(dt * 1000))
        col.max("max_task_ms_" + task["w"], int(dt * 1000))
        return
    WORKERS[task["w"]](task, col)


THEMES = {
    "names": [0, 6, 7, 9, 10, 11, 12, 13, 15, 16, 22, 23, 24, 30],
    "crypto": [3, 4, 5, 8, 14, 20, 27, 28],
    "text": [2, 6, 13, 24, 25, 26, 29],
    "rdnames": [1, 5, 16, 17, 18, 19, 21],
}
PRODUCT_DIMS = ["sorted", "want_origin", "default_ttl", "deduplicate_names", "name_just",
                "want_comments", "omit_rdclass", "nl", "origin_mode", "want_generic"]
NODE_DIMS = ["deduplicate_names", "sorted", "name_just", "default_ttl"]


def chunks(lst, n):
    return [lst[i:i + n] for i in range(0, len(lst), n)]


def run(ctx):
    WORKERS.update({"a": work_a, "b": work_b, "c1": work_c1, "c2": work_c2, "g": work_g,
                    "r": work_r})
    q = ctx.quick
    tasks = []
    cfg12 = [(i, r, b) for i in IMPLS for r in (True, False) for b in ("int", "ext")]
    allpool = list(range(len(POOL)))

    # ---- part a
    k1 = ctx.pick(1, 2)
    zones = [(i, r, b, s) for s in zone_subsets(k1) for (i, r, b) in cfg12]
    zones += [(i, r, b, allpool) for (i, r, b) in cfg12]
    for ch in chunks(zones, ctx.pick(12, 40)):
        tasks.append({"w": "a", "zones": ch, "styles": ("kdev", 1)})
    k2 = ctx.pick(2, 3)
    zones = [("plain", r, "int", s) for s in zone_subsets(k2) if len(s) == k2 for r in (True, False)]
    for ch in chunks(zones, 40):
        tasks.append({"w": "a", "zones": ch, "styles": ("kdev", 1, NODE_DIMS)})
    themes = [(i, r, b, THEMES[t]) for t in sorted(THEMES) for (i, r, b) in cfg12
              if not q or i == "plain" or t == "names"]
    if not q:
        themes += [(i, r, b, allpool) for (i, r, b) in cfg12]
    nsl = ctx.pick(4, 8)
    for z in themes:
        for lo in range(nsl):
            tasks.append({"w": "a", "zones": [z], "styles": ("kdev", 2), "slice": (lo, nsl)})
    core = [("plain", r, b, THEMES[t]) for t in ("names", "text") for r in (True, False)
            for b in ("int", "ext")]
    for z in core:
        tasks.append({"w": "a", "zones": [z], "styles": ("kdev", 1), "vias": VIAS[1:]})
    if not q:
        for z in core[:4]:
            for lo in range(16):
                tasks.append({"w": "a", "zones": [z], "styles": ("kdev", 3), "slice": (lo, 16)})
                tasks.append({"w": "a", "zones": [z], "styles": ("product", PRODUCT_DIMS),
                              "slice": (lo, 16)})
    ctx.extra["a_pool_rrsets"] = len(POOL)
    ctx.extra["a_zone_subset_size"] = {"single_option_deviations_all_12_configs": k1,
                                       "node_layout_options_plain": k2,
                                       "option_pairs": "4 thematic zones" + ("" if q else " + full pool, all 12 configs"),
                                       "option_triples_and_product": None if q else "4 core zones"}
    ctx.extra["a_style_domains"] = {k: len(v) for k, v in STYLE_DOMAINS}
    ctx.extra["a_vias"] = VIAS

    # ---- part b
    nb = ctx.pick(48, 96)
    l_all = LOADERS
    l3 = [("plain", True), ("plain", False), ("rrsets", False), ("rrsets", True)]
    for lo in range(nb):
        tasks.append({"w": "b", "slice": (lo, nb), "core_k": None, "extra_k": 0, "loaders": l_all,
                      "canon": "small" if q else "full"})
    if q:
        for lo in range(8):
            tasks.append({"w": "b", "slice": (lo, 8), "core_k": 2, "extra_k": 0, "loaders": l_all,
                          "canon": "full"})
        for lo in range(nb):
            tasks.append({"w": "b", "slice": (lo, nb), "core_k": 2, "extra_k": 1, "loaders": l_all,
                          "canon": "small", "skip_plain_core": True})
    else:
        for lo in range(nb * 2):
            tasks.append({"w": "b", "slice": (lo, nb * 2), "core_k": None, "extra_k": 1,
                          "loaders": l_all, "canon": "small", "skip_plain_core": True})
        for lo in range(nb * 4):
            tasks.append({"w": "b", "slice": (lo, nb * 4), "core_k": 2, "extra_k": 2,
                          "loaders": l3, "canon": "small", "skip_plain_core": True})
    ctx.extra["b_core_toggles"] = {k: len(v) for k, v in SPELL_CORE}
    ctx.extra["b_extra_toggles"] = {k: len(v) + 1 for k, v in SPELL_EXTRA}
    ctx.extra["b_bounds"] = ("quick: full core product x 8 loaders (17-record list); <=2 core deviations x "
                             "<=1 extra x 8 loaders; <=2 core deviations on the 45-record list"
                             if q else
                             "thorough: full core product x 8 loaders (45-record list); full core product "
                             "x <=1 extra x 8 loaders; <=2 core deviations x <=2 extras x 4 loaders")
    ctx.extra["b_canonical_records"] = {"full": len(flat(canon("full"))), "small": len(flat(canon("small")))}

    # ---- part g
    ng = ctx.pick(32, 64)
    lg = [("plain", True), ("versioned", False)] if q else \
        [("plain", True), ("plain", False), ("versioned", False), ("btree", True)]
    for lo in range(ng):
        tasks.append({"w": "g", "slice": (lo, ng), "full": True, "loaders": lg})
    ctx.extra["g_modifiers"] = len(g_modifiers(True))
    ctx.extra["g_ranges"] = G_RANGES

    # ---- part c
    nc = ctx.pick(32, 96)
    lc4 = [("plain", True), ("plain", False), ("btree", True), ("rrsets", False)]
    c1dims = ("quick: own,ttl,rel,mid,par product, 4 loaders" if q else
              "thorough: 7-toggle product x 8 loaders; 5-toggle product x <=1 of %s x 4 loaders" % C1_EXTRAS)
    lc = [("plain", True), ("plain", False), ("btree", True), ("rrsets", False)] if q else l_all
    c1q = ["own", "ttl", "rel", "mid", "par"]
    for lo in range(nc):
        if q:
            tasks.append({"w": "c1", "slice": (lo, nc), "extra_k": 0, "loaders": lc, "dims": c1q})
        else:
            tasks.append({"w": "c1", "slice": (lo, nc), "extra_k": 0, "loaders": l_all,
                          "dims": [d[0] for d in C1_DIMS]})
            tasks.append({"w": "c1", "slice": (lo, nc), "extra_k": 1, "loaders": lc4, "dims": c1q,
                          "skip_plain": True})
        if q:
            tasks.append({"w": "c2", "slice": (lo, nc), "max_len": 3, "owners": ["node", "apex"],
                          "loaders": lc})
        else:
            tasks.append({"w": "c2", "slice": (lo, nc), "max_len": 3, "owners": list(C2_OWNERS),
                          "loaders": l_all})
            tasks.append({"w": "c2", "slice": (lo, nc), "min_len": 4, "max_len": 4,
                          "owners": ["node", "apex", "wild"], "loaders": lc4})
    tasks.append({"w": "r"})
    ctx.extra["c1_junk_kinds"] = JUNK_KINDS
    ctx.extra["c1_spelling_dims"] = c1dims
    ctx.extra["c2_types"] = C2_TYPES
    ctx.extra["c2_bounds"] = ("orders of <= 3 of 9 record kinds, owners node/apex, 4 loaders" if q else
                              "orders of <= 3 of 9 record kinds x 4 owners x 8 loaders; orders of 4 x 3 owners "
                              "x 4 loaders")

    ctx.rule = ("a: a case = (zone class, relativize, base SOA/NS variant, subset of the RRset pool, "
                "style option point, output API); b/c1: (spelling option point, loader, relativize[, junk "
                "kind, position]); g: ($GENERATE range, lhs, rhs, type, ttl/class presence, loader); c2: "
                "(record order at one owner, owner position, interleaving, loader).  Every case is a distinct "
                "input; a case is non-trivial when the real writer/reader ran on it (all are).")
    ctx.assume("zone origin z.example., class IN; owner/rdata menus as listed in the module")
    ctx.assume("omitted TTLs are only spelled where RFC 1035 (last TTL), RFC 2308 ($TTL) and the "
               "SOA-minimum reading agree")
    ctx.assume("$GENERATE reference = BIND 9 ARM (independent substitution of every $ reference, width is a "
               "minimum field width, nibble width counts separators); negative indices, quoted rhs and "
               "class-before-TTL on $GENERATE lines are not enumerated")
    ctx.assume("name comparison is case-insensitive; rdata compared by canonical wire form plus relativity")
    only = os.environ.get("VERIF_C09_PARTS")      # development aid: restrict to some parts
    if only:
        tasks = [t for t in tasks if t["w"] in only.split(",")]
        ctx.cap("VERIF_C09_PARTS=%s: only these parts were run" % only)
    ctx.pmap(work, tasks)


# =========================================================================== part r: read_rrsets forced fields
def eval_r(case):
    """read_rrsets with any subset of owner/TTL/class/type forced through the API: the
    input then omits exactly those fields; result must equal the fully spelled RRset."""
    forced = set(case["forced"])
    rel = case["rel"]
    owner = n_("mail")
    recs = [zt.A(owner, 300, "10.0.0.2"), zt.A(owner, 300, "10.0.0.3")]
    if case.get("mx"):
        recs = [zt.MX(owner, 300, 10, n_("mx1")), zt.MX(owner, 300, 20, n_("mx.example.net."))]
    lines = []
    for i, r in enumerate(recs):
        toks = []
        if "name" not in forced:
            toks.append("    " if (case.get("own") and i) else zt.name_text(r["owner"], O_T, bool(case.get("relname"))))
        if "ttl" not in forced and not (case.get("dttl")):
            toks.append("300")
        if "rdclass" not in forced and case.get("cls"):
            toks.append("IN")
        if "rdtype" not in forced:
            toks.append(r["type"])
        w = zt.Writer(O_T, {"rel": 1 if case.get("relname") else 0})
        toks += w.fields(r)
        lines.append(" ".join(toks))
    text = "\n".join(lines) + "\n"
    kw = {"origin": O, "relativize": rel}
    kw["name"] = dns.name.Name(owner + (b"",)) if "name" in forced else None
    if case.get("name_as_text") and "name" in forced:
        kw["name"] = "mail"
    kw["ttl"] = 300 if "ttl" in forced else None
    kw["rdclass"] = "IN" if "rdclass" in forced else None
    kw["rdtype"] = recs[0]["type"] if "rdtype" in forced else None
    if case.get("dttl"):
        kw["default_ttl"] = 300
    exp = model_snapshot(recs, rel)
    if "name" in forced and rel:
        # a forced owner is used as handed over (absolute here); only names read from
        # the text are relativized -- API semantics, not a zone-file spelling
        exp = {(True, nk[1] + tuple(O_T) + (b"",)): v for nk, v in exp.items()}
    try:
        got = snap_rrsets(dns.zonefile.read_rrsets(text, **kw))[0]
    except Exception as e:
        return [("r/load-crash/" + crash_class(e), "%s: %s\ninput: %r kwargs %r" % (type(e).__name__, e, text, sorted(kw)))]
    d = diff_snap(exp, got)
    if d is not None:
        return [("r/rrset-differs/" + d[0], "%s\ninput: %r forced %r" % (d[1], text, sorted(forced)))]
    return []


def descr_r(case):
    return "forced=" + ("+".join(sorted(case["forced"])) or "none")


def work_r(task, col):
    fields = ["name", "ttl", "rdclass", "rdtype"]
    for k in range(len(fields) + 1):
        for forced in itertools.combinations(fields, k):
            for rel, own, relname, cls, dttl, mx, nat in itertools.product((True, False), (0, 1), (0, 1),
                                                                          (0, 1), (0, 1), (0, 1), (0, 1)):
                if (own or relname or nat) and "name" in forced and not nat:
                    if own or relname:
                        continue
                if nat and "name" not in forced:
                    continue
                if cls and "rdclass" in forced:
                    continue
                if dttl and "ttl" in forced:
                    continue
                if mx and dttl and "rdtype" in forced:
                    continue    # '<owner> 10 mx1': TTL or preference?  inherently ambiguous
                case = {"part": "r", "forced": list(forced), "rel": rel, "own": own, "relname": relname,
                        "cls": cls, "dttl": dttl, "mx": mx, "name_as_text": nat}
                probs = eval_r(case)
                col.count("evaluations")
                col.count("r_forced_field_reads")
                col.nontrivial(("r", forced, rel, own, relname, cls, dttl, mx, nat))
                col.outcome("r:" + (probs[0][0] if probs else "equal"))
                for klass, what in probs:
                    col.violation("C09/%s/%s" % (klass, descr_r(case)), what, case)


# =========================================================================== mutants tried
# (name, file, --old, --new, reported as); re-run each with
#   tools/mutant.py C09 --file <file> --old '<old>' --new '<new>'
# (old/new below are already in the unicode_escape form the tool expects).  All 27 are reported
# by the quick tier on every run; none is reported on the unchanged tree.  The repository's own
# zone/tokenizer/generate tests pass on m5, m11, m15, m16, m18, m21, m22, m24 (not run for m25-m27).
MUTANTS_TRIED = [
    ('m1-first-name-dup-not-reset', 'dns/zone.py',
     '                l = self[n].to_styled_text(style, n)\\n',
     '                l = self[n].to_styled_text(style, n)\\n                if style.deduplicate_names:\\n                    style = style.replace(first_name_is_duplicate=True)\\n',
     'C09/a/reread-crash/CNAMEAndOtherData@_check_cname_and_other_data/opts=deduplicate_names/...'),
    ('m2-dollar-ttl-line-omitted', 'dns/zone.py',
     '            if style.default_ttl is not None:\\n                l = f"$TTL',
     '            if False:\\n                l = f"$TTL',
     'C09/a/zone-differs/ttl/opts=default_ttl/...'),
    ('m3-generate-width', 'dns/zonefile.py',
     'return format(index, base).zfill(width)',
     "return format(index, base).rjust(width, '0' if base == 'd' else ' ').replace(' ', '')",
     'C09/g/expansion-differs/plain'),
    ('m4-generate-offset-sign', 'dns/zonefile.py',
     '                offset *= -1\\n',
     '                pass\\n',
     'C09/g/expansion-differs/plain'),
    ('m5-default-ttl-ge', 'dns/rdataset.py',
     'style.default_ttl is not None and self.ttl == style.default_ttl',
     'style.default_ttl is not None and self.ttl >= style.default_ttl',
     'C09/a/zone-differs/ttl/opts=default_ttl/...'),
    ('m6-dedup-first-rdata-only', 'dns/rdataset.py',
     '                if style.deduplicate_names:\\n                    ntext = "    "\\n                    ntext = justify(ntext, style.name_just)\\n',
     '                if style.deduplicate_names:\\n                    ntext = ""\\n',
     'C09/a/zone-differs/name-extra/opts=deduplicate_names/...'),
    ('m7-last-ttl-before-default', 'dns/zonefile.py',
     '                if self.default_ttl_known:\\n                    ttl = self.default_ttl\\n                elif self.last_ttl_known:\\n                    ttl = self.last_ttl\\n                self.tok.unget(token)',
     '                if self.last_ttl_known:\\n                    ttl = self.last_ttl\\n                elif self.default_ttl_known:\\n                    ttl = self.default_ttl\\n                self.tok.unget(token)',
     'C09/b/zone-differs/ttl/spelling=ttl=1/zone'),
    ('m8-comment-in-parens-keeps-token', 'dns/tokenizer.py',
     '                        elif self.multiline:\\n                            self.skip_whitespace()\\n                            token = ""\\n                            continue',
     '                        elif self.multiline:\\n                            self.skip_whitespace()\\n                            continue',
     'C09/b/load-crash/SyntaxError@.../spelling=com=1+par=N/zone'),
    ('m9-tab-not-whitespace-in-skip', 'dns/tokenizer.py',
     '            if c != " " and c != "\\\\t":\\n                if (c != "\\\\n") or not self.multiline:',
     '            if c != " ":\\n                if (c != "\\\\n") or not self.multiline:',
     'C09/b/load-crash/SyntaxError@_get_identifier:.../spelling=ws=1/zone (and com=1)'),
    ('m10-origin-line-relativized', 'dns/zone.py',
     '                origin_style = style.replace(origin=None)',
     '                origin_style = style',
     'C09/a/reread-crash/NoSOA@check_origin/opts=want_origin/...'),
    ('m11-out-of-zone-kept', 'dns/zonefile.py',
     '            if not name.is_subdomain(self.zone_origin):\\n                self._eat_line()\\n                return\\n            if self.relativize:\\n                name = name.relativize(self.zone_origin)\\n\\n        # TTL',
     '            if not name.is_subdomain(self.zone_origin) and name.is_subdomain(self.zone_origin.parent()):\\n                self._eat_line()\\n                return\\n            if self.relativize:\\n                name = name.relativize(self.zone_origin)\\n\\n        # TTL',
     'C09/c1/zone-differs/name-extra/junk=other-tld|root/... and KeyError@_validate_name'),
    ('m12-cname-check-one-direction', 'dns/zonefile.py',
     '        node_kind == dns.node.NodeKind.REGULAR\\n        and rdataset_kind == dns.node.NodeKind.CNAME',
     '        node_kind == dns.node.NodeKind.REGULAR\\n        and rdataset_kind == dns.node.NodeKind.NEUTRAL',
     'C09/c2/cname-coexists-with-other-data/seq=A>CNAME/owner=node/...'),
    ('m13-mid-origin-becomes-zone-origin', 'dns/zonefile.py',
     '                        if self.zone_origin is None:\\n                            self.zone_origin = self.current_origin',
     '                        if True:\\n                            self.zone_origin = self.current_origin',
     'C09/b/zone-differs/name-missing/spelling=mid=1/zone'),
    ('m14-rdata-relativize-to-current-origin', 'dns/zonefile.py',
     '                self.tok,\\n                self.current_origin,\\n                self.relativize,\\n                self.zone_origin,',
     '                self.tok,\\n                self.current_origin,\\n                self.relativize,\\n                self.current_origin,',
     'C09/b/zone-differs/rdata/spelling=mid=1/zone'),
    ('m15-class-then-ttl-not-remembered', 'dns/zonefile.py',
     '            # support for <class> <ttl> <type> syntax\\n            token = self._get_identifier()\\n            try:\\n                ttl = dns.ttl.from_text(token.value)\\n                self.last_ttl = ttl\\n                self.last_ttl_known = True',
     '            # support for <class> <ttl> <type> syntax\\n            token = self._get_identifier()\\n            try:\\n                ttl = dns.ttl.from_text(token.value)',
     'C09/b/load-crash/SyntaxError@_rr_line:missing-default-ttl-value/spelling=order=1+rorder=1+ttl=2/zone'),
    ('m16-eat-line-stops-at-first-token', 'dns/zonefile.py',
     '        while 1:\\n            token = self.tok.get()\\n            if token.is_eol_or_eof():\\n                break',
     '        while 1:\\n            token = self.tok.get()\\n            if token.is_eol_or_eof() or token.is_quoted_string():\\n                break',
     'C09/c1/load-crash/SyntaxError@as_name:expecting-an-identifier/junk=pair-inherit/...'),
    ('m17-soa-minimum-default-overrides-dollar-ttl', 'dns/zonefile.py',
     '        if not self.default_ttl_known and rdtype == dns.rdatatype.SOA:',
     '        if rdtype == dns.rdatatype.SOA:',
     'C09/b/zone-differs/ttl/spelling=ttl=1/zone'),
    ('m18-nl-bytes-ignored-binary', 'dns/zone.py',
     '                nl_b = style.nl.encode(file_enc)\\n                nl = style.nl',
     '                nl_b = b""\\n                nl = style.nl',
     'C09/a/reread-crash/SyntaxError@get_eol_as_token:.../opts=nl/.../via=styled_file_bin'),
    ('m19-justify-right', 'dns/rdataset.py',
     '        return text.ljust(-1 * amount)',
     '        return text.rjust(-1 * amount)',
     'C09/a/reread-crash/SyntaxError@_rr_line:unknown-rdatatype/opts=name_just/...'),
    ('m20-generate-step-ignored', 'dns/zonefile.py',
     '        for i in range(start, stop + 1, step):',
     '        for i in range(start, stop + 1):',
     'C09/g/expansion-differs/plain'),
    ('m21-comments-dropped-with-dedup', 'dns/rdataset.py',
     '                if style.want_comments:\\n                    if rd.rdcomment:',
     '                if style.want_comments and not style.deduplicate_names:\\n                    if rd.rdcomment:',
     'C09/a/comments-differ/opts=deduplicate_names+want_comments/...'),
    ('m22-generic-class-mnemonic-missing-space', 'dns/rdataset.py',
     'rdclass_text = f"CLASS{rdclass} "',
     'rdclass_text = f"CLASS{rdclass}"',
     'C09/a/reread-crash/SyntaxError@_rr_line:unknown-rdatatype/opts=want_generic/...'),
    ('m23-ttl-units-week', 'dns/ttl.py',
     'total += current * 604800',
     'total += current * 604000',
     'C09/b/zone-differs/ttl/spelling=units=1/zone'),
    ('m24-leading-ws-owner-lost-after-directive', 'dns/zonefile.py',
     '                    elif c == "$ORIGIN":\\n                        self.current_origin = self.tok.get_name()',
     '                    elif c == "$ORIGIN":\\n                        self.current_origin = self.tok.get_name()\\n                        self.last_name = self.current_origin',
     'C09/b/zone-differs/rdataset-extra/spelling=mid=1+own=1/zone'),
    ('m25-dollar-ttl-skipped-for-zero', 'dns/zone.py',
     '            if style.default_ttl is not None:\\n                l = f"$TTL',
     '            if style.default_ttl:\\n                l = f"$TTL',
     'C09/a/zone-differs/ttl/opts=default_ttl/...'),
    ('m26-generate-replaces-first-reference-only', 'dns/zonefile.py',
     '            name = lhs.replace(f"${lmod}", lzfindex)',
     '            name = lhs.replace(f"${lmod}", lzfindex, 1)',
     'C09/g/expansion-differs/plain'),
    ('m27-owner-relative-to-zone-origin', 'dns/zonefile.py',
     '                self.last_name = self.tok.as_name(token, self.current_origin)',
     '                self.last_name = self.tok.as_name(token, self.zone_origin)',
     'C09/b/zone-differs/name-missing/spelling=mid=1+rel=1/zone'),
]
