"""Independent DNS message codec used as the oracle of C03 / C08 (and usable by C14).

Written from RFC 1035 (s4.1 framing, s4.1.4 compression, s3.3 RDATA layouts), RFC 2136
(update classes), RFC 3597 s4 (which RDATA names may be compressed), RFC 6891 (OPT), RFC 8945
(TSIG).  It never imports dns.*: everything works on bytes / tuples of labels.

parse(wire) walks header, question and the three record sections using the header counts,
decodes every name (owner names and the names inside RDATA of the types listed in LAYOUT),
audits every compression pointer and insists that every octet is consumed.

Pointer audit (RFC 1035 s4.1.4: "a pointer to a prior occurance of the same name"):
  * a pointer at offset p with target t needs t < p (strictly earlier), t <= 0x3FFF;
  * t must be the start of a *label that was written literally* as part of a name occurrence
    parsed earlier in the message (so it cannot point into a header, a fixed RDATA field, the
    middle of a label or into bytes that no longer hold a name);
  * the number of pointer hops is bounded (no loops), the expanded name is <= 255 octets.
The decoded name is then what "the bytes at t decode to"; the caller compares it (up to ASCII
case) with the name the message object holds at that position.
"""
from __future__ import annotations

import hashlib
import hmac
import struct


class WireError(Exception):
    """Malformed message.  .kind is a short stable class name (used in signatures)."""

    def __init__(self, kind, detail=""):
        super().__init__("%s: %s" % (kind, detail) if detail else kind)
        self.kind = kind
        self.detail = detail


# ---- type codes used here
A, NS, MD, MF, CNAME, SOA, MB, MG, MR, NULL, WKS, PTR, HINFO, MINFO, MX, TXT = range(1, 17)
RP, AFSDB, X25, ISDN, RT = 17, 18, 19, 20, 21
SIG, KEY, PX, AAAA, LOC, NXT, SRV, NAPTR, KX, DNAME, OPT = 24, 25, 26, 28, 29, 30, 33, 35, 36, 39, 41
DS, RRSIG, NSEC, DNSKEY, NSEC3, TLSA, HIP, SVCB, HTTPS, DSYNC = 43, 46, 47, 48, 50, 52, 55, 64, 65, 66
LP, TKEY, TSIG, ANY_T, CAA, AMTRELAY = 107, 249, 250, 255, 257, 260
C_IN, C_CH, C_NONE, C_ANY = 1, 3, 254, 255

# RDATA layouts.  Items: int n = n opaque octets; "S" = <character-string>; "R" = rest of the
# RDATA opaque; "N" = domain name that a sender may compress (RFC 1035 types, RFC 3597 s4);
# "L" = name of a type that RFC 3597 s4 lists as "decompress on receipt for compatibility" or
# that dnspython is known to compress although newer RFCs say senders should not (SRV, NAPTR,
# LP, TKEY): pointers are tolerated and audited, `legacy_ptrs` counts them;
# "U" = name that MUST NOT be compressed (RFC 4034 s3.1.7/s4.1.1, RFC 9460 s2.2, RFC 6672 s2.5
# ...): a pointer there is an error.
LAYOUT = {
    NS: ["N"], MD: ["N"], MF: ["N"], CNAME: ["N"], MB: ["N"], MG: ["N"], MR: ["N"], PTR: ["N"],
    SOA: ["N", "N", 20], MINFO: ["N", "N"], MX: [2, "N"],
    RP: ["U", "U"], AFSDB: [2, "U"], RT: [2, "U"], KX: [2, "U"], PX: [2, "U", "U"],
    DNAME: ["U"], SIG: [18, "U", "R"], RRSIG: [18, "U", "R"], NXT: ["U", "R"], NSEC: ["U", "R"],
    SVCB: [2, "U", "R"], HTTPS: [2, "U", "R"], DSYNC: [5, "U"],
    SRV: [6, "L"], NAPTR: [4, "S", "S", "S", "L"], LP: [2, "L"],
    TKEY: ["L", "R"], TSIG: ["U", "R"],
}
# CH-class A (RFC 1035 never defined it; dnspython: domain name + 16 bit address)
LAYOUT_BY_CLASS = {(C_CH, A): ["L", 2]}

MAX_HOPS = 64


def lower(label: bytes) -> bytes:
    """ASCII-only case folding (RFC 4343)."""
    return label.lower()  # bytes.lower() only touches A-Z


def name_key(labels) -> tuple:
    return tuple(lower(l) for l in labels)


def name_from_text(s: str) -> tuple:
    """'www.example.' -> (b'www', b'example'); '.' -> ().  Only for plain ASCII test names
    (no escapes)."""
    if s == ".":
        return ()
    assert s.endswith("."), s
    return tuple(x.encode("ascii") for x in s[:-1].split("."))


def name_to_text(labels) -> str:
    return ".".join(l.decode("latin-1") for l in labels) + "."


def encode_name(labels) -> bytes:
    out = bytearray()
    for l in labels:
        assert 0 < len(l) < 64
        out.append(len(l))
        out += l
    out.append(0)
    assert len(out) <= 255
    return bytes(out)


class RR:
    __slots__ = ("section", "offset", "end", "owner", "owner_ptr", "rtype", "rclass", "ttl",
                 "rdlen", "rdata_off", "raw", "fields")

    def canon_rdata(self) -> bytes:
        """RDATA with every known name expanded and lower-cased."""
        out = bytearray()
        for f in self.fields:
            if isinstance(f, tuple):
                out += encode_name(name_key(f))
            else:
                out += f
        return bytes(out)

    def names(self):
        return [f for f in self.fields if isinstance(f, tuple)]

    def __repr__(self):
        return "<RR s%d @%d %s t%d c%d ttl%d rdlen%d>" % (
            self.section, self.offset, name_to_text(self.owner), self.rtype, self.rclass,
            self.ttl, self.rdlen)


class Msg:
    __slots__ = ("wire", "id", "flags", "counts", "questions", "sections", "pointers",
                 "legacy_ptrs", "label_starts")

    @property
    def opcode(self):
        return (self.flags >> 11) & 0xF

    @property
    def rcode4(self):
        return self.flags & 0xF

    def rrs(self):
        return [rr for sec in self.sections for rr in sec]


class _Parser:
    def __init__(self, wire: bytes):
        self.w = wire
        self.n = len(wire)
        # offset of a literally written label -> lower-cased labels from there to the root
        self.label_starts = {}
        self.pointers = []  # (p, t, suffix labels as decoded)
        self.legacy_ptrs = 0

    def need(self, off, k, what):
        if off + k > self.n:
            raise WireError("truncated", "%s at %d needs %d octets, %d left" % (what, off, k, self.n - off))

    def name(self, off, limit=None, mode="N"):
        """Decode the name starting at off.  Returns (labels, end) where end is the offset
        after the name *in place* (after the first pointer if any).  `limit` bounds the
        in-place part (RDATA end)."""
        w = self.w
        labels = []
        literal = []  # (offset, index of the label) for labels physically in this occurrence
        ptrs = []  # (p, t, index)
        pos = off
        end = None
        hops = 0
        total = 1
        bound = self.n if limit is None else limit
        while True:
            if end is None and pos >= bound:
                raise WireError("truncated", "name at %d runs past %d" % (off, bound))
            if pos >= self.n:
                raise WireError("pointer-past-end", "name at %d continues at %d" % (off, pos))
            b = w[pos]
            if b == 0:
                if end is None:
                    end = pos + 1
                break
            if b & 0xC0 == 0xC0:
                if end is None and pos + 2 > bound:
                    raise WireError("truncated", "pointer at %d cut" % pos)
                if pos + 2 > self.n:
                    raise WireError("pointer-past-end", "pointer at %d cut" % pos)
                t = ((b & 0x3F) << 8) | w[pos + 1]
                if mode == "U":
                    raise WireError("compressed-in-nocompress-field",
                                    "pointer at %d inside a name that must not be compressed" % pos)
                if t >= pos:
                    raise WireError("pointer-not-backward", "pointer at %d targets %d" % (pos, t))
                if t < 12:
                    raise WireError("pointer-into-header", "pointer at %d targets %d" % (pos, t))
                hops += 1
                if hops > MAX_HOPS:
                    raise WireError("pointer-loop", "name at %d" % off)
                ptrs.append((pos, t, len(labels)))
                if end is None:
                    end = pos + 2
                pos = t
                continue
            if b & 0xC0:
                raise WireError("bad-label-type", "octet 0x%02x at %d" % (b, pos))
            if end is None and pos + 1 + b > bound:
                raise WireError("truncated", "label at %d runs past %d" % (pos, bound))
            if pos + 1 + b > self.n:
                raise WireError("pointer-past-end", "label at %d" % pos)
            if end is None:
                literal.append((pos, len(labels)))
            labels.append(w[pos + 1:pos + 1 + b])
            total += 1 + b
            if total > 255:
                raise WireError("name-too-long", "name at %d" % off)
            pos += 1 + b
        key = name_key(labels)
        for p, t, idx in ptrs:
            known = self.label_starts.get(t)
            if known is None:
                raise WireError("pointer-target-not-a-name",
                                "pointer at %d targets %d which is not the start of a label of "
                                "an earlier name occurrence" % (p, t))
            if known != key[idx:]:
                # cannot happen for a consistent message (same bytes decode the same way);
                # kept as an internal cross-check of the bookkeeping
                raise WireError("pointer-target-suffix-mismatch",
                                "pointer at %d -> %d: %r vs %r" % (p, t, known, key[idx:]))
            self.pointers.append((p, t, tuple(labels[idx:])))
        if ptrs and mode == "L":
            self.legacy_ptrs += 1
        for o, idx in literal:
            self.label_starts[o] = key[idx:]
        return tuple(labels), end, bool(ptrs)

    def rdata_fields(self, rtype, rclass, off, rdlen):
        end = off + rdlen
        layout = LAYOUT_BY_CLASS.get((rclass, rtype)) or LAYOUT.get(rtype)
        if layout is None or rdlen == 0:
            return [self.w[off:end]]
        fields = []
        pos = off
        for item in layout:
            if isinstance(item, int):
                if pos + item > end:
                    raise WireError("rdata-short", "type %d at %d" % (rtype, off))
                fields.append(self.w[pos:pos + item])
                pos += item
            elif item == "S":
                if pos + 1 > end or pos + 1 + self.w[pos] > end:
                    raise WireError("rdata-short", "type %d at %d" % (rtype, off))
                fields.append(self.w[pos:pos + 1 + self.w[pos]])
                pos += 1 + self.w[pos]
            elif item == "R":
                fields.append(self.w[pos:end])
                pos = end
            else:
                labels, pos, _ = self.name(pos, end, item)
                fields.append(labels)
        if pos != end:
            raise WireError("rdata-length-mismatch",
                            "type %d at %d: fields end at %d, RDLENGTH says %d" % (rtype, off, pos, end))
        return fields


def parse(wire: bytes) -> Msg:
    p = _Parser(wire)
    if len(wire) < 12:
        raise WireError("short-header")
    m = Msg()
    m.wire = wire
    m.id, m.flags, qd, an, ns, ar = struct.unpack("!HHHHHH", wire[:12])
    m.counts = (qd, an, ns, ar)
    off = 12
    m.questions = []
    for _ in range(qd):
        labels, off2, _ = p.name(off)
        p.need(off2, 4, "question fixed part")
        qtype, qclass = struct.unpack("!HH", wire[off2:off2 + 4])
        m.questions.append((labels, qtype, qclass, off))
        off = off2 + 4
    m.sections = [[], [], []]
    for s, cnt in enumerate((an, ns, ar)):
        for _ in range(cnt):
            rr = RR()
            rr.section = s + 1
            rr.offset = off
            rr.owner, off2, rr.owner_ptr = p.name(off)
            p.need(off2, 10, "RR fixed part")
            rr.rtype, rr.rclass, rr.ttl, rr.rdlen = struct.unpack("!HHIH", wire[off2:off2 + 10])
            rr.rdata_off = off2 + 10
            p.need(rr.rdata_off, rr.rdlen, "RDATA")
            rr.raw = wire[rr.rdata_off:rr.rdata_off + rr.rdlen]
            rr.fields = p.rdata_fields(rr.rtype, rr.rclass, rr.rdata_off, rr.rdlen)
            off = rr.rdata_off + rr.rdlen
            rr.end = off
            m.sections[s].append(rr)
    if off != len(wire):
        raise WireError("trailing-bytes", "%d octets after the last counted record" % (len(wire) - off))
    m.pointers = p.pointers
    m.legacy_ptrs = p.legacy_ptrs
    m.label_starts = p.label_starts
    return m


# ---- EDNS (RFC 6891 s6.1)
def opt_info(rr: RR):
    """(payload, ext_rcode, version, flags16, [(code, data), ...])"""
    if rr.rtype != OPT:
        raise WireError("not-opt")
    raw = rr.raw
    opts = []
    pos = 0
    while pos < len(raw):
        if pos + 4 > len(raw):
            raise WireError("opt-option-short")
        code, ln = struct.unpack("!HH", raw[pos:pos + 4])
        if pos + 4 + ln > len(raw):
            raise WireError("opt-option-short")
        opts.append((code, raw[pos + 4:pos + 4 + ln]))
        pos += 4 + ln
    return rr.rclass, (rr.ttl >> 24) & 0xFF, (rr.ttl >> 16) & 0xFF, rr.ttl & 0xFFFF, opts


def encode_options(opts) -> bytes:
    return b"".join(struct.pack("!HH", c, len(d)) + d for c, d in opts)


# ---- TSIG (RFC 8945)
HMACS = {
    (b"hmac-md5", b"sig-alg", b"reg", b"int"): "md5",
    (b"hmac-sha1",): "sha1",
    (b"hmac-sha224",): "sha224",
    (b"hmac-sha256",): "sha256",
    (b"hmac-sha384",): "sha384",
    (b"hmac-sha512",): "sha512",
}


class Tsig:
    __slots__ = ("keyname", "algorithm", "time_signed", "fudge", "mac", "original_id", "error",
                 "other", "rr")


def tsig_info(rr: RR) -> Tsig:
    if rr.rtype != TSIG:
        raise WireError("not-tsig")
    t = Tsig()
    t.rr = rr
    t.keyname = rr.owner
    t.algorithm = rr.fields[0]
    rest = rr.fields[1]
    if len(rest) < 10:
        raise WireError("tsig-short")
    hi, lo, t.fudge, maclen = struct.unpack("!HIHH", rest[:10])
    t.time_signed = (hi << 32) | lo
    if len(rest) < 10 + maclen + 6:
        raise WireError("tsig-short")
    t.mac = rest[10:10 + maclen]
    t.original_id, t.error, olen = struct.unpack("!HHH", rest[10 + maclen:16 + maclen])
    t.other = rest[16 + maclen:]
    if len(t.other) != olen:
        raise WireError("tsig-other-length")
    return t


def tsig_mac(wire: bytes, msg: Msg, secret: bytes, request_mac: bytes = b"") -> bytes:
    """The MAC RFC 8945 s4.3 prescribes for the (single, non-multi) message `wire` whose last
    additional record is a TSIG."""
    if not msg.sections[2] or msg.sections[2][-1].rtype != TSIG:
        raise WireError("tsig-not-last")
    t = tsig_info(msg.sections[2][-1])
    if t.rr.rclass != C_ANY or t.rr.ttl != 0:
        raise WireError("tsig-bad-class-or-ttl")
    algo = HMACS.get(name_key(t.algorithm))
    if algo is None:
        raise WireError("tsig-unknown-algorithm", name_to_text(t.algorithm))
    h = hmac.new(secret, digestmod=getattr(hashlib, algo))
    if request_mac:
        h.update(struct.pack("!H", len(request_mac)) + request_mac)
    # s4.3.2: the message without the TSIG RR, ARCOUNT decremented, original ID
    arcount = msg.counts[3] - 1
    h.update(struct.pack("!H", t.original_id) + wire[2:10] + struct.pack("!H", arcount)
             + wire[12:t.rr.offset])
    # s4.3.3 TSIG variables
    h.update(encode_name(name_key(t.keyname)) + struct.pack("!HI", C_ANY, 0))
    h.update(encode_name(name_key(t.algorithm)))
    h.update(struct.pack("!HIH", (t.time_signed >> 32) & 0xFFFF, t.time_signed & 0xFFFFFFFF, t.fudge))
    h.update(struct.pack("!HH", t.error, len(t.other)) + t.other)
    return h.digest()


def tsig_verify(wire: bytes, msg: Msg, secret: bytes, request_mac: bytes = b"") -> bool:
    t = tsig_info(msg.sections[2][-1])
    return hmac.compare_digest(tsig_mac(wire, msg, secret, request_mac), t.mac)
