"""C04 corpus: valid inputs that the fault enumerators of mc/checks/c04.py mutate.

Everything here is *input data* (text forms per record type, zone files, message texts)
plus builders that use the library only to produce valid wire messages.  No oracle
lives here.  All builders are deterministic (fixed ids, fixed TSIG time).
"""
from __future__ import annotations

import dns.edns
import dns.flags
import dns.message
import dns.name
import dns.opcode
import dns.rcode
import dns.rdata
import dns.rdataclass
import dns.rdatatype
import dns.renderer
import dns.rrset
import dns.tsig
import dns.update

NOW = 1700000000  # the pinned clock (TSIG time_signed of the corpus)


class _NoShuffle:
    """dns.rdataset shuffles the records of an RRset when rendering; keep the corpus (and
    every re-rendering in the check) deterministic."""

    @staticmethod
    def shuffle(seq):
        return None


import dns.rdataset  # noqa: E402

dns.rdataset.random = _NoShuffle

B64 = "AQNRU3mG7TVTO2BkR47usntb102uFJtugbo6BSGvgqt4AQ=="
B64S = "AwEAAbdx"
HEX20 = "123456789abcdef67890123456789abcdef67890"

# (class, type) -> valid presentation forms.  First form is the "family representative".
RDATA_TEXT = {
    ("IN", "A"): ["10.53.0.1", "255.255.255.255"],
    ("CH", "A"): ["target.example. 12345", "rel 0"],
    ("IN", "AAAA"): ["2001:db8::15", "::ffff:1.2.3.4"],
    ("IN", "NS"): ["ns1.example.", "ns"],
    ("IN", "CNAME"): ["cname-target.", "@"],
    ("IN", "PTR"): ["foo.net.", "."],
    ("IN", "DNAME"): ["dname-target.", "rel.target"],
    ("IN", "NSAP-PTR"): ["foo.", "."],
    ("IN", "SOA"): ["ns1.example. hostmaster.example. 1 2 3 4 5",
                    "ns1 hostmaster ( 4294967295 1h 2m 3w 5 )"],
    ("IN", "MX"): ["10 mail", "65535 ."],
    ("IN", "AFSDB"): ["0 hostname", "65535 ."],
    ("IN", "RT"): ["0 intermediate-host", "65535 ."],
    ("IN", "KX"): ["10 kdc", "10 ."],
    ("IN", "LP"): ["10 l64-subnet1.example.com."],
    ("IN", "RP"): ["mbox-dname txt-dname", ". ."],
    ("IN", "PX"): ["65535 foo. bar.", "1 . ."],
    ("IN", "SRV"): ["0 0 0 .", "65535 65535 65535 old-slow-box.example.com."],
    ("IN", "NAPTR"): ['0 0 "" "" "" .', '65535 65535 "blurgh" "blorf" "blegh" foo.',
                      r'100 10 "S" "SIP+D2U" "!^.*$!sip:info@example.com!" _sip._udp.example.com.'],
    ("IN", "TXT"): ['"foo"', 'foo bar', r'"foo\010bar" \"x\" "a;b"'],
    ("IN", "SPF"): ['"v=spf1 mx -all"'],
    ("IN", "AVC"): ['"app-name:WOLFGANG|app-class:OAM|business=yes"'],
    ("IN", "NINFO"): ['"status" "ok"'],
    ("IN", "RESINFO"): ["qnamemin exterr=15,16,17 infourl=https://resolver.example.com/guide"],
    ("IN", "WALLET"): ["EXAMPLE 01234567890abcdef"],
    ("IN", "HINFO"): ['"Generic PC clone" "NetBSD-1.4"', "PC NetBSD"],
    ("IN", "ISDN"): ['"isdn-address"', "isdn-address subaddress"],
    ("IN", "X25"): ['"123456789"'],
    ("IN", "GPOS"): ['"-22.6882" "116.8652" "250.0"', "1.0 2.0 3.0"],
    ("IN", "LOC"): ["60 9 N 24 39 E 10 20 2000 20",
                    "60 09 00.000 N 24 39 00.000 E 10.00m 20.00m 2000.00m 20.00m",
                    "0 9 1 S 24 39 0.000 W -10.00m 90000000.00m 2000m 20m"],
    ("IN", "WKS"): ["10.0.0.1 6 ( 0 1 2 21 23 )", "10.0.0.1 17 0 1 2 53", "10.0.0.2 tcp 255"],
    ("IN", "NSAP"): ["0x47000580005a0000000001e133ffffff00016100",
                     "0x47.000580005a0000000001e133ffffff000161.00"],
    ("IN", "APL"): ["1:192.168.32.0/21 !1:192.168.38.0/28", "1:224.0.0.0/4 2:FF00:0:0:0:0:0:0:0/8"],
    ("IN", "DS"): ["12345 3 1 " + HEX20, "12345 RSASHA256 2 1234 5678 9abc def6 7890 1234 5678 9abc def6 7890 "
                   "1234 5678 9abc def6 7890 1234"],
    ("IN", "DLV"): ["12345 3 1 " + HEX20],
    ("IN", "CDS"): ["12345 3 1 " + HEX20, "0 0 0 00"],
    ("IN", "DNSKEY"): ["512 255 1 " + B64, "257 3 RSAMD5 ( " + B64S + " " + B64S + " )"],
    ("IN", "CDNSKEY"): ["256 3 8 ( " + B64 + " )", "0 3 0 AA=="],
    ("IN", "KEY"): ["512 255 1 " + B64],
    ("IN", "RRSIG"): ["NSEC 1 3 3600 20200101000000 20030101000000 2143 foo " + B64,
                      "TYPE1234 8 0 0 1577836800 1041379200 65535 . " + B64S],
    ("IN", "SIG"): ["NSEC 1 3 3600 20200101000000 20030101000000 2143 foo " + B64],
    ("IN", "NSEC"): ["a.secure A MX RRSIG NSEC TYPE1234", ". ( NSAP-PTR NSEC )", ". ( NSEC TYPE65535 )"],
    ("IN", "NSEC3"): ["1 1 12 aabbccdd 2t7b4g4vsa5smi47k61mv5bv1a22bojr MX DNSKEY NS SOA NSEC3PARAM RRSIG",
                      "1 0 0 - 2t7b4g4vsa5smi47k61mv5bv1a22bojr"],
    ("IN", "NSEC3PARAM"): ["1 1 12 aabbccdd", "1 0 0 -"],
    ("IN", "CSYNC"): ["12345 0 A MX RRSIG NSEC TYPE1234"],
    ("IN", "ZONEMD"): ["2018031900 1 1 62e6cf51b02e54b9 b5f967d547ce4313 6792901f9f88e637 "
                       "493daaf401c92c27 9dd10f0edb1c56f8 080211f8480ee306",
                       "2018031900 241 240 e2d523f654b9422a 96c5a8f44607bbee"],
    ("IN", "CERT"): ["65534 65535 PRIVATEOID " + B64, "PKIX 1 RSASHA256 " + B64S],
    ("IN", "DHCID"): ["AAIBY2/AuCccgoJbsaxcQc9TUapptP69lOjxfNuVAA2kjEA="],
    ("IN", "OPENPGPKEY"): ["( mQENBEteQDsBCADYnatn9+5t43AdJlVk9dZC2RM0idPQcmrr KcjeAWDn )"],
    ("IN", "SSHFP"): ["1 1 aa549bfe898489c02d1715d97d79c57ba2fa76ab", "4 2 aa54 9bfe"],
    ("IN", "TLSA"): ["3 1 1 a9cdf989b504fe5dca90c0d2167b6550570734f7c763e09fdf88904e06157065"],
    ("IN", "SMIMEA"): ["1 0 1 efddf0d915c7bdc5 782c0881e1b2a95a"],
    ("IN", "HHIT"): ["( gwppM2ZmOCAwMDAwWQFGMIIBQjCB9aAD AgECAgE1MAUGAytlcDArMSkwJwYDVQQD )"],
    ("IN", "BRID"): ["owAAAYIEUQEgAQA//gAKBRMIJGmaS8ay"],
    ("IN", "HIP"): ["2 200100107B1A74DF365639CC39F1D578 " + B64S,
                    "2 200100107B1A74DF365639CC39F1D578 " + B64S + " rvs1.example.com. rvs2"],
    ("IN", "IPSECKEY"): ["10 1 2 192.0.2.38 " + B64, "10 0 2 . " + B64, "10 3 2 mygateway.example.com. " + B64,
                         "10 2 2 2001:0DB8:0:8002::2000:1 " + B64],
    ("IN", "AMTRELAY"): ["0 0 0 .", "10 0 1 203.0.113.15", "10 0 2 2001:db8::15", "128 1 3 amtrelays.example.com."],
    ("IN", "NID"): ["10 0014:4fff:ff20:ee64"],
    ("IN", "L32"): ["10 10.1.2.0"],
    ("IN", "L64"): ["10 2001:0DB8:1140:1000"],
    ("IN", "EUI48"): ["00-00-5e-00-53-2a"],
    ("IN", "EUI64"): ["00-00-5e-ef-10-00-00-2a"],
    ("IN", "URI"): ['10 1 "ftp://ftp1.example.com/public"'],
    ("IN", "CAA"): ['0 issue "ca.example.net"', '128 tbs "Unknown"', '0 issue "ca.example.net; account=230123"'],
    ("IN", "SVCB"): ['100 foo.com. mandatory="alpn,port" alpn="h2,h3" no-default-alpn port="12345" '
                     'ech="abcd" ipv4hint=1.2.3.4,4.3.2.1 ipv6hint=1::2,3::4 key12345="foo"',
                     r"16 foo.example.org. alpn=foo\092,bar,h2", "16 foo.example.org. dohpath=/dns-query{?dns}",
                     "0 svc"],
    ("IN", "HTTPS"): ['1 . port=8002 ech="abcd"', "0 svc", "1 . alpn=h2 ohttp"],
    ("IN", "DSYNC"): ["CDS NOTIFY 5300 notify-endpoint.parent.net.", "CSYNC 128 443 ."],
    ("IN", "TKEY"): ["gss-tsig. 1594203795 1594206664 3 0 KEYKEYKEYKEYKEYKEYKEYKEYKEYKEYKEYKEY OTHEROTHEROTHEROTHEROTHEROTHEROT",
                     "hmac-sha256. 1 2 2 17 AAAA"],
    ("IN", "TYPE65280"): [r"\# 8 0a0000010a000001", r"\# 0", r"\# 3 ( 0a 00 01 )"],
    ("IN", "TYPE1"): [r"\# 4 7f000002"],  # known type, generic syntax
    ("CLASS32", "MX"): ["10 mail.example."],  # class-independent type in a private class
}

# ------------------------------------------------------------------ zone files
# "@INC@" is replaced by the directory holding the include files (c04.incdir()).
INCLUDE_FILES = {
    "inc1.zone": "inc1 A 10.1.0.1\n$TTL 30\ninc2 TXT \"from include\"\n",
    "inc2.zone": "$ORIGIN deep.sub.example.\nleaf 120 IN AAAA ::2\n@ MX 5 leaf\n",
}

ZONES = {
    # every plain feature: $ORIGIN, $TTL, parens, comments, inherited owner, wildcard, cut
    "basic": ("example.",
              "$ORIGIN example.\n"
              "$TTL 300 ; 5 minutes\n"
              "@ IN SOA ns1 hostmaster ( 1 2 3\n 4 5 )\n"
              "@ NS ns1\n"
              "ns1 60 IN A 10.53.0.1\n"
              " AAAA ::1\n"
              "* MX 10 mail\n"
              "a TXT \"foo foo\" bar ; comment\n"
              "b CNAME foo.net.\n"
              "$TTL 1h\n"
              "s NS ns.s\n"
              "$ORIGIN s.example.\n"
              "ns A 73.80.65.49\n"),
    # origin from the caller, no $TTL (SOA minimum), both TTL/class orders, out-of-zone data
    "nottl": ("example.",
              "@ 3600 IN SOA ns1.example. hostmaster.example. 1 2 3 4 5\n"
              "@ IN 3600 NS ns1\n"
              "ns1 A 10.0.0.1\n"
              "\tA 10.0.0.2\n"
              "other.org. A 1.2.3.4\n"
              "www 1d2h A 10.0.0.3\n"
              "www.example. IN A 10.0.0.4\n"
              "\n"
              "; only a comment\n"
              "www IN 5 TXT x\n"),
    # $GENERATE in its forms (ranges <= 16)
    "generate": ("example.",
                 "$ORIGIN example.\n"
                 "$TTL 60\n"
                 "@ SOA ns1 hostmaster 1 2 3 4 5\n"
                 "@ NS ns1\n"
                 "ns1 A 10.0.0.1\n"
                 "$GENERATE 1-2 host$ A 10.0.0.$\n"
                 "$GENERATE 0-4/2 ${0,3,d}.ptr 300 IN PTR host${-1,2,x}.example.\n"
                 "$GENERATE 10-11 n${2,4,n} CNAME host$\n"
                 "$GENERATE 3-4 sync${-1}.db IN A 10.10.16.0\n"
                 "$GENERATE 1-2 out$.org. A 10.0.1.$\n"),
    # $INCLUDE with and without an origin (needs allow_include=True)
    "include": ("example.",
                "$TTL 300\n"
                "@ SOA ns1 hostmaster 1 2 3 4 5\n"
                "@ NS ns1\n"
                "ns1 A 10.0.0.1\n"
                "$INCLUDE @INC@/inc1.zone\n"
                "after1 A 10.0.0.9\n"
                "$INCLUDE @INC@/inc2.zone sub\n"
                "after2 A 10.0.0.10\n"),
    # several record types, escapes, generic syntax, $UNICODE, unicode owner
    "types": ("example.",
              "$ORIGIN example.\n"
              "$TTL 3600\n"
              "$UNICODE 2008\n"
              "@ SOA ns1 hostmaster 2018031900 2 3 4 5\n"
              "@ NS ns1\n"
              "@ DNSKEY 257 3 8 AwEAAbdx\n"
              "@ RRSIG NS 8 1 3600 20200101000000 20030101000000 2143 example. AwEAAbdx\n"
              "@ RRSIG SOA 8 1 3600 1577836800 1041379200 2143 example. AwEAAbdx\n"
              "@ NSEC ns1 NS SOA RRSIG NSEC\n"
              "t\\.x TXT \"a\\\"b\" \\065\\ b\n"
              "u TYPE65280 \\# 2 0a00\n"
              "u A \\# 4 0a000002\n"
              "café SVCB 1 . alpn=h2 port=443\n"),
    # absolute names only, TTL units, @ in rdata, class CH data is a syntax error when faulted in
    "absolute": ("example.",
                 "example. 1W IN SOA ns1.example. hostmaster.example. ( 1 1D 1H 1W 300 )\n"
                 "example. 1W IN NS ns1.example.\n"
                 "example. 1W IN MX 0 @\n"
                 "ns1.example. 1D IN A 10.0.0.1\n"
                 "a.b.c.example. 30s IN CNAME @\n"),
}

# read_rrsets inputs: text plus keyword arguments
RRSETS = {
    "free": ("a.example. 300 A 10.0.0.1\na.example. 300 A 10.0.0.2\nb 5 MX 10 mail\nb 5 TXT \"x y\" z\n",
             {}),
    "freeclass": ("a.example. 300 IN A 10.0.0.1\n 300 IN A 10.0.0.2\nb IN 5 TXT \"x y\" z\n",
                  {"rdclass": None}),
    "forced": ("10.0.0.1\n10.0.0.2 ; second\n",
               {"name": "www", "ttl": 300, "rdclass": "IN", "rdtype": "A", "origin": "example."}),
    "named": ("IN A 1.2.3.4\n300 AAAA ::1\nTXT \"x\"\n",
              {"name": "host.example.", "rdclass": None, "default_ttl": "1h"}),
    "rel": ("a 10 NS b\nc.example. 20 IN CNAME a\n@ 30 SOA a b 1 2 3 4 5\n",
            {"origin": "example.", "relativize": True, "rdclass": None}),
}

# ------------------------------------------------------------------ message texts
MESSAGE_TEXTS = {
    "response": ("id 1234\nopcode QUERY\nrcode NOERROR\nflags QR AA RD RA\nedns 0\neflags DO\npayload 1232\n"
                 ";QUESTION\nexample. IN SOA\n"
                 ";ANSWER\nexample. 300 IN SOA ns1.example. hostmaster.example. 1 2 3 4 5\n"
                 ";AUTHORITY\nexample. 300 IN NS ns1.example.\nexample. 300 IN NS ns2.example.\n"
                 ";ADDITIONAL\nns1.example. 300 IN A 10.0.0.1\nns1.example. 300 IN AAAA ::1\n"),
    "update": ("id 2\nopcode UPDATE\nrcode NOERROR\nflags \n"
               ";ZONE\nexample. IN SOA\n"
               ";PREREQ\na ANY ANY\nb ANY A\nc 0 IN A 10.0.0.1\nd NONE ANY\ne NONE MX\n"
               ";UPDATE\nf 300 IN A 10.0.0.2\ng ANY ANY\nh ANY A\ni 0 NONE A 10.0.0.3\nj ANY TXT\nj 60 IN TXT \"x\"\n"
               ";ADDITIONAL\n"),
    "sloppy": ("id 7\nflags rd FLAG5\nrcode BADVERS\n"
               ";QUESTION\nwww IN A\n"
               ";ANSWER\nwww IN A 10.0.0.1\n 60 A 10.0.0.2\nwww 60 CH TXT \"a b\" ( c\n d )\n"
               "alias 5 CNAME www ; comment\n"
               ";AUTHORITY\n@ 0 IN RRSIG A 8 1 3600 20200101000000 20030101000000 2143 example. AwEAAbdx\n"),
    "notify": ("id 9\nopcode NOTIFY\nflags AA\n;QUESTION\nexample. IN SOA\n"
               ";ANSWER\nexample. 0 IN SOA ns1.example. hostmaster.example. 10 2 3 4 5\n"),
}


# ------------------------------------------------------------------ wire messages
KEYNAME = dns.name.from_text("key.example.")
SECRET = b"0123456789abcdef0123456789abcdef"


def keyrings():
    """keyring variants: Key objects, raw bytes (algorithm taken from the wire)."""
    return {
        "keys": {KEYNAME: dns.tsig.Key(KEYNAME, SECRET, "hmac-sha256")},
        "bytes": {KEYNAME: SECRET},
    }


def _rd(cls, typ, text, origin=None):
    return dns.rdata.from_text(cls, typ, text, origin=origin, relativize=False)


def _resp(qname, rdtype, rdclass="IN", id=0x1234, flags=dns.flags.QR | dns.flags.AA | dns.flags.RD):
    m = dns.message.Message(id=id)
    m.flags = flags
    m.find_rrset(m.question, dns.name.from_text(qname), dns.rdataclass.from_text(rdclass),
                 dns.rdatatype.from_text(rdtype), create=True, force_unique=True)
    return m


def _add(m, section, name, ttl, cls, typ, *texts):
    origin = dns.name.from_text("example.")
    rrs = dns.rrset.from_text_list(name, ttl, cls, typ, list(texts), origin=origin, relativize=False)
    rs = m.find_rrset(section, rrs.name, rrs.rdclass, rrs.rdtype, rrs.covers, create=True)
    for rd in rrs:
        rs.add(rd, ttl)
    return m


def _pin(fn):
    """Run fn with the library's message clock pinned (TSIG signing uses time.time())."""
    class _T:
        @staticmethod
        def time():
            return float(NOW)
    saved = dns.message.time
    dns.message.time = _T
    try:
        return fn()
    finally:
        dns.message.time = saved


def type_messages(first_form_only=True):
    """One small response per implemented record type: question + that record (compressed
    owner) ."""
    out = []
    for (cls, typ), forms in RDATA_TEXT.items():
        if typ in ("TYPE1",):
            continue
        m = _resp("t.example.", typ, cls)
        _add(m, m.answer, "t.example.", 300, cls, typ, *(forms[:1] if first_form_only else forms))
        out.append(("type-%s-%s" % (cls, typ), m.to_wire(), {}))
    return out


FAMILIES = [("IN", "A"), ("IN", "NS"), ("IN", "SOA"), ("IN", "MX"), ("IN", "TXT"), ("IN", "NAPTR"),
            ("IN", "RRSIG"), ("IN", "NSEC3"), ("IN", "SVCB"), ("IN", "HIP"), ("IN", "IPSECKEY"),
            ("IN", "APL"), ("IN", "LOC"), ("IN", "CAA"), ("IN", "URI"), ("IN", "TYPE65280"), ("CH", "A")]


def structural_messages():
    """Messages that exercise the framing: sections, EDNS options, updates, TSIG, xfr."""
    out = []
    ex = "example."
    # plain query
    q = dns.message.make_query(ex, "A", id=1)
    out.append(("query", q.to_wire(), {}))
    # EDNS query with one of each option class
    opts = [dns.edns.NSIDOption(b"ab"), dns.edns.CookieOption(b"12345678", b"abcdefgh"),
            dns.edns.ECSOption("1.2.3.0", 24), dns.edns.ECSOption("2001:db8::", 33, 8),
            dns.edns.EDEOption(15, "blocked"), dns.edns.GenericOption(65001, b"\x01\x02"),
            dns.edns.ReportChannelOption(dns.name.from_text("agent.example.")),
            dns.edns.GenericOption(dns.edns.OptionType.PADDING, b"\x00\x00")]
    q = dns.message.make_query(ex, "A", id=3, use_edns=0, payload=1232, want_dnssec=True, options=opts)
    out.append(("edns-options", q.to_wire(), {}))
    # referral-like response using all sections and compression
    m = _resp("www.example.", "A", id=4)
    _add(m, m.answer, "www.example.", 300, "IN", "CNAME", "web.example.")
    _add(m, m.answer, "web.example.", 300, "IN", "A", "10.0.0.1", "10.0.0.2")
    _add(m, m.authority, "example.", 300, "IN", "NS", "ns1.example.", "ns2.example.")
    _add(m, m.additional, "ns1.example.", 300, "IN", "A", "10.0.0.53")
    _add(m, m.additional, "ns1.example.", 300, "IN", "AAAA", "::53")
    m.use_edns(0, dns.flags.DO, 4096)
    out.append(("referral", m.to_wire(), {}))
    # NXDOMAIN with SOA, truncated flag, extended rcode
    m = _resp("nx.example.", "TXT", id=5, flags=dns.flags.QR | dns.flags.TC)
    m.set_rcode(dns.rcode.NXDOMAIN)
    _add(m, m.authority, "example.", 60, "IN", "SOA", "ns1.example. hostmaster.example. 1 2 3 4 5")
    out.append(("nxdomain-tc", m.to_wire(), {}))
    m = _resp("example.", "A", id=6)
    m.use_edns(0, 0, 1232)
    m.set_rcode(dns.rcode.BADVERS)
    out.append(("badvers", m.to_wire(), {}))
    # signed data: RRSIG covers, one_rr_per_rrset relevant
    m = _resp("example.", "NS", id=7)
    _add(m, m.answer, "example.", 300, "IN", "NS", "ns1.example.", "ns2.example.")
    _add(m, m.answer, "example.", 300, "IN", "RRSIG",
         "NS 8 1 300 20200101000000 20030101000000 2143 example. AwEAAbdx")
    _add(m, m.authority, "example.", 300, "IN", "RRSIG",
         "SOA 8 1 300 20200101000000 20030101000000 2143 example. AwEAAbdx")
    out.append(("rrsig", m.to_wire(), {}))
    # dynamic update with every prerequisite/update form
    u = dns.update.UpdateMessage(ex, id=2)
    u.present("a"); u.present("b", "A"); u.present("c", "A", "10.0.0.1"); u.absent("d"); u.absent("e", "MX")
    u.add("f", 300, "A", "10.0.0.2"); u.delete("g"); u.delete("h", "A"); u.delete("i", "A", "10.0.0.3")
    u.replace("j", 60, "TXT", '"x"')
    out.append(("update", u.to_wire(), {}))
    u2 = dns.update.UpdateMessage(ex, id=8)
    u2.add("k", 300, "MX", "10 mail.example.")
    u2.use_edns(0, 0, 1232)
    out.append(("update-edns", u2.to_wire(), {}))
    # notify
    m = dns.message.make_query(ex, "SOA", id=9)
    m.set_opcode(dns.opcode.NOTIFY)
    m.flags = dns.flags.AA
    _add(m, m.answer, "example.", 0, "IN", "SOA", "ns1.example. hostmaster.example. 10 2 3 4 5")
    out.append(("notify", m.to_wire(), {}))
    # zone-transfer shaped response (SOA ... SOA), parsed with xfr/origin options too
    m = _resp(ex, "AXFR", id=10)
    soa = "ns1.example. hostmaster.example. 1 2 3 4 5"
    r = dns.renderer.Renderer(id=10, flags=dns.flags.QR | dns.flags.AA)
    r.add_question(dns.name.from_text(ex), dns.rdatatype.AXFR)
    for name, typ, text in [(ex, "SOA", soa), (ex, "NS", "ns1.example."), ("ns1.example.", "A", "10.0.0.1"),
                            (ex, "SOA", soa)]:
        r.add_rrset(dns.renderer.ANSWER, dns.rrset.from_text(name, 300, "IN", typ, text))
    r.write_header()
    out.append(("axfr", r.get_wire(), {}))
    # long names: 63-octet labels, name of 255 octets referenced by pointers
    l63 = "a" * 63
    longname = ".".join([l63, l63, l63, "b" * 58]) + ".xy."
    assert len(dns.name.from_text(longname).to_wire()) == 255
    m = _resp(longname, "CNAME", id=11)
    _add(m, m.answer, longname, 1, "IN", "CNAME", "c." + longname.split(".", 1)[1])
    out.append(("longname", m.to_wire(), {}))
    # unknown class / type
    m = _resp("example.", "TYPE65280", "CLASS32", id=12)
    _add(m, m.answer, "example.", 1, "CLASS32", "TYPE65280", r"\# 3 010203")
    _add(m, m.answer, "example.", 1, "CLASS32", "MX", "10 mail.example.")
    out.append(("unknown-class", m.to_wire(), {}))

    # TSIG: signed query, signed response (request_mac), signed update, peer error with other data
    def tsig_set():
        res = []
        key = dns.tsig.Key(KEYNAME, SECRET, "hmac-sha256")
        q = dns.message.make_query(ex, "A", id=20)
        q.use_tsig(key)
        wq = q.to_wire()
        res.append(("tsig-query", wq, {"tsig": True}))
        r = dns.message.make_response(q)
        _add(r, r.answer, ex, 300, "IN", "A", "10.0.0.1")
        wr = r.to_wire()
        res.append(("tsig-response", wr, {"tsig": True, "request_mac": q.mac}))
        u = dns.update.UpdateMessage(ex, id=21, keyring=key)
        u.add("f", 300, "A", "10.0.0.2")
        u.use_edns(0, 0, 1232)
        res.append(("tsig-update", u.to_wire(), {"tsig": True}))
        q2 = dns.message.make_query(ex, "A", id=22)
        q2.use_tsig(key, fudge=300, tsig_error=dns.rcode.BADTIME, other_data=b"\x00\x00\x65\x53\xf1\x00")
        res.append(("tsig-badtime", q2.to_wire(), {"tsig": True}))
        k512 = dns.tsig.Key(KEYNAME, SECRET, "hmac-sha512-256")
        q3 = dns.message.make_query(ex, "SOA", id=23)
        q3.use_tsig(k512)
        res.append(("tsig-trunc-alg", q3.to_wire(), {"tsig": True}))
        return res

    out += _pin(tsig_set)
    return out


def messages(all_types):
    """The corpus: structural messages plus one message per record-type family (quick)
    or per implemented type (thorough)."""
    tm = type_messages()
    if not all_types:
        fam = set("type-%s-%s" % f for f in FAMILIES)
        tm = [t for t in tm if t[0] in fam]
    return structural_messages() + tm


def rdata_wires():
    """(class, type, wire) for every text form, rendered without compression."""
    out = []
    origin = dns.name.from_text("example.")
    for (cls, typ), forms in RDATA_TEXT.items():
        for i, text in enumerate(forms):
            rd = dns.rdata.from_text(cls, typ, text, origin=origin, relativize=False)
            out.append((cls, typ, i, rd.to_wire()))
    return out
