"""Boring reference model of zone content and of the transaction operations
(add / replace / delete / delete_exact / update_serial), written from the docstrings of
dns.transaction.Transaction, dns.rdataset.Rdataset and dns.node.Node.

Content: {absolute Name: {(rdtype, covers): [ttl, [rdata, ...]]}} with first-insertion
order inside an rdataset.  Rdata and Name values are the library's immutable value
objects (their equality/hash laws are property C07's business); everything else is plain
dicts and lists.
"""
from __future__ import annotations

import dns.name
import dns.rdataclass
import dns.rdatatype

SINGLETONS = {dns.rdatatype.SOA, dns.rdatatype.NXT, dns.rdatatype.DNAME, dns.rdatatype.NSEC,
              dns.rdatatype.CNAME}
NEUTRAL_TYPES = {dns.rdatatype.NSEC, dns.rdatatype.NSEC3, dns.rdatatype.KEY}
MAX_TTL = 2 ** 32 - 1


class ModelError(Exception):
    """Expected exception; .kind is the class name the implementation must raise."""

    def __init__(self, kind, why=""):
        super().__init__(kind + ": " + why)
        self.kind = kind


def kind_of(rdtype, covers):
    """dns.node.NodeKind: CNAME / NEUTRAL / REGULAR."""
    t = covers if rdtype in (dns.rdatatype.RRSIG, dns.rdatatype.SIG) and covers != dns.rdatatype.NONE else rdtype
    if rdtype == dns.rdatatype.RRSIG or rdtype == dns.rdatatype.SIG:
        t = covers
    if t == dns.rdatatype.CNAME:
        return "CNAME"
    if t in NEUTRAL_TYPES:
        return "NEUTRAL"
    return "REGULAR"


class ZoneModel:
    def __init__(self, origin, rdclass=dns.rdataclass.IN):
        self.origin = origin
        self.rdclass = rdclass
        self.content = {}

    def copy(self):
        m = ZoneModel(self.origin, self.rdclass)
        m.content = {n: {k: [v[0], list(v[1])] for k, v in node.items()} for n, node in self.content.items()}
        return m

    # ---- names
    def absname(self, name):
        if name.is_absolute():
            if not name.is_subdomain(self.origin):
                raise ModelError("KeyError", "not a subdomain of the origin")
            return name
        try:
            return name.derelativize(self.origin)
        except dns.name.NameTooLong:
            raise ModelError("KeyError", "too long")

    # ---- snapshot for comparison
    def snapshot(self):
        out = {}
        for n, node in self.content.items():
            for (t, c), (ttl, rds) in node.items():
                out[(n, int(t), int(c))] = (ttl, frozenset(rds))
        return out

    # ---- primitives
    def _get(self, name, rdtype, covers):
        node = self.content.get(name)
        if node is None:
            return None
        return node.get((rdtype, covers))

    def _put(self, name, rdtype, covers, ttl, rds):
        node = self.content.setdefault(name, {})
        node.pop((rdtype, covers), None)
        k = kind_of(rdtype, covers)
        if k == "CNAME":
            for key in [key for key in node if kind_of(*key) == "REGULAR"]:
                del node[key]
        elif k == "REGULAR":
            for key in [key for key in node if kind_of(*key) == "CNAME"]:
                del node[key]
        node[(rdtype, covers)] = [ttl, list(rds)]

    def _del_rdataset(self, name, rdtype, covers):
        node = self.content.get(name)
        if node is not None:
            node.pop((rdtype, covers), None)
            if not node:
                del self.content[name]

    # ---- operations.  `rds` = (rdclass, rdtype, covers, ttl, [rdatas])
    def add(self, name, rds, replace=False):
        rdclass, rdtype, covers, ttl, items = rds
        if rdclass != self.rdclass:
            raise ModelError("ValueError", "wrong class")
        n = self.absname(name)
        if rdtype == dns.rdatatype.SOA and n != self.origin:
            raise ModelError("ValueError", "non-origin SOA")
        items = dedup(items)
        if rdtype in SINGLETONS and items:
            items = items[-1:]
        if not replace:
            ex = self._get(n, rdtype, covers)
            if ex is not None:
                ttl = min(ex[0], ttl)
                if rdtype in SINGLETONS:
                    items = items[-1:] if items else list(ex[1])
                else:
                    items = dedup(list(ex[1]) + items)
        self._put(n, rdtype, covers, ttl, items)

    def delete_name(self, name, exact=False):
        n = self.absname(name)
        if n not in self.content:
            if exact:
                raise ModelError("DeleteNotExact", "name not known")
            return False
        del self.content[n]
        return True

    def delete_rdataset(self, name, rdtype, covers, exact=False):
        n = self.absname(name)
        if self._get(n, rdtype, covers) is None:
            if exact:
                raise ModelError("DeleteNotExact", "missing rdataset")
            return False
        self._del_rdataset(n, rdtype, covers)
        return True

    def delete_rdatas(self, name, rds, exact=False):
        rdclass, rdtype, covers, _ttl, items = rds
        if rdclass != self.rdclass:
            raise ModelError("ValueError", "wrong class")
        n = self.absname(name)
        ex = self._get(n, rdtype, covers)
        if ex is None:
            if exact:
                raise ModelError("DeleteNotExact", "missing rdataset")
            return False
        if exact and any(i not in ex[1] for i in items):
            raise ModelError("DeleteNotExact", "missing rdatas")
        rest = [r for r in ex[1] if r not in items]
        if rest:
            self._put(n, rdtype, covers, ex[0], rest)
        else:
            self._del_rdataset(n, rdtype, covers)
        return True

    def update_serial(self, value=1, relative=True, name=None):
        if value < 0:
            raise ModelError("ValueError", "negative")
        n = self.origin if name is None else self.absname(name)
        ex = self._get(n, dns.rdatatype.SOA, dns.rdatatype.NONE)
        if ex is None or not ex[1]:
            raise ModelError("KeyError", "no SOA")
        soa = ex[1][0]
        if relative:
            if value > 2 ** 31 - 1:
                raise ModelError("ValueError", "increment too large")
            serial = (soa.serial + value) % 2 ** 32
        else:
            if value > 2 ** 32 - 1:
                raise ModelError("ValueError", "serial out of range")
            serial = value
        if serial == 0:
            serial = 1
        self._put(n, dns.rdatatype.SOA, dns.rdatatype.NONE, ex[0], [soa.replace(serial=serial)])


def dedup(items):
    out = []
    for i in items:
        if i not in out:
            out.append(i)
    return out


def zone_snapshot(zone_or_txn_items, origin, relativized):
    """Snapshot of real content from an iterable of (name, rdataset)."""
    out = {}
    for name, rds in zone_or_txn_items:
        n = name.derelativize(origin) if not name.is_absolute() else name
        key = (n, int(rds.rdtype), int(rds.covers))
        if key in out:
            out[("DUPLICATE",) + key] = (rds.ttl, frozenset(rds))
        out[key] = (rds.ttl, frozenset(rds))
    return out


def real_zone_snapshot(zone):
    items = []
    for name, node in zone.nodes.items():
        for rds in node.rdatasets:
            items.append((name, rds))
        if len(node.rdatasets) == 0:
            items.append((name, _EmptyMarker()))
    return zone_snapshot(items, zone.origin, zone.relativize)


class _EmptyMarker:
    """An empty node left in the zone shows up as a distinguished snapshot entry."""
    rdtype = 0
    covers = 0
    ttl = -1

    def __iter__(self):
        return iter(())


def fmt_snapshot(snap):
    return sorted("%s %s%s ttl=%s {%s}" % (k[-3], dns.rdatatype.to_text(k[-2]),
                                          "" if not k[-1] else "(%s)" % dns.rdatatype.to_text(k[-1]),
                                          v[0], ", ".join(sorted(r.to_text() for r in v[1])))
                  for k, v in snap.items())
